"""C17 — the driver runs exactly the documented stages with the documented arguments.

K2 without faults: the real driver.c runs against the simulated process world (harness/world.c) for every
command line of a bounded grammar; the observed spawns (argv, stdin provenance, stdout) are compared with
the reference model drvref.  Conformance: a subset is re-run with real processes and stub tools.
"""
import itertools
import os
import re
import shutil
import subprocess
import tempfile

from .. import build, drvref, fs

LEVEL = 'model_checking'
TRIPLES = ('x86_64-linux-gnu', 'aarch64-linux-gnu', 'riscv64-linux-gnu')

INPUTS = ['a.c', 'b.h', 'c.i', 'd.qbe', 'e.s', 'f.S', 'g.o']
ODD_INPUTS = ['h', 'x.y.c', 'dir/k.c', '-', './p', 'v1.2/prog', '../r.d/q', 'a.b/c.d/e.s', '.hidden.c', 'dir.x/']
MODES = [['-c'], ['-S'], ['-E'], ['-emit-qbe']]
OUT = [['-o', 'out'], ['-oout'], ['-o', '-']]
PPOPTS = [['-D', 'X'], ['-DX=1'], ['-U', 'X'], ['-UX'], ['-I', 'd'], ['-Id'], ['-include', 'h'], ['-isystem', 'd'],
          ['-idirafter', 'd'], ['-iquote', 'd'], ['-nostdinc'], ['-std=c11'], ['-P'], ['-M'], ['-MM'], ['-MD'], ['-MMD'],
          ['-MT', 't'], ['-MF', 'f'], ['-Wp,a,b']]
ASOPTS = [['-Wa,a,b']]
LDOPTS = [['-L', 'd'], ['-Ld'], ['-l', 'm'], ['-lm'], ['-s'], ['-static'], ['-pthread'], ['-nostdlib'], ['-Wl,a,b']]
IGNORED = [['-g'], ['-O2'], ['-pipe'], ['-pedantic'], ['-Wall'], ['-v'], ['-W']]
LANG = [['-x', 'c'], ['-xc'], ['-x', 'none'], ['-x', 'c-header'], ['-x', 'cpp-output'], ['-x', 'qbe'], ['-x', 'assembler'],
        ['-x', 'assembler-with-cpp'], ['-x', 'bogus']]
MALFORMED = [['-cx'], ['-Q'], ['-E5'], ['-o'], ['-D'], ['-I'], ['-x'], ['-Wx,a'], ['-include'], ['-MT'], ['-MQ'], ['-sx'], ['-vv'], ['-l']]

WORDS = [[x] for x in INPUTS + ODD_INPUTS] + MODES + OUT + PPOPTS + ASOPTS + LDOPTS + IGNORED + LANG + MALFORMED


def cmdlines(quick):
    seen = set()

    def emit(ws):
        flat = tuple(x for w in ws for x in w)
        if flat not in seen:
            seen.add(flat)
            return flat
        return None

    out = []
    maxw = 2 if quick else 3
    for n in range(1, maxw + 1):
        for ws in itertools.product(WORDS, repeat=n):
            # malformed words that swallow the next word are only interesting at the end or before one word
            f = emit(ws)
            if f:
                out.append(f)
    # structured family: mode x output form x input tuples x one option of each class at each position
    modes = MODES + [[]]
    outs = [[]] + OUT
    maxin = 3 if quick else 4
    tuples = []
    for k in range(1, maxin + 1):
        if k <= 2 or not quick:
            tuples += list(itertools.product(INPUTS, repeat=k)) if k <= 3 else []
        if k == 3 and quick:
            tuples += [t for t in itertools.product(INPUTS[:4] + INPUTS[6:], repeat=3)]
        if k == 4:
            tuples += [t for t in itertools.product(['a.c', 'e.s', 'g.o'], repeat=4)]
    tuples += [tuple(INPUTS[(i + j) % 7] for j in range(6)) for i in range(7)] + [tuple([x] * 6) for x in INPUTS]
    # output naming: every mode x every forced language x every odd path shape (no -o, and with -o)
    for m in modes:
        for lang in ([], ['-x', 'c'], ['-x', 'assembler'], ['-x', 'cpp-output'], ['-x', 'qbe']):
            for pth in ODD_INPUTS + ['a.c', 'dir/sub/f.S', 'noext', 'd.ir/noext', './x.c', '../y.i', 'a/b.c/c']:
                for o in ([], ['-o', 'out']):
                    f = emit([m, lang, [pth], o])
                    if f:
                        out.append(f)
    optsamples = [['-DX=1'], ['-Wa,a,b'], ['-lm'], ['-Wl,a,b'], ['-x', 'c'], ['-nostdlib']]
    for m in modes:
        for o in outs:
            for t in tuples:
                base = [m, o] + [[x] for x in t]
                f = emit(base)
                if f:
                    out.append(f)
                if len(t) <= (2 if quick else 3):
                    for op in optsamples:
                        for pos in range(2, len(base) + 1):
                            f = emit(base[:pos] + [op] + base[pos:])
                            if f:
                                out.append(f)
    return out


_spawn_re = re.compile(r'^spawn cmd=(\S*) argv=(.*) -> pid=(\d+) stage=(-?\d+) in=(-?\d+) out=(-?\d+) fate=')


def parse_runs(text):
    """Split drvmc batch output into runs: list of dict(spawns, status, viols, log)."""
    runs = []
    cur = None
    for ln in text.split('\n'):
        if ln.startswith('CHOICES'):
            cur = dict(spawns=[], status=None, viols=[], log=[], unlinks=[], temps=[])
            continue
        if cur is None:
            continue
        cur['log'].append(ln)
        m = _spawn_re.match(ln)
        if m:
            cur['spawns'].append(dict(cmd=m.group(1), argv=m.group(2).split('\x1f'), stage=int(m.group(4)),
                                      inp=int(m.group(5)), out=int(m.group(6))))
        elif ln.startswith('spawn '):
            cur['viols'].append('unparsed spawn line: ' + ln)
        elif ln.startswith('unlink '):
            cur['unlinks'].append(ln.split()[1])
        elif ln.startswith('mkstemp -> '):
            cur['temps'].append(ln.split()[2])
        elif ln.startswith('STATUS'):
            cur['status'] = int(ln.split()[1])
        elif ln.startswith('VIOL'):
            cur['viols'].append(ln)
        elif ln == 'END':
            runs.append(cur)
            cur = None
    return runs


def normalize(run):
    """Observed spawns in the model's vocabulary, temp names replaced by TEMPk."""
    temps = {}

    def nt(a):
        if a.startswith('/tmp/cproc-'):
            if a not in temps:
                temps[a] = 'TEMP%d' % (len(temps) + 1)
            return temps[a]
        return a
    for t in run['temps']:
        nt(t)
    obs = []
    for i, s in enumerate(run['spawns']):
        prov = None
        if s['inp'] >= 0:
            for j in range(i - 1, -1, -1):
                if run['spawns'][j]['out'] == s['inp']:
                    prov = j
                    break
            else:
                prov = 'dangling'
        obs.append(dict(stage=s['stage'], argv=[nt(a) for a in s['argv']], stdin=prov, stdout='pipe' if s['out'] >= 0 else 'inherit'))
    return obs, temps


def compare(words, triple, run):
    """None if the run conforms to drvref, else (family key, explanation)."""
    exp = drvref.model(words, triple)
    # unconditional, whatever the documentation leaves open for this command line: the driver never deletes one of its inputs
    for v in run['viols']:
        if 'I6:' in v:
            return ('world/input-file-deleted', v)
    if exp[0] == 'ambiguous':
        return 'ambiguous'
    if run['viols']:
        return ('world/' + re.sub(r'[0-9]+', 'N', run['viols'][0])[:60], run['viols'][0])
    if exp[0] == 'usage':
        if run['status'] != 2:
            return ('usage-not-refused', 'expected usage error (status 2, nothing spawned), got status %s with %d spawns' % (run['status'], len(run['spawns'])))
        if run['spawns']:
            return ('usage-after-spawn', 'usage error after spawning')
        return None
    if run['status'] == 2:
        return ('valid-line-refused', 'valid command line refused with a usage error')
    _, spawns, link, ntemp = exp
    want = spawns + ([link] if link else [])
    obs, temps = normalize(run)
    if len(obs) != len(want):
        return ('stage-count', 'expected %d spawns %s, observed %d %s' % (
            len(want), [drvref.STAGENAME[s['stage']] for s in want], len(obs), [s['stage'] for s in obs]))
    for k, (w, o) in enumerate(zip(want, obs)):
        if w['stage'] != o['stage']:
            return ('stage-order', 'spawn %d: expected stage %s, observed %s' % (k, drvref.STAGENAME[w['stage']], o['stage']))
        if w['argv'] != o['argv']:
            fam = 'argv/' + drvref.STAGENAME[w['stage']]
            if '-emit-qbe' in words and w['stage'] == drvref.COMPILE and '-o' in o['argv'] and '-o' not in w['argv']:
                k = o['argv'].index('-o')
                if o['argv'][k + 1].endswith('.qbe') and o['argv'][:k] + o['argv'][k + 2:] == w['argv']:
                    fam = 'emit-qbe-writes-file-instead-of-stdout'
            return (fam, 'spawn %d (%s): expected argv %r, observed %r' % (k, drvref.STAGENAME[w['stage']], w['argv'], o['argv']))
        if w['stdin'] != o['stdin']:
            return ('stdin-provenance', 'spawn %d: stdin expected from spawn %r, observed %r' % (k, w['stdin'], o['stdin']))
        if w['stdout'] != o['stdout']:
            return ('stdout', 'spawn %d: stdout expected %s, observed %s' % (k, w['stdout'], o['stdout']))
    if run['status'] != 0:
        return ('status', 'all tools succeeded but exit status is %s' % run['status'])
    if sorted(temps) != sorted(set(run['unlinks']) & set(temps)):
        return ('temps-not-removed', 'temporaries %r, unlinked %r' % (sorted(temps), run['unlinks']))
    return None


def _job(a):
    triple, lines = a
    exe = build.driver(triple)
    inp = '\n'.join('\x1f'.join(l) for l in lines) + '\n'
    p = subprocess.run([exe, 'batch'], input=inp.encode(), stdout=subprocess.PIPE, stderr=subprocess.DEVNULL, timeout=1200)
    runs = parse_runs(p.stdout.decode(errors='replace'))
    res = []
    if len(runs) != len(lines):
        return [('harness', lines[0], 'drvmc batch returned %d runs for %d lines' % (len(runs), len(lines)))]
    nst = set()
    for l, r in zip(lines, runs):
        c = compare(l, triple, r)
        sig = (tuple((s['stage'], len(s['argv'])) for s in r['spawns']), r['status'])
        res.append((c, l, sig))
    return res


def self_location(chk):
    """Environment answers for the driver's search for its compiler proper: /proc/self/exe resolves (default, covered by every
    other run), does not resolve (the driver falls back to argv[0]), or fills the buffer (must be refused before anything runs)."""
    triple = TRIPLES[0]
    exe = build.driver(triple)
    n = 0
    lines = [['a.c'], ['-c', 'a.c'], ['-S', 'a.c', 'b.c'], ['-emit-qbe', '-o', 'x', 'a.c'], ['-E', 'a.c'], ['a.qbe'], ['-c', 'a.s']]
    for argv0 in ('cproc', './cproc', '/usr/local/bin/cproc', '../x/cc', 'c'):
        for l in lines:
            p = subprocess.run([exe, 'run', '-R', '1', '-A', argv0, '--'] + l, stdout=subprocess.PIPE, stderr=subprocess.DEVNULL, timeout=60)
            runs = parse_runs(p.stdout.decode(errors='replace'))
            n += 1
            if len(runs) != 1:
                chk.violation('self-location/no-result', 'argv[0]=%r, /proc/self/exe unreadable, command line %r: the driver gave no result' % (argv0, l))
                continue
            want_compile = not (l[-1].endswith('.qbe') or l[-1].endswith('.s') or '-E' in l)
            got = [s['argv'][0] for s in runs[0]['spawns'] if s['stage'] == 1]
            exp = [argv0 + '-qbe'] * (sum(1 for x in l if x.endswith('.c')) if want_compile else 0)
            if got != exp or runs[0]['status'] != 0:
                chk.violation('self-location/fallback-to-argv0', 'argv[0]=%r, /proc/self/exe unreadable, command line %r: compile stages run %r (status %s), expected %r' % (
                    argv0, l, got, runs[0]['status'], exp), cmd='# drvmc run -R 1 -A %s -- %s' % (argv0, ' '.join(l)))
    for l in lines:
        p = subprocess.run([exe, 'run', '-R', '2', '--'] + l, stdout=subprocess.PIPE, stderr=subprocess.DEVNULL, timeout=60)
        runs = parse_runs(p.stdout.decode(errors='replace'))
        n += 1
        if len(runs) != 1 or runs[0]['status'] != 1 or runs[0]['spawns']:
            chk.violation('self-location/oversized-target-not-refused', 'a /proc/self/exe target that fills the buffer, command line %r: status %s, %d spawns (expected status 1, none)' % (
                l, runs[0]['status'] if runs else None, len(runs[0]['spawns']) if runs else -1), cmd='# drvmc run -R 2 -- %s' % ' '.join(l))
    return n


def real_conformance(chk, lines):
    """Replay command lines with real processes and stub tools; the facts recorded by the stubs must equal the world's log."""
    triple = TRIPLES[0]
    work = tempfile.mkdtemp(prefix='c17real.')
    n = bad = 0
    try:
        exe = build.driver(triple, real=True)
        bindir = os.path.dirname(exe)
        wexe = build.driver(triple)
        for l in lines:
            cwd = os.path.join(work, 'cwd')
            shutil.rmtree(cwd, ignore_errors=True)
            os.makedirs(os.path.join(cwd, 'dir'))
            for f in INPUTS + ['h', 'x.y.c', 'dir/k.c']:
                open(os.path.join(cwd, f), 'w').write('SRC(%s)\n' % f)
            log = os.path.join(work, 'log')
            open(log, 'w').close()
            env = dict(os.environ, STUBLOG=log)
            p = subprocess.run([os.path.join(bindir, 'cproc')] + list(l), cwd=cwd, env=env, stdin=subprocess.DEVNULL,
                               stdout=subprocess.PIPE, stderr=subprocess.PIPE, timeout=60)
            real = []
            for ln in open(log).read().split('\n'):
                if ln:
                    f = ln.split('\x1e')
                    real.append((os.path.basename(f[0]), [re.sub(r'/tmp/cproc-\w+', 'TEMP', a) for a in f[1].split('\x1f')] if f[1] else [], f[2]))
            w = subprocess.run([wexe, 'run', '--'] + list(l), stdout=subprocess.PIPE, stderr=subprocess.DEVNULL, timeout=60)
            run = parse_runs(w.stdout.decode(errors='replace'))[0]
            sim = []
            for i, s in enumerate(run['spawns']):
                tag = ''
                j = i
                chain = []
                while run['spawns'][j]['inp'] >= 0:
                    for k in range(j - 1, -1, -1):
                        if run['spawns'][k]['out'] == run['spawns'][j]['inp']:
                            j = k
                            break
                    else:
                        break
                    chain.append(os.path.basename(run['spawns'][j]['argv'][0]))
                sim.append((os.path.basename(s['argv'][0]), [re.sub(r'/tmp/cproc-\w+', 'TEMP', a) for a in s['argv'][1:]], '<'.join(chain)))
            n += 1
            # real processes of one pipeline run concurrently: compare as multisets per command line
            if sorted(map(repr, real)) != sorted(map(repr, sim)) or (p.returncode != run['status']):
                bad += 1
                chk.violation('conformance/world-differs-from-real-processes',
                              'command line %r: real stubs recorded %r (status %d), world %r (status %s)' % (l, real, p.returncode, sim, run['status']),
                              files={'cmdline.txt': ' '.join(l).encode()})
    finally:
        shutil.rmtree(work, ignore_errors=True)
    return n, bad


def main(chk):
    lines = cmdlines(chk.quick)
    chk.log('%d command lines x %d triples (%d words in the alphabet)' % (len(lines), len(TRIPLES), len(WORDS)))
    jobs = []
    for t in TRIPLES:
        build.driver(t)
        for i in range(0, len(lines), 500):
            jobs.append((t, lines[i:i + 500]))
    n = amb = 0
    sigs = set()
    states = set()
    samples = []
    for res in fs.pimap(_job, jobs):
        for c, l, sig in res:
            if c == 'harness':
                from ..runner import SubjectFailure
                raise SubjectFailure('world/batch-incomplete', 'the driver under the simulated world did not complete a batch of command lines (first: %r): %s' % (l, sig))
            n += 1
            sigs.add(sig)
            states.add(sig[0])
            if c == 'ambiguous':
                amb += 1
            elif c is not None:
                chk.violation(c[0], 'cproc %s: %s' % (' '.join(l), c[1]), files={'cmdline.txt': ' '.join(l).encode()},
                              cmd='%s run -- %s' % (build.driver(TRIPLES[0]), ' '.join("'%s'" % x for x in l)))
        if chk.expired():
            break
    # unsupported triple must be refused
    bad = build.driver('m68k-linux-gnu')
    p = subprocess.run([bad, 'run', '--', '-c', 'a.c'], stdout=subprocess.PIPE, stderr=subprocess.DEVNULL, timeout=60)
    r = parse_runs(p.stdout.decode(errors='replace'))[0]
    if r['spawns'] or r['status'] == 0:
        chk.violation('unsupported-triple-accepted', 'target m68k-linux-gnu: status %s, %d spawns' % (r['status'], len(r['spawns'])))
    # conformance with real processes
    conf = [l for l in lines if len(l) <= 1][:40]
    conf += [tuple(m + o + [a] + b) for m in MODES + [[]] for o in [[], ['-o', 'out']] for a in ['a.c', 'e.s', 'd.qbe'] for b in [[], ['g.o'], ['c.i']]
             if not (o and b and m)]
    nreal, badreal = real_conformance(chk, conf)
    nself = self_location(chk)
    n += nself
    samples = [{'cmdline': ' '.join(l), 'model': repr(drvref.model(l, TRIPLES[0]))[:400]} for l in (lines[5], lines[len(lines) // 2], lines[-1])]
    cov = {
        'states': len(states),
        'transitions': n,
        'traces_validated_against_impl': n + nreal,
        'samples': samples,
        'command_lines': len(lines),
        'triples': list(TRIPLES) + ['m68k-linux-gnu (must be refused)'],
        'alphabet_words': len(WORDS),
        'distinct_outcomes': len(sigs),
        'ambiguous': amb,
        'real_process_conformance_runs': nreal,
        'real_process_conformance_mismatches': badreal,
        'rule': 'state = per-input (stage sequence, argv lengths) signature observed in the world; transition = one command line executed by the '
                'real driver.c in the simulated world and compared spawn by spawn with drvref; all lines of <= %d words over the alphabet plus the '
                'structured mode x output x input-tuple x option-position family' % (2 if chk.quick else 3),
    }
    return chk.finish(cov, [
        'driver.c is compiled unmodified with -Dmain=driver_main against a generated config.h; libc process primitives are interposed by harness/world.c',
        'drvref follows cproc(1); undocumented options (-M*, -std=, -P, -include family) follow the property statement (preprocessor options)',
        'the world itself is validated against real processes with stub tools for a fixed list of command lines',
    ])
