"""C14 — character constants and string literals denote the standard-mandated values.

K3, bounded-exhaustive: strata L1..L7 of DESIGN.md (every byte, every simple escape, every octal escape
with digit-like followers, hexadecimal escapes, UTF-8 byte sequences around every encoding boundary,
prefix mixtures in concatenations, `char`-valued constants) for all five prefixes and all three targets.

Observation: `T s[] = LIT;` (item letter = element width, code units, count incl. terminator),
`long long c = CHARCONST;` (value as seen through the constant's type), `_Generic` for the type.
Oracle: reference model vlib/litref.py (R) AND the witness compilers (gcc on the host target,
clang --target for every target; both -pedantic-errors, data read from their -S output).
Two-witness rule: a case is reported only when cproc is outside what R admits and every witness is inside;
implementation-defined cases and R/witness disagreements are counted as ambiguous and never reported.
Witnesses are consulted only for cases where cproc != R (plus a fixed sanity batch that guards the
witness plumbing itself).
"""
import itertools
import re
import subprocess

from .. import fs, ilparse, litref, witness

LEVEL = 'model_checking'

PREFIXES = litref.PREFIXES
TARGETS = litref.TARGETS
UNIT = 48            # valid-expected cases per compilation unit
WTIMEOUT = 120

STR_GENERIC = 'char*: 1, unsigned char*: 2, signed char*: 3, unsigned short*: 4, short*: 5, unsigned*: 6, int*: 7, default: 0'
STR_CODE = {'char': 1, 'uchar': 2, 'schar': 3, 'ushort': 4, 'short': 5, 'uint': 6, 'int': 7}
CHR_GENERIC = ('int: 1, unsigned char: 2, unsigned short: 3, unsigned: 4, char: 5, signed char: 6, short: 7, '
               'long: 8, unsigned long: 9, default: 0')
CHR_CODE = {'int': 1, 'uchar': 2, 'ushort': 3, 'uint': 4, 'char': 5, 'schar': 6, 'short': 7, 'long': 8, 'ulong': 9}
NAME_OF = {'str': {v: k for k, v in STR_CODE.items()}, 'chr': {v: k for k, v in CHR_CODE.items()}}
LETTER_W = {'b': 1, 'h': 2, 'w': 4, 'l': 8}


def elem_ctype(prefix, target):
    if prefix in ('', 'u8'):
        return b'char'
    if prefix == 'u':
        return b'unsigned short'
    if prefix == 'U':
        return b'unsigned'
    return b'int' if litref.WCHAR_SIGNED[target] else b'unsigned'


# ---------------------------------------------------------------------------
# enumeration.  A case is (kind, text, dprefix): kind 'str'|'chr', text = the initializer bytes,
# dprefix = prefix that selects the declared array element type.

def lit(prefix, kind, body):
    q = b'"' if kind == 'str' else b"'"
    return prefix.encode() + q + body + q


BOUNDARY_CONT = (0x80, 0x8f, 0x90, 0x9f, 0xa0, 0xbf)
QUICK_LEADS2 = (0x7f, 0x80, 0xbf, 0xc0, 0xc1, 0xc2, 0xdf, 0xe0, 0xed, 0xef, 0xf0, 0xf4, 0xf5, 0xff)
LEADS34 = (0xe0, 0xed, 0xef, 0xf0, 0xf4)
BOUNDARY_SCALARS = (0x7f, 0x80, 0x7ff, 0x800, 0xd7ff, 0xd800, 0xdbff, 0xdc00, 0xdfff, 0xe000, 0xffff, 0x10000,
                    0x10ffff, 0x110000)
HEXSYM = '01789afAF'
HEXFIXED = ('ffff', '10000', '10ffff', '110000', '7fffffff', 'ffffffff', '100000000')
L6_CONTENTS = (b'A', 'é'.encode(), '\U00010000'.encode(), b'\\377', b'\\xff')


def cases_of(stratum, spec):
    out = []
    if stratum == 'L1':
        (p,) = spec
        for kind in ('chr', 'str'):
            for b in range(256):
                out.append((kind, lit(p, kind, bytes([b])), p))
    elif stratum == 'L2':
        (p,) = spec
        for kind in ('chr', 'str'):
            for b in range(256):
                out.append((kind, lit(p, kind, b'\\' + bytes([b])), p))
    elif stratum == 'L3':
        p, d1 = spec
        digs = [d1] + [d1 + a for a in '01234567'] + [d1 + a + b for a in '01234567' for b in '01234567']
        for d in digs:
            for f in ('', '7', '8', '9', 'a'):
                out.append(('str', lit(p, 'str', b'\\' + (d + f).encode()), p))
            for f in ('', '8'):
                out.append(('chr', lit(p, 'chr', b'\\' + (d + f).encode()), p))
    elif stratum == 'L4':
        p, h1 = spec
        if h1 == 'fixed':
            digs = list(HEXFIXED)
        else:
            digs = [h1] + [h1 + a for a in HEXSYM] + [h1 + a + b for a in HEXSYM for b in HEXSYM]
        for d in digs:
            for f in ('', 'g', ' '):
                out.append(('str', lit(p, 'str', b'\\x' + (d + f).encode()), p))
            out.append(('chr', lit(p, 'chr', b'\\x' + d.encode()), p))
    elif stratum == 'L5':
        what, p = spec[0], spec[1]
        bodies = []
        if what == 'pair':
            b1 = spec[2]
            bodies = [bytes([b1, b2]) for b2 in range(256)]
        elif what == 'seq3':
            for lead in spec[2]:
                bodies += [bytes((lead,) + t) for t in itertools.product(BOUNDARY_CONT, repeat=2)]
        elif what == 'seq4':
            for lead in spec[2]:
                bodies += [bytes((lead,) + t) for t in itertools.product(BOUNDARY_CONT, repeat=3)]
        elif what == 'scalars':
            for s in BOUNDARY_SCALARS:
                for cp in (s - 1, s, s + 1):
                    enc = litref.raw_utf8(cp)
                    bodies += [enc, b'a' + enc + b'z', enc + enc]
        for body in bodies:
            out.append(('str', lit(p, 'str', body), p))
            out.append(('chr', lit(p, 'chr', body), p))
    elif stratum == 'L6':
        what = spec[0]
        if what == 'single':    # one literal, two contents (escape state must not leak into the next character)
            (p,) = spec[1:]
            for c1 in L6_CONTENTS:
                for c2 in L6_CONTENTS:
                    out.append(('str', lit(p, 'str', c1 + c2), p))
        elif what == 'pair':
            p1, c1 = spec[1:]
            for p2 in PREFIXES:
                for c2 in L6_CONTENTS:
                    out.append(('str', lit(p1, 'str', c1) + b' ' + lit(p2, 'str', c2), p2 or p1))
        elif what == 'triple':
            p1, p2, contents = spec[1:]
            for p3 in PREFIXES:
                for c1, c2, c3 in contents:
                    out.append(('str', lit(p1, 'str', c1) + b' ' + lit(p2, 'str', c2) + b' ' + lit(p3, 'str', c3),
                                p3 or p2 or p1))
    elif stratum == 'L7':
        (p,) = spec
        for v in range(256):
            out.append(('chr', lit(p, 'chr', b'\\x%x' % v), p))
            out.append(('chr', lit(p, 'chr', b'\\%o' % v), p))
            out.append(('chr', lit(p, 'chr', b'\\%03o' % v), p))
    else:
        raise ValueError(stratum)
    return out


QUICK_TRIPLE_CONTENTS = ((L6_CONTENTS[0], L6_CONTENTS[1], L6_CONTENTS[2]),
                         (L6_CONTENTS[3], L6_CONTENTS[0], L6_CONTENTS[4]),
                         (L6_CONTENTS[2], L6_CONTENTS[4], L6_CONTENTS[1]))


def shards(chk):
    out = []
    quick = chk.quick
    for t in TARGETS:
        for p in PREFIXES:
            out.append(('L1', t, (p,)))
            out.append(('L2', t, (p,)))
            for d1 in '01234567':
                out.append(('L3', t, (p, d1)))
            for h1 in HEXSYM:
                out.append(('L4', t, (p, h1)))
            out.append(('L4', t, (p, 'fixed')))
            for b1 in (QUICK_LEADS2 if quick else range(256)):
                out.append(('L5', t, ('pair', p, b1)))
            if quick:
                out.append(('L5', t, ('seq3', p, LEADS34)))
            else:
                for lead in range(0, 256, 4):
                    out.append(('L5', t, ('seq3', p, tuple(range(lead, lead + 4)))))
            for lead in (LEADS34 if quick else tuple(sorted(set(LEADS34) | set(range(0xf0, 0xf8))))):
                out.append(('L5', t, ('seq4', p, (lead,))))
            out.append(('L5', t, ('scalars', p)))
            out.append(('L6', t, ('single', p)))
            for c in L6_CONTENTS:
                out.append(('L6', t, ('pair', p, c)))
            for p2 in PREFIXES:
                if quick:
                    out.append(('L6', t, ('triple', p, p2, QUICK_TRIPLE_CONTENTS)))
                else:
                    for c1 in L6_CONTENTS:
                        out.append(('L6', t, ('triple', p, p2, tuple((c1, c2, c3) for c2 in L6_CONTENTS for c3 in L6_CONTENTS))))
            out.append(('L7', t, (p,)))
    return [s for s in out if chk.want(s[0])]


# ---------------------------------------------------------------------------
# rendering: one case = two declarations on lines of their own, then a separator declaration that
# absorbs whatever error recovery a compiler does after a broken literal

def render(cases, idxs, target):
    """Returns (source bytes, {i: (first line, last line)}) with 1-based physical line numbers."""
    parts = []
    spans = {}
    line = 1
    for i in idxs:
        kind, text, dp = cases[i]
        if kind == 'str':
            s = b'%s s%d[] = %s;\nint g%d = _Generic(%s, %s);\n' % (elem_ctype(dp, target), i, text, i, text, STR_GENERIC.encode())
        else:
            s = b'long long c%d = %s;\nint g%d = _Generic(%s, %s);\n' % (i, text, i, text, CHR_GENERIC.encode())
        n = s.count(b'\n')
        spans[i] = (line, line + n - 1)
        line += n
        parts.append(s)
        parts.append(b'int q%d;\n' % i)
        line += 1
    return b''.join(parts), spans


# ---------------------------------------------------------------------------
# cproc observation

_assert_re = re.compile(rb'(\w+\.c):\d+: (\w+): Assertion')


def crash_desc(r):
    m = _assert_re.search(r.err)
    if m:
        return 'assert-%s' % m.group(2).decode()
    if r.status >= 1000:
        return 'signal-%d' % (r.status - 1000)
    return 'status-%d' % r.status


def cproc_unit(srv, cases, idxs, target):
    """Compile the cases `idxs` as ONE unit. Returns {i: obs} or, when the unit as a whole was not
    accepted, the single observation ('rej'|'crash', ...) of the unit."""
    src, _ = render(cases, idxs, target)
    r = srv.compile(src, target=target, cpu_s=5)
    if r.status == 1:
        return ('rej', r.err.decode('latin-1').strip().split('\n')[0])
    if r.status != 0:
        return ('crash', r.status, crash_desc(r))
    try:
        m = ilparse.parse(r.out)
    except ilparse.ParseError as e:
        return ('crash', 0, 'unparsable-IL: %s' % e)
    objs = {d.name: d for d in m.data}
    out = {}
    for i in idxs:
        kind = cases[i][0]
        g = objs.get('$g%d' % i)
        d = objs.get('$%s%d' % ('s' if kind == 'str' else 'c', i))
        if g is None or d is None:
            out[i] = ('crash', 0, 'object-missing-from-IL')
            continue
        gimg, _ = ilparse.data_image(g)
        tcode = int.from_bytes(gimg[:4], 'little')
        img, _ = ilparse.data_image(d)
        letters = {ty for ty, _ in d.items if ty != 'z'}
        if kind == 'str':
            if len(letters) != 1 or next(iter(letters)) not in ('b', 'h', 'w'):
                out[i] = ('ok', 0, tuple(img), tcode)
                continue
            w = LETTER_W[next(iter(letters))]
            units = tuple(int.from_bytes(img[k:k + w], 'little') for k in range(0, len(img), w))
            out[i] = ('ok', w, units, tcode)
        else:
            out[i] = ('ok', None, int.from_bytes(img[:8], 'little', signed=True), tcode)
    return out


# ---------------------------------------------------------------------------
# witnesses

def w_cmd(tool, target, std):
    if tool == 'gcc':
        return ['gcc', '-std=' + std, '-pedantic-errors', '-S', '-O0', '-fno-common', '-fno-pic', '-fmax-errors=0',
                '-fno-diagnostics-show-caret', '-x', 'c', '-', '-o', '-']
    return ['clang', '--target=' + witness.TRIPLE[target], '-std=' + std, '-pedantic-errors', '-ffreestanding', '-fno-common',
            '-ferror-limit=0', '-fno-caret-diagnostics', '-S', '-O0', '-x', 'c', '-', '-o', '-']


_err_re = re.compile(rb'^<stdin>:(\d+):(?:\d+:)? (?:fatal )?error', re.M)
_label_re = re.compile(r'^([A-Za-z_.$][\w.$]*):')
_SZ = {'.byte': 1, '.short': 2, '.value': 2, '.2byte': 2, '.hword': 2, '.half': 2, '.long': 4, '.4byte': 4, '.int': 4,
       '.quad': 8, '.8byte': 8, '.xword': 8, '.dword': 8}
_ASM_ESC = {'b': 8, 'f': 12, 'n': 10, 'r': 13, 't': 9, '"': 34, '\\': 92}


def _asm_string(s):
    out = bytearray()
    i, n = 0, len(s)
    while i < n:
        c = s[i]
        if c != '\\':
            out.append(ord(c))
            i += 1
            continue
        i += 1
        c = s[i]
        if c in '01234567':
            j = i
            while j < n and j < i + 3 and s[j] in '01234567':
                j += 1
            out.append(int(s[i:j], 8) & 0xff)
            i = j
        else:
            out.append(_ASM_ESC[c])
            i += 1
    return bytes(out)


def asm_objects(asm, target):
    """{label: data bytes} from gcc/clang -S output (little endian; data directives only)."""
    objs = {}
    cur = None
    word = 2 if target == 'x86_64-sysv' else 4
    for ln in asm.decode('latin-1').split('\n'):
        ln = ln.strip()
        if not ln or ln[0] in '#/':
            continue
        m = _label_re.match(ln)
        if m:
            cur = objs.setdefault(m.group(1), bytearray())
            continue
        if cur is None or ln[0] != '.':
            continue
        d, _, rest = ln.partition('\t') if '\t' in ln else ln.partition(' ')
        rest = rest.strip()
        if d in ('.ascii', '.asciz', '.string'):
            # one or more quoted strings
            for sm in re.finditer(r'"((?:[^"\\]|\\.)*)"', rest):
                cur += _asm_string(sm.group(1))
                if d != '.ascii':
                    cur.append(0)
        elif d in _SZ or d == '.word':
            sz = _SZ.get(d, word)
            rest = re.split(r'\s(?:#|//|@)', ' ' + rest)[0]
            for v in rest.split(','):
                cur += (int(v.strip(), 0) % (1 << 8 * sz)).to_bytes(sz, 'little')
        elif d in ('.zero', '.skip', '.space'):
            rest = re.split(r'\s(?:#|//|@)', ' ' + rest)[0]
            cur += bytes(int(rest.split(',')[0].strip(), 0))
    return objs


class WitnessError(Exception):
    pass


_ctl_re = re.compile(rb'[\x00-\x1f\x7f]')


def _fragile(text):
    return _ctl_re.search(text) is not None


def w_observe(tool, target, std, cases, idxs, _depth=0):
    """{i: ('rej', msg) | ('ok', image bytes | value, tcode)} for the witness compiler `tool`."""
    if not idxs:
        return {}
    if len(idxs) > 1:
        # control characters (CR, FF, VT, NUL, newline) inside a literal change how a compiler counts lines:
        # such cases never share a unit, so errors can be attributed by line number for the others
        frag = [i for i in idxs if _fragile(cases[i][1])]
        if frag:
            out = {}
            for i in frag:
                out.update(w_observe(tool, target, std, cases, [i], _depth))
            fs_ = set(frag)
            out.update(w_observe(tool, target, std, cases, [i for i in idxs if i not in fs_], _depth))
            return out
    src, spans = render(cases, idxs, target)
    p = subprocess.run(w_cmd(tool, target, std), input=src, stdout=subprocess.PIPE, stderr=subprocess.PIPE, timeout=WTIMEOUT)
    if p.returncode == 0:
        objs = asm_objects(p.stdout, target)
        out = {}
        for i in idxs:
            kind = cases[i][0]
            g = objs.get('g%d' % i)
            d = objs.get('%s%d' % ('s' if kind == 'str' else 'c', i))
            if g is None or d is None or len(g) != 4:
                raise WitnessError('%s: object for case %d not found in assembly' % (tool, i))
            tcode = int.from_bytes(g, 'little')
            if kind == 'str':
                out[i] = ('ok', bytes(d), tcode)
            else:
                if len(d) != 8:
                    raise WitnessError('%s: c%d is %d bytes' % (tool, i, len(d)))
                out[i] = ('ok', int.from_bytes(d, 'little', signed=True), tcode)
        return out
    if p.returncode < 0 or b'internal compiler error' in p.stderr:
        raise WitnessError('%s died: %r' % (tool, p.stderr[-300:]))
    if len(idxs) == 1:
        first = [l for l in p.stderr.decode('latin-1').split('\n') if 'error' in l][:1]
        return {idxs[0]: ('rej', first[0] if first else 'rejected')}
    errlines = {int(x) for x in _err_re.findall(p.stderr)}
    rejected = [i for i in idxs if any(spans[i][0] <= l <= spans[i][1] for l in errlines)]
    rest = [i for i in idxs if i not in set(rejected)]
    out = {}
    if not rejected or _depth > 3:
        for i in idxs:      # cannot attribute the errors: one by one
            out.update(w_observe(tool, target, std, cases, [i], _depth + 1))
        return out
    for i in rejected:
        out[i] = ('rej', 'error on its own lines in a batch')
    out.update(w_observe(tool, target, std, cases, rest, _depth + 1))
    return out


def witnesses_for(case, target):
    """[(tool, std)] available for this case."""
    kind, text, dp = case
    if kind == 'chr' and (dp == 'u8' or text.startswith(b'u8')):
        return [('gcc', 'c2x')]         # clang 14 has no u8 character constants in C; value is target independent
    w = [('clang', 'c11')]
    if target == 'x86_64-sysv':
        w.insert(0, ('gcc', 'c11'))
    return w


def w_units(img, width):
    if len(img) % width:
        return None
    return tuple(int.from_bytes(img[k:k + width], 'little') for k in range(0, len(img), width))


def admitted(E, kind, obs, is_witness):
    """(status ok, value ok, type ok) of an observation under Expect E."""
    accepted = obs[0] == 'ok'
    st = E.admits_status(accepted)
    if not accepted:
        return st, True, True
    if E.must_reject:
        return st, True, True
    if kind == 'str':
        if is_witness:
            units = w_units(obs[1], E.width)
            val = units is not None and E.admits_value(E.width, units)
            t = obs[2]
        else:
            val = E.admits_value(obs[1], obs[2])
            t = obs[3]
        ty = t == STR_CODE[E.type]
    else:
        if is_witness:
            v, t = obs[1], obs[2]
        else:
            v, t = obs[2], obs[3]
        val = E.admits_value(None, v)
        ty = t == CHR_CODE[E.type]
    return st, val, ty


# ---------------------------------------------------------------------------
# naming the root-cause family of an established violation

QUIRK_KEY = {
    'oct8': 'escape/octal-escape-accepts-digit-8',
    'overlong': 'utf8/overlong-form-accepted-and-decoded',
    'surr': 'utf8/surrogate-DA00-DFFF-accepted',
    'trunc': 'escape/out-of-range-escape-not-rejected',
    'nosx': 'charconst/plain-value-not-converted-through-signed-char',
}
_QSETS = [q for n in (1, 2, 3) for q in itertools.combinations(litref.QUIRKS, n)]


def slug(msg):
    msg = re.sub(r'^[^ ]*: error: ', '', msg)
    msg = re.sub(r':.*$', '', msg)
    return re.sub(r'[^a-z0-9]+', '-', msg.lower()).strip('-')[:60]


def family(stratum, case, target, E, obs, aspect):
    kind, text, dp = case
    pfx = E.final_prefix if E.final_prefix is not None else dp
    if obs[0] == 'crash':
        return 'crash/' + obs[2]
    if aspect == 'type':
        got = NAME_OF[kind].get(obs[3], 'other')
        return 'type/%s/%s-prefix/expected-%s-got-%s' % (kind, pfx or 'no', E.type, got)
    if aspect == 'status' and obs[0] == 'rej':
        return 'rejected-valid/%s/%s' % (kind, slug(obs[1]))
    # accepted with a value the standard does not admit (or accepted at all): try the known wrong readings
    for qs in _QSETS:
        P = litref.expect(kind, text, target, None, qs)
        if P.ambiguous or P.must_reject or not P.alts:
            continue
        if kind == 'str':
            ok = P.admits_value(obs[1], obs[2]) and not P.reject_ok
        else:
            ok = obs[2] in P.alts
        if ok:
            key = QUIRK_KEY[qs[0]]
            if qs[0] == 'nosx' and pfx == 'L':
                key = 'charconst/L-value-not-converted-to-signed-wchar_t'
            return key
    if kind == 'chr' and pfx == 'u' and E.vrange and obs[2] > 0xffff:
        return 'charconst/u-prefix-value-above-FFFF-in-char16_t-constant'
    if aspect == 'status':
        return 'accepted-invalid/%s/%s' % (kind, E.must_reject)
    return 'wrong-value/%s/%s/%s-prefix' % (stratum, kind, pfx or 'no')


# ---------------------------------------------------------------------------
# the job run in a worker

_typecache = {}


def show(text):
    return text.decode('latin-1').encode('unicode_escape').decode()


def obs_str(kind, obs, is_witness=False, width=None):
    if obs[0] == 'rej':
        return 'rejected: ' + obs[1][:100]
    if obs[0] == 'crash':
        return 'crash status %s (%s)' % (obs[1], obs[2])
    if is_witness:
        v = obs[1]
        if kind == 'str':
            u = w_units(v, width or 1)
            v = 'units[%d] %s' % (width or 1, ' '.join('%x' % x for x in u)) if u is not None else 'image %s' % v.hex()
        return '%s type-code %d' % (v, obs[2])
    if kind == 'str':
        return 'units[%s] %s : %s' % (obs[1], ' '.join('%x' % x for x in obs[2]), NAME_OF['str'].get(obs[3], obs[3]))
    return 'value %d : %s' % (obs[2], NAME_OF['chr'].get(obs[3], obs[3]))


def _job(shard):
    stratum, target, spec = shard
    cases = cases_of(stratum, spec)
    n = len(cases)
    srv = fs.server('fs')
    trace = set()
    E = [litref.expect(k, t, target, trace) for k, t, _ in cases]
    obs = [None] * n
    runs = 0
    # 1. compile: strictly-valid cases share units, everything else runs alone
    valid = [i for i in range(n) if E[i].strict_valid]
    alone = [i for i in range(n) if not E[i].strict_valid]
    for k in range(0, len(valid), UNIT):
        grp = valid[k:k + UNIT]
        r = cproc_unit(srv, cases, grp, target)
        runs += 1
        if isinstance(r, dict):
            for i in grp:
                obs[i] = r[i]
        else:
            alone += grp        # some member poisoned the unit: isolate
    for i in alone:
        r = cproc_unit(srv, cases, [i], target)
        runs += 1
        obs[i] = r[i] if isinstance(r, dict) else r
    # 2. compare with R
    res = {'stratum': stratum, 'target': target, 'evaluations': n, 'runs': runs, 'expected_reject': 0, 'ambiguous': 0,
           'agree': 0, 'mismatch': 0, 'amb_samples': [], 'viol': {}, 'trace': trace, 'distinct': set(), 'notes': [],
           'witness_calls': 0, 'rw_disagree': 0, 'samples': [], 'rw_samples': []}
    pending = []        # (i, aspects)
    for i in range(n):
        kind = cases[i][0]
        e, o = E[i], obs[i]
        res['distinct'].add(hash((kind,) + tuple(o[:1]) + tuple(o[1:] if o[0] == 'ok' else ())))
        if o[0] == 'crash':
            add_viol(res, family(stratum, cases[i], target, e, o, 'status'), stratum, cases[i], target, e, o, [], 'status')
            continue
        if e.ambiguous:
            res['ambiguous'] += 1
            if len(res['amb_samples']) < 2:
                res['amb_samples'].append({'case': show(cases[i][1]), 'why': e.ambiguous, 'cproc': obs_str(kind, o)})
            continue
        if e.must_reject:
            res['expected_reject'] += 1
        st, val, ty = admitted(e, kind, o, False)
        aspects = [a for a, ok in (('status', st), ('value', val), ('type', ty)) if not ok]
        if not aspects:
            res['agree'] += 1
            continue
        res['mismatch'] += 1
        pending.append((i, aspects))
    if spec and n and len(res['samples']) < 1:
        i = min(n - 1, 3)
        res['samples'].append({'stratum': stratum, 'target': target, 'case': show(cases[i][1]),
                               'expected': E[i].describe(), 'observed': obs_str(cases[i][0], obs[i])})
    # 3. witnesses for the mismatching cases
    need = []
    for i, aspects in pending:
        if aspects == ['type']:
            ck = (cases[i][0], E[i].final_prefix, target, obs[i][3])
            if ck in _typecache:
                continue
        need.append(i)
    wobs = {}       # i -> [(tool, obs)]
    groups = {}
    for i in need:
        for w in witnesses_for(cases[i], target):
            groups.setdefault(w, []).append(i)
    try:
        for (tool, std), idxs in groups.items():
            # cases R expects to be accepted go first in one unit; a unit with rejects is split by error lines
            r = w_observe(tool, target, std, cases, idxs)
            res['witness_calls'] += 1
            for i in idxs:
                wobs.setdefault(i, []).append((tool, r[i]))
    except (WitnessError, subprocess.TimeoutExpired, KeyError, ValueError) as ex:
        res['notes'].append('witness failure in shard %r: %r' % (shard, ex))
        res['ambiguous'] += len(pending)
        res['witness_failed'] = len(pending)
        return res
    seen_keys = set()
    for i, aspects in pending:
        kind = cases[i][0]
        e, o = E[i], obs[i]
        if i in wobs:
            ws = wobs[i]
            verdicts = [(tool, admitted(e, kind, w, True), w) for tool, w in ws]
            agree = all(all(v) for _, v, _ in verdicts)
            if aspects == ['type']:
                _typecache[(kind, e.final_prefix, target, o[3])] = (agree, [(t, 'type-code %d (confirmed on `%s`)' % (w[2] if w[0] == 'ok' else -1, show(cases[i][1]))) for t, _, w in verdicts])
        else:
            agree, shown = _typecache[(kind, e.final_prefix, target, o[3])]
            verdicts = None
        if not agree:
            res['ambiguous'] += 1
            res['rw_disagree'] += 1
            if len(res['rw_samples']) < 4:
                res['rw_samples'].append({'case': show(cases[i][1]), 'target': target, 'why': 'R and a witness disagree', 'R': e.describe(),
                                           'cproc': obs_str(kind, o),
                                           'witnesses': [(t, obs_str(kind, w, True, e.width)) for t, _, w in verdicts] if verdicts else shown})
            continue
        for a in aspects:
            key = family(stratum, cases[i], target, e, o, a)
            if key not in seen_keys and verdicts is not None and len(need) > 1:
                # first case of a family in this shard: confirm the witnesses' verdict in isolation
                seen_keys.add(key)
                try:
                    for tool, std in witnesses_for(cases[i], target):
                        w1 = w_observe(tool, target, std, cases, [i])[i]
                        res['witness_calls'] += 1
                        if not all(admitted(e, kind, w1, True)):
                            agree = False
                except (WitnessError, subprocess.TimeoutExpired, KeyError, ValueError) as ex:
                    res['notes'].append('witness failure (isolation) %r' % (ex,))
                    agree = False
                if not agree:
                    res['ambiguous'] += 1
                    res['rw_disagree'] += 1
                    res['notes'].append('batched and isolated witness verdicts differ for %s' % show(cases[i][1]))
                    break
            wl = [(t, obs_str(kind, w, True, e.width)) for t, _, w in verdicts] if verdicts else _typecache[(kind, e.final_prefix, target, o[3])][1]
            add_viol(res, key, stratum, cases[i], target, e, o, wl, a)
    return res


def add_viol(res, key, stratum, case, target, e, o, wl, aspect):
    v = res['viol'].get(key)
    if v is None:
        kind, text, dp = case
        src, _ = render([case], [0], target)
        v = res['viol'][key] = {
            'count': 0, 'src': src, 'target': target, 'stratum': stratum,
            'what': '%s -t %s: %s `%s`: C11 admits %s; cproc: %s; witnesses: %s' % (
                stratum, target, 'string literal' if kind == 'str' else 'character constant', show(text), e.describe(),
                obs_str(kind, o), '; '.join('%s %s' % w for w in wl) if wl else '(crash: not consulted)'),
        }
    v['count'] += 1


# ---------------------------------------------------------------------------

SANITY = [('str', b'"ab\\n"', ''), ('str', 'u"é\U00010000"'.encode(), 'u'), ('str', 'U"\U00010000"'.encode(), 'U'),
          ('str', 'L"a€"'.encode(), 'L'), ('str', 'u8"é"'.encode(), 'u8'), ('str', b'"\\1018" "\\x41" "\\377"', ''),
          ('chr', b"'a'", ''), ('chr', b"'\\377'", ''), ('chr', b"L'\\xffffffff'", 'L'), ('chr', "u'é'".encode(), 'u'),
          ('chr', "U'\U0010ffff'".encode(), 'U'), ('chr', b"u8'a'", 'u8'), ('str', b'"\\x100"', ''), ('str', b'u"a" U"b"', 'U'),
          ('chr', b"''", '')]


def sanity(chk):
    """The witness plumbing (command lines, -S parsing, batched reject attribution) must reproduce R on a
    fixed batch of uncontroversial cases, otherwise nothing the witnesses say later can be trusted."""
    n = 0
    for target in TARGETS:
        E = [litref.expect(k, t, target) for k, t, _ in SANITY]
        groups = {}
        for i, c in enumerate(SANITY):
            for w in witnesses_for(c, target):
                groups.setdefault(w, []).append(i)
        for (tool, std), idxs in groups.items():
            r = w_observe(tool, target, std, SANITY, idxs)
            for i in idxs:
                n += 1
                if not all(admitted(E[i], SANITY[i][0], r[i], True)):
                    raise RuntimeError('witness sanity failed: %s -t %s %s: R admits %s, witness %s' % (
                        tool, target, show(SANITY[i][1]), E[i].describe(), obs_str(SANITY[i][0], r[i], True, E[i].width)))
    return n


def main(chk):
    nsan = sanity(chk)
    chk.log('witness sanity batch: %d observations agree with litref' % nsan)
    sh = shards(chk)
    # interleave strata so that a deadline cuts all of them evenly, heavy shards first inside each round
    chk.log('%d shards' % len(sh))
    per = {}
    trace = set()
    distinct = set()
    tot = dict(evaluations=0, runs=0, expected_reject=0, ambiguous=0, agree=0, mismatch=0, witness_calls=0, rw_disagree=0)
    samples, amb_samples, rw_samples = [], [], []
    viol = {}
    done = 0
    for res in fs.pimap(_job, sh):
        done += 1
        s = per.setdefault(res['stratum'], dict(evaluations=0, compiler_runs=0, expected_reject=0, ambiguous=0, agree_with_R=0,
                                                 differ_from_R=0, shards=0))
        s['shards'] += 1
        s['evaluations'] += res['evaluations']
        s['compiler_runs'] += res['runs']
        s['expected_reject'] += res['expected_reject']
        s['ambiguous'] += res['ambiguous']
        s['agree_with_R'] += res['agree']
        s['differ_from_R'] += res['mismatch']
        for k in tot:
            tot[k] += res.get(k, 0)
        trace |= res['trace']
        distinct |= res['distinct']
        for n_ in res['notes']:
            if len(chk.notes) < 30:
                chk.notes.append(n_)
        if res['samples'] and sum(1 for x in samples if x['stratum'] == res['stratum']) < 2:
            samples += res['samples']
        if res['amb_samples'] and len(amb_samples) < 12 and sum(1 for x in amb_samples if x['why'] == res['amb_samples'][0]['why']) < 2:
            amb_samples.append(res['amb_samples'][0])
        for x in res['rw_samples']:
            if len(rw_samples) < 12:
                rw_samples.append(x)
        for key, v in res['viol'].items():
            if key not in viol or (len(v['src']), v['src']) < (len(viol[key]['src']), viol[key]['src']):
                c = viol.get(key, {}).get('count', 0)
                viol[key] = dict(v)
                viol[key]['count'] = c + v['count']
            else:
                viol[key]['count'] += v['count']
        if done % 500 == 0:
            chk.log('%d/%d shards, %d cases, %d differ from litref, %d ambiguous' % (done, len(sh), tot['evaluations'], tot['mismatch'], tot['ambiguous']))
        if chk.expired():
            chk.log('deadline: %d of %d shards done' % (done, len(sh)))
            break
    srv = fs.server('fs')
    for key, v in sorted(viol.items()):
        # replay before report: the minimal case of the family once more, alone, in a fresh process
        r = srv.compile(v['src'], target=v['target'], cpu_s=10)
        got = r.out + b'status=%d\n' % (r.status if r.status < 1000 else 128 + r.status - 1000)
        cmd = ('$CPROC_QBE -t %s input.c > now 2> err; echo "status=$?" >> now; cat now err; echo "--- $(cat expected)"\n'
               'cmp -s now got && exit 1   # same observation as recorded: reproduces\nexit 0' % v['target'])
        for _ in range(v['count']):
            chk.violation(key, v['what'], files={'input.c': v['src'], 'got': got, 'expected': v['what'].split('; cproc: ')[0] + '\n'}, cmd=cmd)
    chk.strata = per
    states = {(p, st) for p, st, _ in trace}
    cov = {
        'states': len(states),
        'transitions': len(trace),
        'traces_validated_against_impl': tot['evaluations'],
        'evaluations': tot['evaluations'],
        'compiler_runs': tot['runs'],
        'distinct_nontrivial': len(distinct),
        'expected_reject': tot['expected_reject'],
        'ambiguous': tot['ambiguous'],
        'ambiguous_R_vs_witness': tot['rw_disagree'],
        'agree_with_R': tot['agree'],
        'differ_from_R': tot['mismatch'],
        'witness_invocations': tot['witness_calls'],
        'witness_sanity_observations': nsan,
        'shards_done': done,
        'shards_total': len(sh),
        'samples': samples + [dict(x, ambiguous=True) for x in rw_samples + amb_samples],
        'violation_cases_by_family': {k: v['count'] for k, v in sorted(viol.items())},
        'rule': 'every case of strata L1..L7 (all bytes; all simple escapes; all octal escapes x followers; hex escapes; UTF-8 byte '
                'sequences at every encoding boundary; prefix mixtures; char-valued constants) x 5 prefixes x 3 targets is compiled; '
                'state = (prefix, state of the litref decoding automaton), transition = (state, byte class), both counted from the '
                'reference runs; distinct_nontrivial = distinct observations (status, width, code units / value, type) of the compiler',
    }
    return chk.finish(cov, [
        'trigraphs are not generated (cproc documents them as unsupported; C13 excludes them)',
        'u8 character constants (C23 N2418, documented in doc/c23.md) have gcc -std=c2x as their only witness on every target: '
        'clang 14 does not implement them in C and their value does not depend on the target',
        'a type-only mismatch is confirmed by the witnesses once per (kind, prefix, target, observed type) per worker: '
        'neither R nor the witnesses make the type of a literal depend on its contents',
        'the witnesses read a batch of cases as one unit (one case per line group, separator declarations in between); the first '
        'case of every violation family in a shard is re-confirmed in a unit of its own',
        'on aarch64 and riscv64 clang --target is the only witness (no gcc cross compiler installed)',
    ])
