"""C11 — diagnostics name the file and line of the offending construct.

K3, bounded-exhaustive: every sequence (up to a length bound) over 13 line kinds — code, blank, the two
GNU line-marker forms, the two #line forms, spliced code, two-line block comment, // comment, three-line
macro invocation, #define with a spliced body, #pragma, a line that starts with a splice — followed by one
catalogue violation whose reporting token stands on a known physical line (4 base templates, and the
same violations placed INSIDE each multi-line construct), followed by a tail declaration.

Observation: first line of cproc's stderr parsed as `file:line:col: error:`.
Oracle: vlib/locref.py (presumed location of the physical line carrying the reporting token) AND
gcc/clang -fsyntax-only (presumed file:line of their first error). Two-witness rule: reported only when
cproc differs from locref and both witnesses agree with locref; otherwise ambiguous (counted, sampled).
The column is only required to lie in [1, length of the line + 1].
"""
import itertools
import re
import subprocess

from .. import fs, locref, witness

LEVEL = 'model_checking'

KINDS = ('code', 'blank', 'mark', 'markflag', 'line', 'linefile', 'spliced', 'comment2', 'linecomment', 'invoc3',
         'define2', 'pragma', 'splicefirst', 'linecomment2', 'stringsplice', 'dotsplice', 'multisplice', 'definesplices')
DIRECTIVES = ('mark', 'markflag', 'line', 'linefile')
NS = (10, 1, 2147483647)
FS = ('a%s.c', 'b%s.h')
PRELUDE = b'#define M(a,b,c) a b c\n#define Q(x) #x'
WBATCH = 40
REASK = 4
WTIMEOUT = 120

# violation templates: (name, physical lines with %d = uid, index of the line carrying the reporting token, group)
TEMPLATES = (
    ('lex', ("int x%d = '';",), 0, 'base'),
    ('parse', ('int x%d = ;',), 0, 'base'),
    ('sem', ('int x%d = undeclared_id%d;',), 0, 'base'),
    ('dir', ('#bogus',), 0, 'base'),
    ('lex/in-splice', ('int x%d = \\', " '';"), 1, 'inside'),
    ('parse/in-splice', ('int x%d = \\', ' ;'), 1, 'inside'),
    ('sem/in-splice', ('int x%d = \\', ' undeclared_id%d;'), 1, 'inside'),
    ('dir/in-splice', ('# \\', ' bogus'), 1, 'inside'),
    ('lex/after-comment', ('/* c', "c */ int x%d = '';"), 1, 'inside'),
    ('parse/after-comment', ('/* c', 'c */ int x%d = ;'), 1, 'inside'),
    ('sem/after-comment', ('/* c', 'c */ int x%d = undeclared_id%d;'), 1, 'inside'),
    ('dir/after-comment', ('/* c', 'c */ #bogus'), 1, 'inside'),
    ('lex/in-invocation', ('int x%d = M(,', "''", ',);'), 1, 'inside'),
    ('parse/in-invocation', ('int x%d = M(,', ';', ',);'), 1, 'inside'),
    ('sem/in-invocation', ('int x%d = M(1 +,', 'undeclared_id%d', ', + 2);'), 1, 'inside'),
    ('dir/in-define', ('#define E%d(a, \\', ' +) 1'), 1, 'inside'),
    # the reporting token is the string produced by the # operator (its location is that of the invocation)
    ('parse/stringized', ('int Q(x%d);',), 0, 'base'),
    ('parse/stringized-in-invocation', ('int Q(x%d +', 'y', ');'), 2, 'inside'),
    # the reporting token comes from the replacement list of a macro that was defined twice, identically, on different lines: its
    # location is that of the definition in force, the second one (seeded round 10: an identical redefinition kept the first macro)
    ('parse/in-redefined-macro-body', ('#define RB%d(x) x ]', '#define RB%d(x) x ]', 'int v%d = RB%d(1);'), 1, 'base'),
    ('parse/in-redefined-object-macro-body', ('#define RO%d 1 ]', '', '#define RO%d 1 ]', 'int w%d = RO%d;'), 2, 'base'),
    ('parse/in-macro-body', ('#define RC%d(x) x ]', 'int u%d = RC%d(1);'), 0, 'base'),
    ('unterminated-string', ('char *x%d = "abc',), 0, 'eol'),
    ('unterminated-charconst', ("int x%d = 'a",), 0, 'eol'),
)
# In the in-splice templates the reporting token is preceded by a space on the continuation line: a token that
# begins DIRECTLY after a backslash-newline is located by clang at the backslash (previous physical line), by
# gcc and locref at its first character; with the space all three agree, so the case stays decidable.
TINDEX = {t[0]: t for t in TEMPLATES}


def kind_lines(kind, pos, n, f, uid):
    """(physical lines, labels) of one line kind at sequence position pos."""
    pos = '%d_%d' % (pos, uid)       # names carry the program number: programs share a unit in witness batches
    if kind == 'code':
        return ['int a%s;' % pos], ['code']
    if kind == 'blank':
        return [''], ['blank']
    if kind == 'mark':
        return ['# %d "%s"' % (n, f)], ['mark']
    if kind == 'markflag':
        return ['# %d "%s" 1' % (n, f)], ['markflag']
    if kind == 'line':
        return ['#line %d' % n], ['line']
    if kind == 'linefile':
        return ['#line %d "%s"' % (n, f)], ['linefile']
    if kind == 'spliced':
        return ['int a%s \\' % pos, ';'], ['splice-open', 'splice-cont']
    if kind == 'comment2':
        return ['/* c', 'c */ int a%s;' % pos], ['comment-open', 'comment-close-code']
    if kind == 'linecomment':
        return ['// c'], ['linecomment']
    if kind == 'invoc3':
        return ['int a%s = M(1,' % pos, '+ 2,', '+ 3);'], ['invoc-open', 'invoc-mid', 'invoc-close']
    if kind == 'define2':
        return ['#define D%s 1 \\' % pos, '+ 2'], ['define-open', 'define-cont']
    if kind == 'pragma':
        return ['#pragma x'], ['pragma']
    if kind == 'linecomment2':      # a // comment continued by a backslash-newline: the second physical line belongs to the comment
        return ['int a%s; // c \\' % pos, 'still the comment'], ['linecomment-open', 'linecomment-cont']
    if kind == 'stringsplice':      # a string literal continued by a backslash-newline
        return ['char *a%s = "x\\' % pos, 'y";'], ['string-open', 'string-cont']
    if kind == 'dotsplice':         # the scanner's look-ahead behind '..' crosses a backslash-newline
        return ['char *a%s = Q(..\\' % pos, ');'], ['dots-open', 'dots-cont']
    if kind == 'multisplice':       # several backslash-newline pairs directly after one another (lines holding only a backslash)
        return ['int a%s \\' % pos, '\\', '\\', ';'], ['splice-open', 'splice-only', 'splice-only', 'splice-cont']
    if kind == 'definesplices':     # a definition continued over lines, two of them empty but for the backslash
        return ['#define D%s 1 \\' % pos, '\\', '\\', '+ 2'], ['define-open', 'splice-only', 'splice-only', 'define-cont']
    if kind == 'splicefirst':
        return ['\\', 'int a%s;' % pos], ['splice-first', 'splice-cont']
    raise ValueError(kind)


def build(seq, rot, tname, uid=0, tag=''):
    """Program text for the sequence of kinds `seq`, parameter rotation `rot`, violation template `tname`.
    Returns (text bytes, index of the physical line carrying the reporting token, labels per physical line).
    `tag` is inserted into the file names (used to tell programs apart in a witness batch)."""
    lines = PRELUDE.decode().split('\n')
    labels = ['prelude'] * len(lines)
    j = 0
    for pos, k in enumerate(seq):
        n = f = None
        if k in DIRECTIVES:
            n = NS[(rot + j) % 3]
            f = FS[(rot + j) % 2] % tag
            j += 1
        l, lab = kind_lines(k, pos, n, f, uid)
        lines += l
        labels += lab
    t = TINDEX[tname]
    at = len(lines) + t[2]
    for x in t[1]:
        lines.append(x.replace('%d', str(uid)))
        labels.append('violation:' + tname)
    lines.append('int tail%d;' % uid)
    labels.append('tail')
    return ('\n'.join(lines) + '\n').encode(), at, labels


_diag = re.compile(rb'^(.*?):(\d+):(\d+): error: ')
_assert_re = re.compile(rb'(\w+\.c):\d+: (\w+): Assertion')


def observe(srv, text):
    r = srv.compile(text, cpu_s=5)
    if r.status == 1:
        m = _diag.match(r.err)
        if not m:
            return ('format', r.err[:120].decode('latin-1'))
        return ('diag', m.group(1).decode('latin-1'), int(m.group(2)), int(m.group(3)))
    if r.status == 0:
        return ('accepted',)
    m = _assert_re.search(r.err)
    return ('crash', r.status, 'assert-' + m.group(2).decode() if m else ('signal-%d' % (r.status - 1000) if r.status >= 1000 else 'status-%d' % r.status))


def lost_newlines(text, lines, recs, at):
    """The known wrong reading: after a line directive, the new-lines consumed while fetching the look-ahead
    character of the next line (a blank line; backslash-newline splices at the very start of the line) are
    forgotten when the directive's location is installed. Returns how many lines too low the token at
    physical line `at` would then be reported, or 0."""
    base = recs[at].base
    if base < 0:
        return 0
    k = base + 1
    lost = 0
    while k < len(lines) and lines[k] == b'\\':
        lost += 1
        k += 1
    if k < len(lines) and lines[k] == b'' and k < at + 1:
        lost += 1
    # only new-lines BEFORE the reporting token's line count
    return min(lost, at - base - 1) if at > base else 0


# ---------------------------------------------------------------------------
# witnesses: many programs per unit; each program is introduced by `#line 1 "P<k>"` and uses file names and
# identifiers carrying its number, so every error line names the program it belongs to

_werr = re.compile(r'^(.+?):(\d+):(?:\d+:)? (?:fatal )?error', re.M)
_wnote = re.compile(r'^(.+?):(\d+):(?:\d+:)? note: expanded from macro')


def w_cmd(tool):
    if tool == 'gcc':
        return ['gcc', '-std=c11', '-fsyntax-only', '-fno-diagnostics-show-caret', '-fmax-errors=0', '-x', 'c', '-']
    return ['clang', '-std=c11', '-fsyntax-only', '-fno-caret-diagnostics', '-ferror-limit=0', '-x', 'c', '-']


def w_run(tool, src):
    p = subprocess.run(w_cmd(tool), input=src, stdout=subprocess.PIPE, stderr=subprocess.PIPE, timeout=WTIMEOUT)
    return p.stderr.decode('latin-1')


def w_batch(tool, progs):
    """progs: [(seq, rot, tname)] -> [(file, line) | None] of the first error each program provokes."""
    parts = []
    for k, (seq, rot, tname) in enumerate(progs):
        text, _, _ = build(seq, rot, tname, uid=k + 1, tag='_%d' % (k + 1))
        parts.append(b'#line 1 "P_%d"\n' % (k + 1) + text)
    err = w_run(tool, b''.join(parts))
    first = {}
    spelled = {k + 1 for k, p in enumerate(progs) if 'macro-body' in p[2]}
    pend = None
    for line in err.split('\n'):
        m = _werr.match(line)
        n = _wnote.match(line) if pend else None
        if n:
            # clang puts a token that comes from a replacement list at the point of expansion and names its spelling location in a
            # note; gcc and cproc report the spelling location itself: for the macro-body templates the note is clang's answer
            f, l = n.group(1), int(n.group(2))
            mm = re.search(r'_(\d+)(?:\.[ch])?$', f)
            if mm and int(mm.group(1)) == pend:
                first[pend] = ('<stdin>' if f.startswith('P_') else f.replace('_%d' % pend, ''), l)
            pend = None
            continue
        pend = None
        if not m:
            continue
        f, l = m.group(1), int(m.group(2))
        mm = re.search(r'_(\d+)(?:\.[ch])?$', f)
        if not mm:
            continue
        k = int(mm.group(1))
        if k not in first:
            canon = '<stdin>' if f.startswith('P_') else f.replace('_%d' % k, '')
            first[k] = (canon, l)
            if k in spelled and tool == 'clang':
                pend = k
    return [first.get(k + 1) for k in range(len(progs))]


def w_single(tool, prog):
    text, _, _ = build(*prog)
    err = w_run(tool, text)
    m = _werr.search(err)
    if m and tool == 'clang' and 'macro-body' in prog[2]:
        n = _wnote.match(err[m.end():].split('\n', 1)[1] if '\n' in err[m.end():] else '')
        if n:
            return (n.group(1), int(n.group(2)))
    return (m.group(1), int(m.group(2))) if m else None


# ---------------------------------------------------------------------------

def sequences(prefix, maxlen):
    yield prefix
    if len(prefix) >= maxlen:
        return
    for k in KINDS:
        yield from sequences(prefix + (k,), maxlen)


def family(tname, exp, obs, lost, nextrec):
    if obs[0] == 'crash':
        return 'crash/' + obs[2]
    if obs[0] == 'accepted':
        return 'not-diagnosed/' + tname.split('/')[0]
    if obs[0] == 'format':
        return 'diagnostic-format/' + tname.split('/')[0]
    _, f, l, c = obs
    group = TINDEX[tname][3]
    if group == 'eol' and nextrec is not None and c == 0 and f == nextrec.file and l in (nextrec.line, nextrec.line - lost):
        return 'end-of-line-lexical-error-reported-at-col-0-of-following-line'
    if f == exp[0] and lost and l == exp[1] - lost:
        return 'line-after-directive-blank-or-splice/following-lines-numbered-too-low'
    # line bookkeeping does not depend on WHICH violation is diagnosed, only on where its token stands
    where = tname.split('/')[1] if '/' in tname else ('end-of-line' if group == 'eol' else 'own-line')
    if f != exp[0]:
        return 'wrong-file/' + where
    if l != exp[1]:
        return 'wrong-line/%s/delta%+d' % (where, max(-9, min(9, l - exp[1])))
    return 'column-out-of-range/' + where


def _job(shard):
    prefix, maxlen, rots, tnames, fullrot = shard
    wcap = None
    srv = fs.server('fs')
    res = {'evaluations': 0, 'agree': 0, 'mismatch': 0, 'ambiguous': 0, 'states': set(), 'transitions': set(), 'distinct': set(),
           'nontrivial': 0, 'viol': {}, 'amb_samples': [], 'samples': [], 'per_template': {}, 'witness_calls': 0, 'notes': [],
           'unverified': 0}
    pending = []
    for seq in sequences(prefix, maxlen):
        ndir = sum(1 for k in seq if k in DIRECTIVES)
        if not ndir:
            rr = rots[:1]
        elif fullrot is not None and len(seq) > fullrot:
            rr = (sum(KINDS.index(k) for k in seq) % 3,)     # one rotation, a fixed function of the sequence
        else:
            rr = rots
        for rot in rr:
            for tname in tnames:
                text, at, labels = build(seq, rot, tname)
                recs = locref.presumed(text)
                exp = (recs[at].file, recs[at].line)
                for rec, lab in zip(recs, labels):
                    st = (rec.file, min(rec.since, 15), rec.inside or ('invocation' if lab in ('invoc-mid', 'invoc-close') else ''))
                    res['states'].add(st)
                    res['transitions'].add(st + (lab,))
                obs = observe(srv, text)
                res['evaluations'] += 1
                pt = res['per_template'].setdefault(tname, [0, 0])
                pt[0] += 1
                nontrivial = any(k != 'code' for k in seq)
                res['nontrivial'] += nontrivial
                res['distinct'].add(hash((exp, obs)))
                lines = text.split(b'\n')
                ok = obs[0] == 'diag' and (obs[1], obs[2]) == exp and 1 <= obs[3] <= len(lines[at]) + 1
                if not res['samples'] and len(seq) == maxlen and ndir:
                    res['samples'].append({'kinds': list(seq), 'template': tname, 'program': text.decode(), 'expected': '%s:%d' % exp,
                                           'observed': ':'.join(map(str, obs[1:])) if obs[0] == 'diag' else str(obs)})
                if ok:
                    res['agree'] += 1
                    continue
                res['mismatch'] += 1
                pt[1] += 1
                lost = lost_newlines(text, lines, recs, at)
                nextrec = recs[at + 1] if at + 1 < len(recs) else None
                key = family(tname, exp, obs, lost, nextrec)
                pending.append(((seq, rot, tname), exp, obs, key, text))
    # witnesses
    if not pending:
        return res
    verdict = [None] * len(pending)
    crash = [i for i, p in enumerate(pending) if p[2][0] == 'crash']
    for i in crash:
        verdict[i] = 'violation'
    todo = [i for i in range(len(pending)) if verdict[i] is None]
    if wcap is not None and len(todo) > wcap:
        res['unverified'] += len(todo) - wcap
        todo = todo[:wcap]
    try:
        wres = {i: [] for i in todo}
        for tool in ('gcc', 'clang'):
            reasks = 0
            for b in range(0, len(todo), WBATCH):
                grp = todo[b:b + WBATCH]
                out = w_batch(tool, [pending[i][0] for i in grp])
                res['witness_calls'] += 1
                for i, w in zip(grp, out):
                    if w != pending[i][1] and reasks < REASK:
                        # the batch may have blurred it: ask again with the program on its own (a bounded number
                        # of times per shard: a disagreeing witness can only make a case ambiguous, never reported)
                        reasks += 1
                        w = w_single(tool, pending[i][0])
                        res['witness_calls'] += 1
                    wres[i].append((tool, w))
        seen = set()
        for i in todo:
            prog, exp, obs, key, text = pending[i]
            agree = all(w == exp for _, w in wres[i])
            if agree and key not in seen:
                seen.add(key)
                for tool in ('gcc', 'clang'):   # first case of a family in this shard: confirm on the program alone
                    w = w_single(tool, prog)
                    res['witness_calls'] += 1
                    if w != exp:
                        agree = False
                        res['notes'].append('batched and single witness runs differ: %r %s' % (prog, tool))
            verdict[i] = 'violation' if agree else 'ambiguous'
    except (subprocess.TimeoutExpired, OSError) as ex:
        res['notes'].append('witness failure: %r' % (ex,))
    for i, (prog, exp, obs, key, text) in enumerate(pending):
        if verdict[i] == 'violation':
            v = res['viol'].get(key)
            got = ':'.join(map(str, obs[1:])) if obs[0] == 'diag' else str(obs)
            if v is None or (len(text), text) < (len(v['text']), v['text']):
                n = v['count'] if v else 0
                ws = '; '.join('%s %s' % (t, '%s:%d' % w if w else 'no error') for t, w in wres.get(i, [])) if obs[0] != 'crash' else 'not consulted (crash)'
                v = res['viol'][key] = {'count': n, 'text': text,
                                        'what': 'kinds %s + %s: token on presumed %s:%d, cproc reports %s; witnesses: %s' % (
                                            ' '.join(prog[0]) or '(none)', prog[2], exp[0], exp[1], got, ws)}
            v['count'] += 1
        elif verdict[i] == 'ambiguous':
            res['ambiguous'] += 1
            if len(res['amb_samples']) < 3:
                res['amb_samples'].append({'program': text.decode('latin-1'), 'locref': '%s:%d' % exp, 'cproc': str(obs),
                                           'witnesses': [(t, '%s:%d' % w if w else None) for t, w in wres[i]], 'ambiguous': True})
    return res


def shards(chk):
    quick = chk.quick
    rots = (0, 1, 2)
    base = tuple(t[0] for t in TEMPLATES if t[3] == 'base')
    inside = tuple(t[0] for t in TEMPLATES if t[3] == 'inside')
    eol = tuple(t[0] for t in TEMPLATES if t[3] == 'eol')
    out = []
    if quick:
        out.append(('seq', (), 1, rots, base + inside + eol, None))
        for k in KINDS:
            for k2 in KINDS:
                out.append(('seq', (k, k2), 3, rots, base + inside, None))
                out.append(('eol', (k, k2), 2, rots, eol, None))
    else:
        out.append(('seq', (), 1, rots, base + inside + eol, None))
        for k in KINDS:
            for k2 in KINDS:
                for k3 in KINDS:
                    out.append(('seq', (k, k2, k3), 5, rots, base, 4))
                out.append(('seq', (k, k2), 2, rots, base + inside + eol, None))
                for k3 in KINDS:
                    out.append(('inside', (k, k2, k3), 4, rots, inside, None))
                    out.append(('eol', (k, k2, k3), 3, rots, eol, None))
    out.sort(key=lambda s: (s[2], s[0] != 'inside'))      # short bounds first, so that a deadline cuts only the longest sequences
    return [s for s in out if chk.want(s[0])]


def _run(shard):
    r = _job(shard[1:])
    r['stratum'] = shard[0]
    return r


def sanity():
    """The witness plumbing must reproduce locref on uncontroversial programs, batched and alone."""
    progs = [((), 0, 'parse'), (('mark', 'code'), 0, 'sem'), (('linefile', 'spliced', 'comment2'), 1, 'dir'),
             (('markflag', 'invoc3', 'line', 'code'), 2, 'lex'), (('define2', 'pragma', 'linecomment'), 0, 'parse/in-splice'),
             (('mark',), 0, 'sem/in-invocation'), (('line', 'code'), 1, 'unterminated-string')]
    exp = []
    for p in progs:
        text, at, _ = build(*p)
        recs = locref.presumed(text)
        exp.append((recs[at].file, recs[at].line))
    n = 0
    for tool in ('gcc', 'clang'):
        got = w_batch(tool, progs)
        one = [w_single(tool, p) for p in progs]
        for p, e, g, o in zip(progs, exp, got, one):
            n += 2
            if g != e or o != e:
                raise RuntimeError('witness sanity failed: %s on %r: locref %r, batched %r, alone %r' % (tool, p, e, g, o))
    return n


OPERAND_OK = ('7', '07', '010', '0010', '08', '099', '00000000012', '2147483647', '0000002147483647', '1', '100', '0100')
OPERAND_BAD = ('0x10', '1.5', '1e3', '10u', '1_0', '0b1', '1l', '08.', '.5', '1e+1')
OPERAND_FORMS = (('#line %s', None), ('#line %s "f.c"', 'f.c'), ('# %s "f.c"', 'f.c'), ('# %s "f.c" 1', 'f.c'), ('#line %s "g.h" ', 'g.h'), ('# %s "g.h" 2 3 4', 'g.h'))


def _first_diag(err):
    m = _diag.match(err)
    return (m.group(1).decode('latin-1'), int(m.group(2))) if m else None


def operand_stratum(chk, srv):
    """The operand of #line and of line markers is a digit sequence read in decimal (6.10.4p3): every spelling x every directive form x
    0..2 code lines before the reporting token; a spelling that is not a digit sequence must be rejected at the #line directive itself."""
    n = bad = 0
    for form, fname in OPERAND_FORMS:
        for sp in OPERAND_OK:
            for k in range(3):
                text = ('int pre;\n' + form % sp + '\n' + 'int c;\n' * k + 'int x = ;\n').encode()
                exp = (fname or '<stdin>', int(sp, 10) + k)
                r = srv.compile(text, cpu_s=5)
                n += 1
                got = _first_diag(r.err) if r.status == 1 else ('status', r.status)
                if got != exp:
                    w = subprocess.run(['gcc', '-fsyntax-only', '-xc', '-'], input=text, stdout=subprocess.PIPE, stderr=subprocess.PIPE, timeout=60)
                    wm = re.search(rb'^(.*?):(\d+):\d+: error: ', w.stderr, re.M)
                    wgot = (wm.group(1).decode('latin-1'), int(wm.group(2))) if wm else None
                    if wgot == exp:
                        bad += 1
                        chk.violation('line-number-operand/not-read-as-decimal-digit-sequence', 'after %r the token %d lines later is at %s:%d, cproc reports %r' % (form % sp, k + 1, exp[0], exp[1], got),
                                      files={'input.c': text}, cmd='$CPROC_QBE < input.c 2>&1 >/dev/null | head -n 1')
        if form.startswith('#line'):
            for sp in OPERAND_BAD:
                text = ('int pre;\n' + form % sp + '\nint c;\n').encode()
                r = srv.compile(text, cpu_s=5)
                n += 1
                got = _first_diag(r.err) if r.status == 1 else ('status', r.status)
                if got != ('<stdin>', 2):
                    w = subprocess.run(['gcc', '-fsyntax-only', '-pedantic-errors', '-xc', '-'], input=text, stdout=subprocess.PIPE, stderr=subprocess.PIPE, timeout=60)
                    if w.returncode != 0 and re.search(rb'^<stdin>:2:\d+: error: ', w.stderr, re.M):
                        bad += 1
                        chk.violation('line-number-operand/non-digit-sequence-accepted', '%r must be rejected at <stdin>:2 (not a digit sequence), cproc: %r' % (form % sp, got),
                                      files={'input.c': text}, cmd='$CPROC_QBE < input.c; test $? = 1')
    # the file name operand is a character string literal: its VALUE names the file (escape sequences decoded); two witnesses
    names = (('plain.c', 'plain.c'), ('with space.c', 'with space.c'), ('dir/sub/x.h', 'dir/sub/x.h'), ('a\\\\b.c', 'a\\b.c'), ('q\\"q.c', 'q"q.c'), ('', ''),
             ('x.c\\\\', 'x.c\\'), ("it's.c", "it's.c"), ('<angle>', '<angle>'), ('caf\u00e9.c'.encode().decode('latin-1'), 'caf\u00e9.c'.encode().decode('latin-1')))
    for form in ('#line 5 "%s"', '# 5 "%s"', '# 5 "%s" 1'):
        for spelled, value in names:
            text = ('int pre;\n' + form % spelled + '\nint x = ;\n').encode('latin-1')
            exp = (value, 5)
            r = srv.compile(text, cpu_s=5)
            n += 1
            got = _first_diag(r.err) if r.status == 1 else ('status', r.status)
            if got != exp:
                ws = []
                for tool in ('gcc', 'clang'):
                    w = subprocess.run([tool, '-fsyntax-only', '-xc', '-'], input=text, stdout=subprocess.PIPE, stderr=subprocess.PIPE, timeout=60)
                    wm = re.search(rb'^(.*?):(\d+):\d+: error: ', w.stderr, re.M)
                    ws.append((wm.group(1).decode('latin-1'), int(wm.group(2))) if wm else None)
                if ws[0] == exp and ws[1] == exp:
                    bad += 1
                    chk.violation('line-file-name/escape-sequences-not-decoded', 'after %r the file name is %r, cproc reports %r' % (form % spelled, value, got),
                                  files={'input.c': text}, cmd='$CPROC_QBE < input.c 2>&1 >/dev/null | head -n 1')
    # two directives in a row: the second file name replaces the first whatever their relation (prefix, extension, equal, empty),
    # and a following #line without a name keeps the second
    pairs = [('config.h.in', 'config.h'), ('config.h', 'config.h.in'), ('parse.y.c', 'parse.y'), ('gen10.c', 'gen1'), ('a', ''), ('', 'a'), ('same.c', 'same.c'),
             ('lib/io.c.inc', 'lib/io.c'), ('x', 'xx'), ('xx', 'x'), ('ab.c', 'abc')]
    for f1, f2 in pairs:
        for form1 in ('#line 3 "%s"', '# 3 "%s" 1'):
            for form2 in ('#line 7 "%s"', '# 7 "%s"', '# 7 "%s" 2'):
                for tail in ('', '#line 20\n'):
                    text = ('int pre;\n' + form1 % f1 + '\nint mid;\n' + form2 % f2 + '\n' + tail + 'int x = ;\n').encode()
                    exp = (f2, 20 if tail else 7)
                    r = srv.compile(text, cpu_s=5)
                    n += 1
                    got = _first_diag(r.err) if r.status == 1 else ('status', r.status)
                    if got != exp:
                        ws = []
                        for tool in ('gcc', 'clang'):
                            w = subprocess.run([tool, '-fsyntax-only', '-xc', '-'], input=text, stdout=subprocess.PIPE, stderr=subprocess.PIPE, timeout=60)
                            wm = re.search(rb'^(.*?):(\d+):\d+: error: ', w.stderr, re.M)
                            ws.append((wm.group(1).decode('latin-1'), int(wm.group(2))) if wm else None)
                        if ws[0] == exp and ws[1] == exp:
                            bad += 1
                            chk.violation('line-file-name/second-name-does-not-replace-the-first', 'after %r and then %r%s the location is %s:%d, cproc reports %r' % (
                                form1 % f1, form2 % f2, ' and #line 20' if tail else '', exp[0], exp[1], got), files={'input.c': text}, cmd='$CPROC_QBE < input.c 2>&1 >/dev/null | head -n 1')
    # sequences of line directives read while the preprocessor looks ahead for the '(' of a function-like macro name that ends its line
    # (the directive is then processed from inside the look-ahead, with another "current token" than usual; seeded round 8): the
    # presumed file of a directive without a name is the file in force, whatever was the current token when the directive was met
    dforms = (('# 10 "a.h" 1', 'a.h', 10), ('#line 20', None, 20), ('#line 30 "b.h"', 'b.h', 30), ('# 40 "c.h"', 'c.h', 40), ('# 50', None, 50))
    ctxs = (('funclike-name-ends-line', '#define F(x) x\nint F\n%s;\n'), ('name-from-macro-body', '#define F(x) x\n#define H F\nint H\n%s;\n'),
            ('object-like-name', '#define O o\nint O\n%s;\n'), ('plain-name', 'int p\n%s;\n'),
            ('funclike-name-after-named-directive', '#define F(x) x\n# 5 "first.h"\nint F\n%s;\n'),
            ('funclike-name-twice', '#define F(x) x\nint F\n#line 70 "mid.h"\n, F\n%s;\n'))
    for cname, ctx in ctxs:
        for k in (1, 2, 3):
            for seq in itertools.product(dforms, repeat=k):
                text = (ctx % ''.join(d[0] + '\n' for d in seq) + 'int x = ;\n').encode()
                fn = 'first.h' if 'first.h' in ctx else 'mid.h' if 'mid.h' in ctx else '<stdin>'
                for d in seq:
                    fn = d[1] or fn
                exp = (fn, seq[-1][2] + 1)
                r = srv.compile(text, cpu_s=5)
                n += 1
                got = _first_diag(r.err) if r.status == 1 else ('status', r.status)
                if got != exp:
                    ws = []
                    for tool in ('gcc', 'clang'):
                        w = subprocess.run([tool, '-fsyntax-only', '-xc', '-'], input=text, stdout=subprocess.PIPE, stderr=subprocess.PIPE, timeout=60)
                        wm = re.search(rb'^(.*?):(\d+):\d+: error: ', w.stderr, re.M)
                        ws.append((wm.group(1).decode('latin-1'), int(wm.group(2))) if wm else None)
                    if ws[0] == exp and ws[1] == exp:
                        bad += 1
                        chk.violation('line-directives-in-lookahead/' + cname, 'after %s in context %s the next line is at %s:%d, cproc reports %r' % (
                            ' / '.join(d[0] for d in seq), cname, exp[0], exp[1], got), files={'input.c': text}, cmd='$CPROC_QBE < input.c 2>&1 >/dev/null | head -n 1')
    return n, bad


def main(chk):
    nsan = sanity()
    chk.log('witness sanity: %d observations agree with locref' % nsan)
    sh = shards(chk)
    chk.log('%d shards' % len(sh))
    tot = dict(evaluations=0, agree=0, mismatch=0, ambiguous=0, nontrivial=0, witness_calls=0, unverified=0)
    states, transitions, distinct = set(), set(), set()
    per, per_t = {}, {}
    viol = {}
    samples, amb = [], []
    done = 0
    for res in fs.pimap(_run, sh):
        done += 1
        s = per.setdefault(res['stratum'], dict(evaluations=0, agree_with_locref=0, differ_from_locref=0, ambiguous=0, shards=0))
        s['shards'] += 1
        s['evaluations'] += res['evaluations']
        s['agree_with_locref'] += res['agree']
        s['differ_from_locref'] += res['mismatch']
        s['ambiguous'] += res['ambiguous']
        for k in tot:
            tot[k] += res[k]
        for t, (a, b) in res['per_template'].items():
            x = per_t.setdefault(t, [0, 0])
            x[0] += a
            x[1] += b
        states |= res['states']
        transitions |= res['transitions']
        distinct |= res['distinct']
        if res['samples'] and len(samples) < 5:
            samples += res['samples']
        if res['amb_samples'] and len(amb) < 8:
            amb += res['amb_samples'][:2]
        for n_ in res['notes']:
            if len(chk.notes) < 30:
                chk.notes.append(n_)
        for key, v in res['viol'].items():
            o = viol.get(key)
            if o is None or (len(v['text']), v['text']) < (len(o['text']), o['text']):
                c = o['count'] if o else 0
                viol[key] = dict(v)
                viol[key]['count'] = c + v['count']
            else:
                o['count'] += v['count']
        if done % 200 == 0:
            chk.log('%d/%d shards, %d programs, %d differ from locref, %d ambiguous' % (done, len(sh), tot['evaluations'], tot['mismatch'], tot['ambiguous']))
        if chk.expired():
            chk.log('deadline: %d of %d shards done' % (done, len(sh)))
            break
    srv = fs.server('fs')
    for key, v in sorted(viol.items()):
        # replay before report: the minimal program of the family once more, alone, in a fresh process
        r = srv.compile(v['text'], cpu_s=10)
        got = r.err.split(b'\n')[0] + b'\n'
        cmd = ('$CPROC_QBE < input.c 2>&1 >/dev/null | head -n 1 > now; cat now; echo "--- $(cat expected)"\n'
               'cmp -s now got && exit 1   # same diagnostic as recorded: reproduces\nexit 0')
        for _ in range(v['count']):
            chk.violation(key, v['what'], files={'input.c': v['text'], 'got': got, 'expected': v['what'].split(', cproc reports')[0] + '\n'}, cmd=cmd)
    nop, badop = operand_stratum(chk, srv)
    per['line-number-operand'] = dict(evaluations=nop, agree_with_locref=nop - badop, differ_from_locref=badop, ambiguous=0, shards=1)
    tot['evaluations'] += nop
    chk.strata = per
    cov = {
        'states': len(states),
        'transitions': len(transitions),
        'traces_validated_against_impl': tot['evaluations'],
        'evaluations': tot['evaluations'],
        'distinct_nontrivial': len(distinct),
        'programs_with_non_code_lines': tot['nontrivial'],
        'agree_with_locref': tot['agree'],
        'differ_from_locref': tot['mismatch'],
        'ambiguous': tot['ambiguous'],
        'expected_reject': tot['evaluations'],
        'witness_invocations': tot['witness_calls'],
        'witness_sanity_observations': nsan,
        'mismatches_not_shown_to_witnesses': tot['unverified'],
        'line_kinds': len(KINDS),
        'templates': {t: {'programs': a, 'differ_from_locref': b} for t, (a, b) in sorted(per_t.items())},
        'violation_cases_by_family': {k: v['count'] for k, v in sorted(viol.items())},
        'shards_done': done,
        'shards_total': len(sh),
        'samples': samples + amb,
        'rule': 'every sequence of line kinds up to the length bound x parameter rotation (n in 10, 1, 2147483647; two file names) x '
                'violation template is compiled; every program must be rejected (expected_reject = evaluations) with the presumed '
                'file:line of the reporting token; state = (presumed file, physical lines since the last line directive, '
                'inside-construct flag) before a physical line, transition = (state, kind of that physical line), counted from the '
                'locref runs; distinct_nontrivial = distinct (expected location, observed diagnostic) pairs',
    }
    return chk.finish(cov, [
        'the reporting token of each template is on the stated physical line by construction (checked against gcc and clang in '
        'the sanity batch and on every mismatch)',
        'witness programs are batched: each is introduced by #line 1 "P_<k>" and uses file names and identifiers that carry k; '
        'presumed-location semantics are invariant under this renaming; a batched answer that differs from locref is asked again '
        'with the unrenamed program alone, and the first case of every violation family in a shard is confirmed alone',
        'the column is only required to be within [1, length of the line + 1]',
        'a 13th line kind (a line that begins with a backslash-newline splice) was added to the 12 of the design so that the '
        'splice form of the known look-ahead defect is inside the alphabet',
    ])
