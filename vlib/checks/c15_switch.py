"""Compiler-level half of C15: every distinct reachable case-tree state replayed as a C switch whose labels
appear in the state's insertion order, for several key maps and controlling types, executed through
il2c and compared with gcc and clang on the same source; statement-level templates; duplicate rejection."""
import os
import shutil
import subprocess

from .. import fs, ilexec

# rank -> key, increasing in the unsigned 64-bit order of the sign-extended constant (the order tree.c uses)
MAPS = [
    ('int', 'int', ['0', '1', '5', '2147483647', '(-2147483647-1)', '-1', '-77', '100']),
    ('unsigned', 'unsigned', ['0u', '1u', '2147483647u', '2147483648u', '4294967294u', '4294967295u', '7u', '9u']),
    ('long', 'long', ['0L', '5L', '2147483647L', '2147483648L', '(-9223372036854775807L-1)', '-1L', '-2147483649L', '4294967296L']),
    ('ulong', 'unsigned long', ['0UL', '1UL', '4294967295UL', '4294967296UL', '9223372036854775808UL', '18446744073709551615UL', '9223372036854775807UL', '3UL']),
    ('schar', 'signed char', ['0', '1', '5', '127', '-128', '-1', '64', '-64']),
    ('short', 'short', ['0', '1', '5', '32767', '-32768', '-1', '256', '-256']),
    ('uchar', 'unsigned char', ['0', '1', '127', '128', '254', '255', '7', '200']),
]
PROBES = {
    'int': ['0', '1', '2', '4', '5', '6', '2147483646', '2147483647', '(-2147483647-1)', '-2147483647', '-2', '-1', '-77', '-76', '-78', '100', '99', '101'],
    'unsigned': ['0u', '1u', '2u', '2147483646u', '2147483647u', '2147483648u', '2147483649u', '4294967293u', '4294967294u', '4294967295u', '6u', '7u', '8u', '9u', '10u'],
    'long': ['0L', '1L', '4L', '5L', '6L', '2147483646L', '2147483647L', '2147483648L', '2147483649L', '(-9223372036854775807L-1)', '-9223372036854775807L',
             '-2L', '-1L', '-2147483649L', '-2147483648L', '-2147483650L', '4294967296L', '4294967295L', '4294967297L', '9223372036854775807L'],
    'unsigned long': ['0UL', '1UL', '2UL', '4294967294UL', '4294967295UL', '4294967296UL', '4294967297UL', '9223372036854775807UL', '9223372036854775808UL',
                      '9223372036854775809UL', '18446744073709551614UL', '18446744073709551615UL', '3UL', '4UL'],
    'signed char': ['0', '1', '2', '4', '5', '6', '126', '127', '-128', '-127', '-2', '-1', '63', '64', '65', '-63', '-64', '-65'],
    'short': ['0', '1', '2', '4', '5', '6', '32766', '32767', '-32768', '-32767', '-2', '-1', '255', '256', '257', '-255', '-256', '-257'],
    'unsigned char': ['0', '1', '2', '126', '127', '128', '129', '253', '254', '255', '6', '7', '8', '199', '200', '201'],
}


def gen_unit(states, mapping, unit_id):
    """One C program: a switch function per (state, variant) and a main walking the probe table."""
    tag, ctype, keys = mapping
    fns = []
    src = ['int printf(const char *, ...);\n']
    for si, hist in enumerate(states):
        labels = [keys[r] for r in hist]
        n = len(labels)
        # variant a: return per case, default last
        body = ''.join(' case %s: return %d;' % (l, i + 1) for i, l in enumerate(labels))
        src.append('static int a%d(%s v) { switch (v) {%s default: return 99; } }\n' % (si, ctype, body))
        # variant b: no default, break
        body = ''.join(' case %s: r = %d; break;' % (l, i + 1) for i, l in enumerate(labels))
        src.append('static int b%d(%s v) { int r = 0; switch (v) {%s } return r; }\n' % (si, ctype, body))
        # variant c: fall through, default in the middle
        parts = [' case %s: r = r * 7 + %d;' % (l, i + 1) for i, l in enumerate(labels)]
        parts.insert(n // 2, ' default: r = r * 7 + 50;')
        src.append('static int c%d(%s v) { int r = 1; switch (v) {%s } return r; }\n' % (si, ctype, ''.join(parts)))
        fns += ['a%d' % si, 'b%d' % si, 'c%d' % si]
    probes = PROBES[ctype]
    src.append('static %s probes[] = { %s };\n' % (ctype, ', '.join(probes)))
    src.append('static int (*fns[])(%s) = { %s };\n' % (ctype, ', '.join(fns)))
    src.append('int main(void) { unsigned long h = 0; for (int f = 0; f < %d; ++f) { for (int p = 0; p < %d; ++p) { int r = fns[f](probes[p]); '
               'printf("%%d ", r); } printf("\\n"); } return 0; }\n' % (len(fns), len(probes)))
    return ''.join(src), len(fns), len(probes)


TEMPLATES = r'''
int printf(const char *, ...);
static int loopsw(int n) { int r = 0; for (int i = 0; i < n; ++i) { switch (i & 3) { case 0: continue; case 1: r += 1; break; case 2: r += 10; default: r += 100; } r += 1000; } return r; }
static int nested(int a, int b) { int r = 0; switch (a) { case 1: switch (b) { case 1: r = 11; break; case 2: r = 12; break; default: r = 19; } r += 100; break; case 2: r = 2; break; default: r = 9; } return r; }
static int nest2(int a, int b) { int r = 0; switch (a) { case 5: r = 50; break; case 1: switch (b) { case 5: r = 15; break; case 7: r = 17; break; } break; case 7: r = 70; break; default: r = 90; break; case 9: switch (b) { default: r = 99; break; case 1: r = 91; } r += 1000; } return r; }
static int nest3(long long a, int b) { int r = 0; switch (a) { case 4294967297LL: r = 1; break; case 1: r = 2; switch (b) { case 1: r += 10; break; case 2: r += 20; } break; case 2: for (int i = 0; i < 2; ++i) switch (b + i) { case 2: r += 100; break; default: r += 1; } break; default: r = 7; } return r; }
static int nest4(int a, int b, int c) { switch (a) { default: return -1; case 0: switch (b) { case 0: switch (c) { case 0: return 0; case 1: return 1; } return 2; case 1: return 3; } return 4; case 1: return 5; } }
static int duff(int n) { int r = 0, i = (n + 3) / 4; if (n <= 0) return 0; switch (n % 4) { case 0: do { r += 1; case 3: r += 1; case 2: r += 1; case 1: r += 1; } while (--i > 0); } return r; }
static int nocase(int v) { switch (v) { } return 7; }
static int onlydef(int v) { switch (v) { default: return 5; } return 6; }
static int blocklabel(int v) { int r = 0; switch (v) { { case 3: r = 3; break; } { int q = 4; case 4: r = 40; break; } default: r = 9; } return r; }
static int charctl(char c) { switch (c) { case 0: return 1; case 256 + 1: return 2; case 1: return 3; } return 0; }
static int folded(int v) { enum { K = 5 }; switch (v) { case 1 + 1: return 2; case K * 2: return 10; case sizeof(int): return 4; case (char)300: return 44; } return 0; }
static int longctl(long long v) { switch (v) { case 4294967296LL: return 1; case 0: return 2; case -4294967296LL: return 3; case 1LL << 62: return 4; } return 0; }
static int u8ctl(unsigned long v) { switch (v) { case 0xffffffffffffffffUL: return 1; case 0x8000000000000000UL: return 2; case 0x7fffffffffffffffUL: return 3; case 0: return 4; } return 0; }
static int bf(int x) { struct { int b : 3; unsigned u : 2; } s; s.b = x; s.u = x; int r = 0; switch (s.b) { case -4: r = 1; break; case -1: r = 2; break; case 3: r = 3; break; case 0: r = 4; break; } switch (s.u) { case 3: r += 10; break; case 0: r += 20; break; } return r; }
int main(void) {
	for (int i = -1; i < 9; ++i) printf("%d %d %d %d %d %d ", loopsw(i), duff(i), nocase(i), onlydef(i), blocklabel(i), folded(i));
	for (int a = 0; a < 4; ++a) for (int b = 0; b < 4; ++b) printf("%d ", nested(a, b));
	for (int a = 0; a < 11; ++a) for (int b = 0; b < 9; ++b) printf("%d ", nest2(a, b));
	for (int a = 0; a < 4; ++a) for (int b = 0; b < 4; ++b) printf("%d %d ", nest3(a, b), nest3(4294967296LL + a, b));
	for (int a = -1; a < 3; ++a) for (int b = -1; b < 3; ++b) for (int c = -1; c < 3; ++c) printf("%d ", nest4(a, b, c));
	for (int c = -2; c < 3; ++c) printf("%d ", charctl((char)c));
	printf("%d %d %d %d %d ", folded(10), folded(4), folded(44), folded(300), folded(5));
	printf("%d %d %d %d %d %d ", longctl(4294967296LL), longctl(0), longctl(-4294967296LL), longctl(1LL << 62), longctl(1), longctl(-1));
	printf("%d %d %d %d %d ", u8ctl(-1UL), u8ctl(1UL << 63), u8ctl((1UL << 63) - 1), u8ctl(0), u8ctl(5));
	for (int x = -5; x < 6; ++x) printf("%d ", bf(x));
	printf("\n");
	return 0;
}
'''


# computed controlling expressions of a type narrower than int (seeded round 8, C15-switch-value-not-promoted): the value a
# cast, an assignment, ++ or a call leaves in a temporary has excess high bits until the integer promotion extends it
_NARROW = [('unsigned char', 'uc', [0, 1, 0x41, 0x80, 255]), ('signed char', 'sc', [0, 1, 0x41, -128, -1]), ('char', 'pc', [0, 1, 0x41, -128, -1]),
           ('short', 'ss', [0, 1, 0x141, -32768, -1, 0x7fff]), ('unsigned short', 'us', [0, 1, 0x141, 0x8000, 0xffff]), ('_Bool', 'bo', [0, 1])]
_NFORMS = [('cast', '', '(%(t)s)x'), ('assign', '%(t)s s;', 's = x'), ('addassign', '%(t)s s = x;', 's += 1'), ('preinc', '%(t)s s = x;', '++s'),
           ('postdec', '%(t)s s = x;', 's--'), ('call', '', 'ret_%(n)s(x)'), ('castderef', 'int b[1]; int *p = b; b[0] = x;', '(%(t)s)*p'),
           ('comma', '%(t)s s;', '(s = x, s)'), ('cond', '%(t)s s = x, q = x;', 'x ? s : q'), ('castlong', 'long l = x; l += 4294967296L;', '(%(t)s)l')]
_NPROBES = [0, 1, 2, 0x41, 0x7f, 0x80, 0xff, 0x100, 0x101, 0x141, 0x180, 0x1ff, 0x7fff, 0x8000, 0xffff, 0x10000, 0x10001, 0x10041, 0x10141, 0x18000, -1, -2, -128, -129, -32768, -32769, 0x7fffffff, -0x7fffffff - 1]


def narrow_unit():
    out, calls = [], []
    for t, n, labels in _NARROW:
        out.append('static %s ret_%s(int x) { return x; }\n' % (t, n))
        for fn, pre, ctl in _NFORMS:
            d = dict(t=t, n=n)
            body = ' '.join('case %d: return %d;' % (v, k + 1) for k, v in enumerate(labels))
            out.append('static int nw_%s_%s(int x) { %s switch (%s) { %s } return 0; }\n' % (n, fn, pre % d, ctl % d, body))
            calls.append('nw_%s_%s' % (n, fn))
    out.append('static int (*const nwf[])(int) = {%s};\nstatic const int nwp[] = {%s};\n' % (', '.join(calls), ', '.join('%d' % v if v != -0x80000000 else '-2147483647 - 1' for v in _NPROBES)))
    main = '\tfor (unsigned f = 0; f < sizeof nwf / sizeof *nwf; ++f) { for (unsigned p = 0; p < sizeof nwp / sizeof *nwp; ++p) printf("%d ", nwf[f](nwp[p])); printf("\\n"); }\n'
    return ''.join(out), main


_nsrc, _nmain = narrow_unit()
TEMPLATES = TEMPLATES.replace('int main(void) {\n', _nsrc + 'int main(void) {\n' + _nmain, 1)

REJECTS = [
    ('dup-case', 'int f(int v) { switch (v) { case 1: return 1; case 1: return 2; } return 0; }'),
    ('dup-case-folded', 'int f(int v) { switch (v) { case 1: return 1; case 3 - 2: return 2; } return 0; }'),
    ('dup-case-after-promotion-conversion', 'int f(int v) { switch (v) { case 4294967297: return 1; case 1: return 2; } return 0; }'),
    ('dup-default', 'int f(int v) { switch (v) { default: return 1; default: return 2; } return 0; }'),
    ('case-outside-switch', 'int f(int v) { case 1: return 1; }'),
    ('default-outside-switch', 'int f(int v) { default: return 1; }'),
    ('dup-case-nested-same-switch', 'int f(int v) { switch (v) { case 2: { case 2: return 1; } } return 0; }'),
]
# case constants are converted to the promoted type of the controlling expression (6.8.4.2p5): for every controlling type, two constants that
# are equal AFTER that conversion are duplicates, two that differ only before it are distinct
_CT = [('int', 32, True), ('unsigned', 32, False), ('long', 64, True), ('unsigned long', 64, False), ('short', 32, True), ('unsigned short', 32, True),
       ('signed char', 32, True), ('unsigned char', 32, True), ('_Bool', 32, True), ('long long', 64, True), ('unsigned long long', 64, False)]
for _t, _w, _sg in _CT:
    _n = _t.replace(' ', '-')
    if _w == 32:
        _pairs = [('-1', '4294967295u' if not _sg else '0xffffffffffffffff'), ('1', '4294967297'), ('0', '0x100000000'), ('-2147483647 - 1', '2147483648u' if not _sg else '0x80000000u')]
    else:
        _pairs = [('-1', '18446744073709551615u'), ('-9223372036854775807 - 1', '9223372036854775808u')]
    for _k, (_a, _b) in enumerate(_pairs):
        REJECTS.append(('dup-after-conversion/%s/%d' % (_n, _k), 'int f(%s v) { switch (v) { case %s: return 1; case %s: return 2; } return 0; }' % (_t, _a, _b)))
ACCEPTS = [
    ('same-constant-in-nested-switch', 'int f(int v) { switch (v) { case 2: switch (v) { case 2: return 1; } } return 0; }'),
    ('distinct-after-promotion', 'int f(char c) { switch (c) { case 0: return 1; case 256: return 2; } return 0; }'),
] + [('distinct-64-bit/%s' % t.replace(' ', '-'), 'int f(%s v) { switch (v) { case 1: return 1; case 4294967297: return 2; case -1: return 3; case 4294967295: return 4; } return 0; }' % t)
     for t in ('long', 'unsigned long', 'long long', 'unsigned long long')] + \
    [('distinct-narrow/%s' % t.replace(' ', '-'), 'int f(%s v) { switch (v) { case 1: return 1; case 257: return 2; case 65537: return 3; case -1: return 4; case 255: return 5; case 65535: return 6; } return 0; }' % t)
     for t in ('short', 'unsigned short', 'signed char', 'unsigned char', '_Bool', 'char')]


def _job(a):
    kind, name, src = a
    d = ilexec.workdir('c15.')
    try:
        try:
            got = ilexec.exec_program(src, d, name)
        except ilexec.CompileError as e:
            got = ('cproc-rejects', e.status, e.err[:300])
        ref1 = ilexec.exec_reference(src, d, name, 'gcc')
        ref2 = ilexec.exec_reference(src, d, name, 'clang')
        return (kind, name, src, got if got[0] == 'cproc-rejects' else got[:2], ref1[:2], ref2[:2])
    finally:
        shutil.rmtree(d, ignore_errors=True)


def run(chk, treemc_exe):
    n = 6 if chk.quick else 7
    out = subprocess.run([treemc_exe, 'bfs', str(n), '0', 'dump'], stdout=subprocess.PIPE, timeout=600).stdout.decode()
    states = [tuple(int(x) for x in ln[2:].split(',')) for ln in out.splitlines() if ln.startswith('S ') and len(ln) > 2]
    jobs = []
    per = 60
    nfun = 0
    for mp in MAPS:
        for i in range(0, len(states), per):
            src, nf, npb = gen_unit(states[i:i + per], mp, i)
            nfun += nf
            jobs.append(('states', '%s_%d' % (mp[0], i), src))
    jobs.append(('templates', 'templates', TEMPLATES))
    if not chk.quick:
        for nk, order in ((100, 'asc'), (100, 'desc'), (1000, 'organ'), (1000, 'stride7'), (5000, 'bitrev')):
            jobs.append(('large', 'large_%d_%s' % (nk, order), gen_large(nk, order)))
    executed = evals = 0
    outs = set()
    for kind, name, src, got, r1, r2 in fs.pimap(_job, jobs):
        executed += 1
        if r1 != r2 or r1 is None or r1[0] != 0:
            chk.notes.append('ambiguous switch unit %s: gcc %r clang %r' % (name, r1 and r1[0], r2 and r2[0]))
            continue
        evals += len(r1[1].split())
        outs.add(r1[1])
        if got[0] == 'cproc-rejects':
            chk.violation('switch/rejects-valid/%s' % (kind if kind == 'states' else name), 'switch program %s is accepted and run by gcc and clang, cproc: status %s: %s' % (name, got[1], got[2]),
                          files={'input.c': src.encode()}, cmd='$CPROC_QBE input.c > /dev/null')
            continue
        if got != r1:
            fam = 'switch/%s/%s' % (kind, name.split('_')[0] if kind == 'states' else name)
            detail = first_diff(got, r1)
            chk.violation(fam, 'switch program %s: cproc+il2c gives %s, gcc and clang give %s' % (name, detail[0], detail[1]),
                          files={'input.c': src.encode()}, cmd='$CPROC_QBE input.c | head -5; echo "(execute through il2c: see why.txt)"', detail=detail)
    # duplicate labels must be rejected, distinct ones accepted
    srv = fs.server('fs')
    nrej = 0
    for name, src in REJECTS:
        r = srv.compile(src + '\n')
        nrej += 1
        if r.status != 1:
            chk.violation('switch/accepts-invalid/' + name, '%s: status %d (expected a diagnostic)' % (src, r.status), files={'input.c': src.encode()}, cmd='$CPROC_QBE input.c')
    for name, src in ACCEPTS:
        r = srv.compile(src + '\n')
        nrej += 1
        if r.status != 0:
            chk.violation('switch/rejects-valid/' + name, '%s: status %d: %s' % (src, r.status, r.err[:200]), files={'input.c': src.encode()}, cmd='$CPROC_QBE input.c')
    return {'distinct_tree_states_replayed': len(states), 'key_maps': [m[0] for m in MAPS], 'functions_executed': nfun, 'units': executed,
            'probe_evaluations': evals, 'distinct_outputs': len(outs), 'accept_reject_cases': nrej,
            'samples': [{'state_history_ranks': list(states[len(states) // 2]), 'unit_excerpt': gen_unit(states[len(states) // 2:len(states) // 2 + 1], MAPS[0], 0)[0][:600]}] if states else []}


def first_diff(got, ref):
    if got[0] != ref[0] or not isinstance(got[1], bytes):
        return (repr(got)[:200], repr(ref)[:200])
    g, r = got[1].split(b'\n'), ref[1].split(b'\n')
    for i, (a, b) in enumerate(zip(g, r)):
        if a != b:
            return ('line %d: %s' % (i, a.decode()[:160]), 'line %d: %s' % (i, b.decode()[:160]))
    return ('%d lines' % len(g), '%d lines' % len(r))


def gen_large(n, order):
    if order == 'asc':
        idx = list(range(n))
    elif order == 'desc':
        idx = list(range(n - 1, -1, -1))
    elif order == 'organ':
        idx = [i // 2 if i % 2 == 0 else n - 1 - i // 2 for i in range(n)]
    elif order == 'stride7':
        m = n + 1
        while m % 7 == 0:
            m += 1
        idx = [(i * 7) % n for i in range(n)] if n % 7 else list(range(n))
        idx = list(dict.fromkeys(idx)) + [i for i in range(n) if i not in set(idx)]
    else:
        bits = max(1, (n - 1).bit_length())
        idx = [int(format(i, '0%db' % bits)[::-1], 2) for i in range(1 << bits)]
        idx = [i for i in idx if i < n]
    keys = [(i * 2654435761) % (1 << 40) - (1 << 39) for i in range(n)]
    keys = sorted(set(keys))[:n]
    labels = [keys[i % len(keys)] for i in idx]
    seen, uniq = set(), []
    for k in labels:
        if k not in seen:
            seen.add(k)
            uniq.append(k)
    body = ''.join(' case %dL: return %d;' % (k, i % 1000 + 1) for i, k in enumerate(uniq))
    src = 'int printf(const char *, ...);\nstatic int f(long v) { switch (v) {%s default: return 0; } }\n' % body
    src += 'static long keys[] = { %s };\n' % ', '.join('%dL' % k for k in uniq)
    src += ('int main(void) { unsigned long h = 0; for (int i = 0; i < %d; ++i) { for (int d = -1; d <= 1; ++d) h = h * 31 + f(keys[i] + d); } '
            'h = h * 31 + f(0) + f(-9223372036854775807L-1) + f(9223372036854775807L); printf("%%lu\\n", h); return 0; }\n' % len(uniq))
    return src
