"""Compiler-level half of C15 (filled in once il2c exists)."""


def run(chk, treemc_exe):
    return {'status': 'not built yet'}
