"""C16 — names always resolve to the declaration C scoping selects.

K1: explicit-state search on /repo's map.c (harness/mapmc.c): forged colliding hashes, growth, wrap-around.
K3: all well-bracketed scoping histories up to a length bound, run through the real compiler and compared
    with the reference model `scoperef` (gcc consulted on every disagreement: two-witness rule);
    string-literal pool: all ordered pairs of literals from a small alphabet never share contents.
"""
import itertools
import json
import re
import subprocess

from .. import build, fs, ilparse, witness

LEVEL = 'model_checking'

# ---------------------------------------------------------------------------
# K1


def run_mapmc(exe, args, timeout=1500):
    # a run that dies by a signal or does not finish is a violation of map.c under the explored histories (the harness only reads the table)
    try:
        p = subprocess.run([exe] + [str(a) for a in args], stdout=subprocess.PIPE, stderr=subprocess.STDOUT, timeout=timeout)
        out = p.stdout.decode(errors='replace')
        if p.returncode < 0:
            out += '\nVIOL crashed-signal-%d map.c under harness run %s died by signal %d\n' % (-p.returncode, ' '.join(str(a) for a in args), -p.returncode)
    except subprocess.TimeoutExpired as e:
        out = (e.stdout or b'').decode(errors='replace') + '\nVIOL no-termination map.c under harness run %s did not finish within %d s\n' % (' '.join(str(a) for a in args), timeout)
    stats, viols, states = None, [], []
    for ln in out.splitlines():
        if ln.startswith('{'):
            stats = json.loads(ln)
        elif ln.startswith('VIOL '):
            viols.append(ln)
        elif ln.startswith('S '):
            states.append(ln[2:])
    return stats, viols, states, out


def _k1_job(a):
    exe, args = a
    return args, run_mapmc(exe, args)


def k1(chk):
    exe = build.harness('mapmc', ['mapmc.c'], ['map.c', 'util.c'])
    if chk.quick:
        plan = [('bfs', 4, 4, 0), ('bfs', 8, 4, 0), ('bfs', 4, 11, 1), ('bfs', 8, 11, 1),
                ('long', 100000, 7), ('long', 100000, 4099), ('long', 30000, 1)]
    else:
        plan = [('bfs', 4, 5, 0), ('bfs', 8, 5, 0), ('bfs', 16, 4, 0), ('bfs', 4, 11, 1), ('bfs', 8, 11, 1), ('bfs', 16, 11, 1),
                ('long', 100000, 7), ('long', 100000, 4099), ('long', 100000, 1), ('long', 1000000, 12347)]
    tot = dict(states=0, transitions=0, gets_checked=0, growths=0, frees=0)
    runs = []
    for args, (st, viols, _, out) in fs.pmap(_k1_job, [(exe, a) for a in plan]):
        if st is None and not viols:
            raise RuntimeError('mapmc produced no result for %r:\n%s' % (args, out[-2000:]))
        for v in viols:
            what = v.split()[1]
            hist = v.split('history=')[1].split()[0] if 'history=' in v else ''
            cmd = '%s replay %s %s' % (exe, args[1], hist) if hist else '%s %s' % (exe, ' '.join(map(str, args)))
            chk.violation('K1/' + what, 'map.c: %s' % v, files={'history.txt': v + '\n'}, cmd=cmd, detail=v)
        if st:
            runs.append(st)
            if st['mode'].startswith('bfs'):
                for k in tot:
                    tot[k] += st[k]
            chk.log('mapmc %s -> %s' % (' '.join(map(str, args)), json.dumps(st)))
    if tot['growths'] == 0 or tot['frees'] == 0:
        chk.violation('K1/vacuous', 'map exploration never grew or never cleared the table')
    _, _, states, _ = run_mapmc(exe, ['bfs', 4, 2, 0, 'dump'])
    samples = [{'op_history(key*4+value)': s.split()[0] if ' ' in s else '', 'table': s.split()[-1]} for s in states[1:4] + states[-2:]]
    return tot, runs, samples


# ---------------------------------------------------------------------------
# K3 scoping histories

NAMES = ('a', 'b')
DECLKINDS = ('enumconst', 'typedef', 'object', 'stag', 'utag', 'label', 'enumself')


def events(names):
    ev = [('{',), ('}',)]
    for n in names:
        ev.append(('{', n))          # open a function with parameter n (only at file scope)
        ev.append(('{', n, 'fp'))    # same, but the function returns a pointer to a function whose prototype also names n
        ev.append(('decl', 'proto', n))   # a prototype elsewhere names n: prototype scope ends with the declarator
        for k in DECLKINDS:
            ev.append(('decl', k, n))
        for ns in ('ord', 'tag', 'goto'):
            ev.append(('use', ns, n))
        ev += TAG_EXTRA(n)
    return ev


def TAG_EXTRA(n):
    """forward declarations `struct n;`, captures `typedef struct n *capK;` and uses of the captured type"""
    return [('decl', 'sfwd', n), ('decl', 'ufwd', n), ('capture', n), ('use', 'cap', n)]


def tag_events(n):
    """sub-alphabet around tags only (for the deeper tag stratum)"""
    return [('{',), ('}',), ('decl', 'stag', n), ('decl', 'utag', n), ('use', 'tag', n)] + TAG_EXTRA(n)


class Scope:
    def __init__(self):
        self.ord = {}
        self.tag = {}


def model(hist):
    """Reference model: returns (program lines, expected) where expected is the list of (chk index, value)
    for a valid program, or a frozenset of reasons why the program is invalid:
    'undeclared-use' / 'undefined-label' / 'incomplete-use' (a use that denotes no (complete) entity: must be rejected),
    'redecl' / 'dup-label' (constraint violations that are property C10's business, not judged here)."""
    scopes = [Scope()]
    labels = None       # set of labels defined in the current function
    gotos = None
    lines = []
    expect = []
    why = set()
    caps = []
    uid = 10
    nfun = 0
    nchk = 0
    depth = 0
    for e in hist:
        if e[0] == '{':
            if depth == 0:
                nfun += 1
                sc = Scope()
                if len(e) > 2:
                    uid += 2
                    lines.append('void (*f%d(char (*%s)[%d]))(char (*%s)[%d]) {' % (nfun, e[1], uid - 1, e[1], uid))
                    sc.ord[e[1]] = ('object', uid - 1)
                elif len(e) > 1:
                    uid += 1
                    lines.append('void f%d(char (*%s)[%d]) {' % (nfun, e[1], uid))
                    sc.ord[e[1]] = ('object', uid)
                else:
                    lines.append('void f%d(void) {' % nfun)
                labels, gotos = set(), []
                scopes.append(sc)
            else:
                if len(e) > 1:
                    return None, None  # not generated
                lines.append('{')
                scopes.append(Scope())
            depth += 1
        elif e[0] == '}':
            if depth == 0:
                return None, None
            depth -= 1
            scopes.pop()
            lines.append('}')
            if depth == 0:
                for g in gotos:
                    if g not in labels:
                        why.add('undefined-label')
                labels = gotos = None
        elif e[0] == 'decl':
            k, n = e[1], e[2]
            uid += 1
            sc = scopes[-1]
            if k == 'proto':
                # prototype scope: the parameter name is visible only inside the declarator
                lines.append('void p%d(char (*%s)[%d], int (*cb)(char (*%s)[%d]));' % (uid, n, uid, n, uid + 1000))
                continue
            if k == 'label':
                if depth == 0:
                    return None, None
                if n in labels:
                    why.add('dup-label')
                labels.add(n)
                lines.append('%s: ;' % n)
                continue
            if k in ('sfwd', 'ufwd'):
                kk = 'stag' if k == 'sfwd' else 'utag'
                old = sc.tag.get(n)
                if old is None:
                    sc.tag[n] = [kk, None]       # new incomplete type that hides any outer tag (6.7.2.3p7)
                elif old[0] != kk:
                    why.add('redecl')            # wrong kind of tag
                lines.append('%s %s;' % ('struct' if kk == 'stag' else 'union', n))
                continue
            if k in ('stag', 'utag'):
                old = sc.tag.get(n)
                if old is not None and old[1] is None and old[0] == k:
                    old[1] = uid                 # completes the type declared earlier in this scope
                elif old is not None:
                    why.add('redecl')
                    sc.tag[n] = [k, uid]
                else:
                    sc.tag[n] = [k, uid]
                lines.append('%s %s { char m[%d]; };' % ('struct' if k == 'stag' else 'union', n, uid))
                continue
            if k == 'enumself':
                # `enum { n = n + 1000 }`: the scope of an enumerator begins just AFTER its enumerator (6.2.1p7), so the n in the
                # initialiser is the outer one; only generated when that is an enumeration constant
                outer = None
                for sc2 in reversed(scopes):
                    if n in sc2.ord:
                        outer = sc2.ord[n]
                        break
                if outer is None or outer[0] != 'enumconst' or n in sc.ord:
                    return None, None
                val = outer[1] + 1000
                sc.ord[n] = ('enumconst', val)
                lines.append('enum { %s = %s + 1000 };' % (n, n))
                continue
            if n in sc.ord:
                why.add('redecl')
            sc.ord[n] = (k, uid)
            if k == 'enumconst':
                lines.append('enum { %s = %d };' % (n, uid))
            elif k == 'typedef':
                lines.append('typedef char %s[%d];' % (n, uid))
            else:
                lines.append('%schar (*%s)[%d];' % ('static ' if depth == 0 else '', n, uid))
        elif e[0] == 'sub':
            # a selection or iteration statement whose NON-compound substatement (or controlling expression) declares n inside an
            # expression: each such statement and each of its substatements is a block of its own (6.8.4p3, 6.8.5p5)
            if depth == 0:
                return None, None
            form, dk, n = e[1], e[2], e[3]
            uid += 1
            ns = 'ord' if dk == 'enumconst' else 'tag'
            declx = 'sizeof(enum { %s = %d })' % (n, uid) if dk == 'enumconst' else 'sizeof(struct %s { char m[%d]; })' % (n, uid)
            usex = n if dk == 'enumconst' else 'sizeof(struct %s)' % n

            def asrt(val):
                return '(void)sizeof(struct { _Static_assert((%s) == %d, "sub"); char c; });' % (usex, val)
            outer = None
            for sc in reversed(scopes):
                tab = sc.ord if ns == 'ord' else sc.tag
                if n in tab:
                    outer = tab[n]
                    break
            if form == 'then-else-use':
                # the use in the else branch sees the OUTER entity; only generated when that is an entity of the same kind
                if outer is None or outer[0] != dk or outer[1] is None:
                    return None, None
                lines.append('if (0) (void)%s; else %s' % (declx, asrt(outer[1])))
            elif form == 'cond-use':
                lines.append('if (%s) %s' % (declx, asrt(uid)))
            elif form == 'for-init-use':
                lines.append('for (unsigned long q%d = %s; 0;) %s' % (uid, declx, asrt(uid)))
            else:
                lines.append({'then': 'if (1) (void)%s;', 'else': 'if (0) ; else (void)%s;', 'cond': 'if (%s) ;', 'while': 'while (0) (void)%s;',
                              'do': 'do (void)%s; while (0);', 'for': 'for (; 0;) (void)%s;', 'switch': 'switch (0) default: (void)%s;',
                              'while-cond': 'while (!%s) ;', 'switch-cond': 'switch (%s) default: ;'}[form] % declx)
        elif e[0] == 'capture':
            n = e[1]
            found = None
            for sc in reversed(scopes):
                if n in sc.tag:
                    found = sc.tag[n]
                    break
            if found is None:
                found = scopes[-1].tag[n] = ['stag', None]   # `struct n *` declares the tag here (6.7.2.3p8)
            ncap = len(caps) + 1
            caps.append((len(scopes), scopes[-1], found, ncap))
            lines.append('typedef %s %s *cap%d;' % ('struct' if found[0] == 'stag' else 'union', n, ncap))
        else:
            ns, n = e[1], e[2]
            if ns == 'cap':
                nchk += 1
                live = [cp for cp in caps if cp[1] in scopes]
                if not live:
                    why.add('undeclared-use')
                    lines.append(('CHK', nchk, 'sizeof(*(cap0)0)', 0))
                    continue
                _, _, ent, ncap = live[-1]
                if ent[1] is None:
                    why.add('incomplete-use')
                lines.append(('CHK', nchk, 'sizeof(*(cap%d)0)' % ncap, ent[1] or 0))
                if ent[1] is not None:
                    expect.append((nchk, ent[1]))
                continue
            if ns == 'goto':
                if depth == 0:
                    return None, None
                gotos.append(n)
                lines.append('goto %s;' % n)
                continue
            nchk += 1
            found = None
            for sc in reversed(scopes):
                tab = sc.ord if ns == 'ord' else sc.tag
                if n in tab:
                    found = tab[n]
                    break
            if ns == 'ord':
                if found is None:
                    why.add('undeclared-use')
                    ex = n
                elif found[0] == 'enumconst':
                    ex = n
                elif found[0] == 'typedef':
                    ex = 'sizeof(%s)' % n
                else:
                    ex = 'sizeof(*%s)' % n
            else:
                if found is None:
                    why.add('undeclared-use')
                    ex = 'sizeof(struct %s)' % n
                else:
                    ex = 'sizeof(%s %s)' % ('struct' if found[0] == 'stag' else 'union', n)
                    if found[1] is None:
                        why.add('incomplete-use')
                        found = None
            lines.append(('CHK', nchk, ex, found[1] if found else 0))
            if found:
                expect.append((nchk, found[1]))
    while depth > 0:
        depth -= 1
        lines.append('}')
        if depth == 0 and gotos is not None:
            for g in gotos:
                if g not in labels:
                    why.add('undefined-label')
    return lines, (expect if not why else frozenset(why))


def render(lines, asserts=False):
    out = []
    for l in lines:
        if isinstance(l, tuple):
            _, i, ex, val = l
            if asserts:
                out.append('_Static_assert((%s) == %d, "chk");' % (ex, val))
            else:
                out.append('static int chk_%d = %s;' % (i, ex))
        else:
            out.append(l)
    return '\n'.join(out) + '\n'


_chk_re = re.compile(rb'data \$(?:\.L)?chk_(\d+)(?:\.\d+)? = align \d+ \{ w (\d+), \}')


SUBFORMS = ('then', 'else', 'cond', 'then-else-use', 'cond-use', 'while', 'while-cond', 'do', 'for', 'for-init-use', 'switch', 'switch-cond')


def sub_events(n):
    """sub-alphabet for the implicit blocks of selection and iteration statements"""
    ev = [('{',), ('}',), ('decl', 'enumconst', n), ('decl', 'stag', n), ('use', 'ord', n), ('use', 'tag', n), ('decl', 'enumself', n)]
    for form in SUBFORMS:
        for dk in ('enumconst', 'stag'):
            ev.append(('sub', form, dk, n))
    return ev


def histories(names, maxlen, ev=None, start=()):
    ev = ev or events(names)

    def rec(prefix, depth):
        if len(prefix) > len(start):
            yield prefix
        if len(prefix) == maxlen + len(start):
            return
        for e in ev:
            if e[0] == '{':
                if len(e) > 1 and depth != 0:
                    continue
                nd = depth + 1
            elif e[0] == '}':
                if depth == 0:
                    continue
                nd = depth - 1
            else:
                nd = depth
                if depth == 0 and (e[0] == 'sub' or e[1] in ('label',) or (e[0] == 'use' and e[1] == 'goto')):
                    continue
            yield from rec(prefix + (e,), nd)
    d0 = sum(1 for e in start if e[0] == '{') - sum(1 for e in start if e[0] == '}')
    return rec(tuple(start), d0)


def _scope_job(batch):
    srv = fs.server('fs')
    res = []
    for hist in batch:
        lines, expect = model(hist)
        if lines is None:
            continue
        uses = sum(1 for l in lines if isinstance(l, tuple))
        if isinstance(expect, frozenset) and expect & {'redecl', 'dup-label'}:
            res.append((hist, True, None, -1, uses, 'c10'))
            continue
        src = render(lines)
        r = srv.compile(src, cpu_s=2)
        if r.status == 0:
            got = sorted((int(a), int(b)) for a, b in _chk_re.findall(r.out))
        else:
            got = None
        ok = (got == sorted(expect)) if isinstance(expect, list) else (got is None and r.status == 1)
        res.append((hist, ok, got, r.status, uses, 'reject' if isinstance(expect, frozenset) else 'valid'))
    return res


def k3_scoping(chk):
    stats = dict(evaluations=0, expected_reject=0, with_uses=0, ambiguous=0, handed_to_c10=0)
    samples = []
    SUBSTART = (('decl', 'enumconst', 'a'), ('decl', 'stag', 'a'), ('{',))
    plans = [(('a',), 4, None, ()), (('a',), 5, tag_events('a'), ()), (NAMES, 3, None, ()), (('a',), 3, sub_events('a'), SUBSTART)] if chk.quick else \
        [(('a',), 5, None, ()), (('a',), 6, tag_events('a'), ()), (NAMES, 4, None, ()), (('a',), 4, sub_events('a'), SUBSTART)]
    for names, maxlen, evs, start in plans:
        batch, batches = [], []
        for h in histories(names, maxlen, evs, start):
            batch.append(h)
            if len(batch) == 400:
                batches.append(batch)
                batch = []
        if batch:
            batches.append(batch)
        chk.log('scoping histories names=%s len<=%d: %d batches' % (names, maxlen, len(batches)))
        bad = []
        for res in fs.pimap(_scope_job, batches):
            for hist, ok, got, status, uses, rej in res:
                if rej == 'c10':
                    stats['handed_to_c10'] += 1
                    continue
                stats['evaluations'] += 1
                stats['expected_reject'] += rej == 'reject'
                stats['with_uses'] += uses > 0
                if not ok:
                    bad.append((hist, got, status))
            if chk.expired():
                break
        if len(samples) < 4:
            h = next(x for x in histories(names, maxlen, evs, start) if len(x) == maxlen + len(start) and any(e[0] == 'use' for e in x))
            lines, expect = model(h)
            samples.append({'history': [' '.join(e) for e in h], 'program': render(lines), 'expected': expect})
        # two-witness rule: gcc must agree with the reference model before anything is reported
        for hist, got, status in bad:
            lines, expect = model(hist)
            if isinstance(expect, frozenset):
                ok, _ = witness.gcc_accepts(render(lines))
                agrees = not ok
            else:
                ok, _ = witness.gcc_accepts(render(lines, asserts=True))
                agrees = ok
            if not agrees:
                stats['ambiguous'] += 1
                chk.notes.append('ambiguous (gcc disagrees with scoperef): ' + ' / '.join(' '.join(e) for e in hist))
                continue
            fam = classify(hist, expect, got, status)
            src = render(lines)
            chk.violation('K3/scoping/' + fam,
                          'history %s: expected %s, compiler gave %s (status %s)' % (
                              ' / '.join(' '.join(e) for e in hist), 'reject' if isinstance(expect, frozenset) else expect, got, status),
                          files={'input.c': src.encode()},
                          cmd='$CPROC_QBE input.c; echo "status=$? expected: %s"' % ('non-zero status' if isinstance(expect, frozenset) else 'chk values %s' % expect))
    return stats, samples


def classify(hist, expect, got, status):
    if status >= 1000 or status not in (0, 1):
        return 'crash-status-%d' % status
    if isinstance(expect, frozenset):
        return 'accepted-invalid/' + '+'.join(sorted(expect))
    if got is None:
        return 'rejected-valid/' + '+'.join(sorted({e[1] for e in hist if e[0] in ('decl', 'use')}))
    return 'wrong-declaration-selected/' + '+'.join(sorted({e[1] for e in hist if e[0] == 'decl'}))


# ---------------------------------------------------------------------------
# string-literal pool

PREFIXES = ('', 'u8', 'u', 'U', 'L')
CONTENTS = ('ab', 'ac', 'a', 'abc', 'abcd', 'abce', 'b')
WIDTH = {'': 1, 'u8': 1, 'u': 2, 'U': 4, 'L': 4}


def _pool_job(batch):
    srv = fs.server('fs')
    res = []
    for lits in batch:
        src = ''.join('const void *p%d = %s"%s";\n' % (i, p, c) for i, (p, c) in enumerate(lits))
        r = srv.compile(src)
        err = None
        if r.status != 0:
            err = 'status %d' % r.status
        else:
            try:
                m = ilparse.parse(r.out)
                objs = {d.name: d for d in m.data}
                for i, (p, c) in enumerate(lits):
                    d = objs['$p%d' % i]
                    img, rel = ilparse.data_image(d)
                    if len(rel) != 1 or rel[0][3] != 0:
                        err = 'p%d is not a plain address' % i
                        break
                    tgt = objs.get(rel[0][2])
                    if tgt is None:
                        err = 'p%d points to undefined %s' % (i, rel[0][2])
                        break
                    timg, trel = ilparse.data_image(tgt)
                    w = WIDTH[p]
                    want = b''.join(ord(ch).to_bytes(w, 'little') for ch in c) + bytes(w)
                    if timg[:len(want)] != want or trel:
                        err = 'p%d = %s"%s" points to an object containing %r' % (i, p, c, timg)
                        break
                    if (tgt.align or 1) < w:
                        err = 'p%d = %s"%s" points to an object aligned %s' % (i, p, c, tgt.align)
                        break
            except Exception as e:  # malformed IL is a C03 matter, but we cannot judge the pool then
                err = 'IL not decodable: %s' % e
        res.append((lits, err, src))
    return res


def k3_pool(chk):
    lits = [(p, c) for p in PREFIXES for c in CONTENTS]
    cases = [(a, b) for a in lits for b in lits]
    if not chk.quick:
        sub = [(p, c) for p in ('', 'u', 'L') for c in ('ab', 'ac', 'abcd', 'abce')]
        cases += [(a, b, c) for a in sub for b in sub for c in sub]
    batches = [cases[i:i + 200] for i in range(0, len(cases), 200)]
    n = 0
    distinct = set()
    for res in fs.pimap(_pool_job, batches):
        for lits_, err, src in res:
            n += 1
            if err:
                widths = sorted({WIDTH[p] for p, _ in lits_})
                fam = 'wide' if widths != [1] else 'narrow'
                chk.violation('K3/stringpool/%s-literal-shares-or-corrupts-storage' % fam, err + ' in: ' + src.replace('\n', ' '),
                              files={'input.c': src.encode()}, cmd='$CPROC_QBE input.c')
            else:
                distinct.add(lits_)
    return n, len(distinct), {'literals': ['%s"%s"' % x for x in cases[7]]}


# ---------------------------------------------------------------------------
# K3 for the macro table (the third client of map.c): every history of definitions, removals and uses of two names

MDEFS = {'o1': ('obj', '#define %s 11', ['11']), 'o2': ('obj', '#define %s 22', ['22']), 'f3': ('fn', '#define %s(x) 33', ['33'])}


def macro_model(hist):
    """returns ('reject', None) or ('ok', expected token spellings of the text lines)"""
    table, out = {}, []
    for ev in hist:
        if ev[0] == 'def':
            if ev[1] in table and table[ev[1]] != ev[2]:
                return ('reject', None)         # 6.10.3p2: redefinition that is not identical
            table[ev[1]] = ev[2]
        elif ev[0] == 'undef':
            table.pop(ev[1], None)
        else:
            d = table.get(ev[1])
            call = ev[0] == 'call'
            if d is None:
                out += [ev[1]] + (['(', '0', ')'] if call else []) + [';']
            elif MDEFS[d][0] == 'obj':
                out += MDEFS[d][2] + (['(', '0', ')'] if call else []) + [';']
            else:
                out += (MDEFS[d][2] if call else [ev[1]]) + [';']
    return ('ok', out)


def macro_render(hist):
    lines = []
    for ev in hist:
        if ev[0] == 'def':
            lines.append(MDEFS[ev[2]][1] % ev[1])
        elif ev[0] == 'undef':
            lines.append('#undef ' + ev[1])
        elif ev[0] == 'use':
            lines.append(ev[1] + ' ;')
        else:
            lines.append(ev[1] + '(0) ;')
    return ('\n'.join(lines) + '\n').encode()


def macro_events(names):
    ev = []
    for n in names:
        ev += [('def', n, 'o1'), ('def', n, 'o2'), ('def', n, 'f3'), ('undef', n), ('use', n), ('call', n)]
    return ev


def _macro_job(hists):
    from .. import clex
    srv = fs.server('fs')
    out = []
    for h in hists:
        verdict, exp = macro_model(h)
        r = srv.run(['-E'], macro_render(h), 0, 5)
        if verdict == 'reject':
            out.append((h, None if r.status == 1 else 'accepted a redefinition that is not identical (status %s)' % r.status))
            continue
        if r.status != 0:
            out.append((h, 'rejected (status %s): %s' % (r.status, r.err[:100].decode('latin-1'))))
            continue
        got = [sp for _, sp in clex.tokens(r.out.decode('latin-1'))]
        out.append((h, None if got == exp else 'expected %r, got %r' % (' '.join(exp), ' '.join(got))))
    return out


def _fnv1a(name):
    h = 0x811c9dc5
    for b in name.encode():
        h = ((h ^ b) * 0x1000193) & 0xffffffffffffffff
    return h


def _colliding_names():
    by = {}
    for i in range(20000):
        by.setdefault(_fnv1a('m%d' % i) & 1023, []).append('m%d' % i)
    for k in sorted(by):
        if len(by[k]) >= 2 and by.get((k + 1) & 1023):
            return (by[k][0], by[k][1], by[(k + 1) & 1023][0])
    raise RuntimeError('no colliding macro names found')


def k3_macros(chk):
    names2 = ('a', 'b')
    # 'a' and 'i' etc. are also spelled like declared identifiers elsewhere; the macro table must not care. Names of different length and a
    # name that is a keyword spelling exercise the key comparison (length + bytes)
    plans = [(names2, 3), (('a',), 4), (('a', 'ab'), 3), (('int', 'in'), 2)] if chk.quick else [(names2, 4), (('a',), 6), (('a', 'ab'), 4), (('int', 'in'), 3), (('a', 'b', 'c'), 3)]
    hs, seen = [], set()
    # names whose FNV-1a hashes (map.c) agree in the low 10 bits, and one that hashes to the next slot: they share a probe run in the macro
    # table at every capacity up to 1024, so removing one must not hide the others (seeded round 9: #undef emptied the key slot)
    collide = _colliding_names()
    for names, n in plans + [(collide, 4 if chk.quick else 5)]:
        evs = macro_events(names) if names != collide else [e for nm in names for e in (('def', nm, 'o1'), ('undef', nm), ('use', nm))]
        for k in range(1, n + 1):
            for h in itertools.product(evs, repeat=k):
                if any(e[0] in ('use', 'call') for e in h) or any(e[0] == 'def' for e in h[1:]):
                    if h not in seen:
                        seen.add(h)
                        hs.append(h)
    n = nrej = 0
    sample = None
    for res in fs.pimap(_macro_job, [hs[i:i + 300] for i in range(0, len(hs), 300)]):
        for h, bad in res:
            n += 1
            if macro_model(h)[0] == 'reject':
                nrej += 1
            if sample is None and len(h) == 3 and macro_model(h)[0] == 'ok':
                sample = {'history': [list(e) for e in h], 'expected_tokens': macro_model(h)[1]}
            if bad:
                kind = 'accepted-redefinition' if bad.startswith('accepted') else 'rejected-valid' if bad.startswith('rejected') else 'wrong-binding'
                chk.violation('K3/macros/' + kind, 'macro history %r: %s' % (macro_render(h).decode(), bad), files={'input.c': macro_render(h)}, cmd='$CPROC_QBE -E input.c')
    return n, nrej, sample


def main(chk):
    tot, runs, samples = k1(chk)
    st, ssamples = k3_scoping(chk) if chk.want('scoping') else ({'evaluations': 0, 'expected_reject': 0, 'with_uses': 0, 'ambiguous': 0, 'handed_to_c10': 0}, [])
    npool, dpool, psample = k3_pool(chk) if chk.want('pool') else (0, 0, {})
    nmac, nmacrej, msample = k3_macros(chk) if chk.want('macros') else (0, 0, None)
    cov = {
        'states': tot['states'],
        'transitions': tot['transitions'],
        'traces_validated_against_impl': tot['states'] + st['evaluations'] + npool + nmac,
        'samples': samples + ssamples + [psample] + ([msample] if msample else []),
        'macro_histories': nmac,
        'macro_histories_expected_reject': nmacrej,
        'map_gets_checked': tot['gets_checked'],
        'map_growths': tot['growths'],
        'map_clears': tot['frees'],
        'mapmc_runs': runs,
        'scoping_histories': st['evaluations'],
        'scoping_expected_reject': st['expected_reject'],
        'scoping_histories_with_uses': st['with_uses'],
        'ambiguous': st['ambiguous'],
        'scoping_histories_handed_to_C10': st['handed_to_c10'],
        'stringpool_cases': npool,
        'stringpool_cases_clean': dpool,
        'rule': 'K1: BFS over put/overwrite/clear histories on the real map.c with forged colliding hashes, exact table dedup; '
                'K3: every well-bracketed scoping history up to the length bound compiled and compared with scoperef; '
                'every ordered pair (thorough: triple) of string literals over the alphabet; every history of #define (two object-like bodies, one '
                'function-like) / #undef / use / call events over two names up to the length bound, -E token sequence compared with a dictionary model',
    }
    return chk.finish(cov, [
        'mapmc links the unmodified map.c/util.c; initial capacities 4, 8 (16): capacities 1 and 2 are excluded because a full table '
        'is reachable there by design of the growth rule and no client uses them',
        'scoperef is checked against gcc -std=c11 -pedantic-errors on every disagreement (two-witness rule)',
    ])
