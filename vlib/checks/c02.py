"""C02 — the self-compiled compiler is indistinguishable from the reference-built one.

K3 differential: stage 1 = gcc build of the working tree, stage 2 = stage-1's IL of the compiler's own
preprocessed sources, translated by il2c and compiled (build.stage2).  (1) fixed point on the compiler's own
sources for all targets, (2) the corpus (compile and -E), (3) the complete case streams of the other checks'
generators (valid and invalid programs, token-dump mode) through both fork-servers: status, stdout and stderr
must be identical.
"""
import itertools
import os
import struct
import subprocess

from .. import build, c10cat, fs, ilexec
from . import c03, c09, c10, c13, c16, c19

LEVEL = 'exploration'
TARGETS = ('x86_64-sysv', 'aarch64', 'riscv64')


def _job(batch):
    s1 = fs.server('fs')
    s2 = fs.server('fs-stage2')
    out = []
    for label, mode, args, data in batch:
        a = s1.run(args, data, mode, 20)
        if a.status >= 1000 or a.status in (98, 99):
            out.append((label, 'skip', None))
            continue
        b = s2.run(args, data, mode, 40)
        if (a.status, a.out, a.err) != (b.status, b.out, b.err):
            what = 'status %s vs %s' % (a.status, b.status) if a.status != b.status else 'stdout' if a.out != b.out else 'stderr'
            out.append((label, what, (args, data, a.out[:2000], b.out[:2000], a.err[:500], b.err[:500])))
        else:
            out.append((label, None, a.status))
    return out


def streams(chk):
    q = chk.quick
    # own sources (fixed point)
    sd = build.srcdir()
    for n in build.compiler_srcs():
        p = subprocess.run(['cpp'] + ilexec.CPP_FLAGS + [os.path.join(sd, n)], stdout=subprocess.PIPE, stderr=subprocess.PIPE, timeout=120)
        if p.returncode == 0:
            for t in TARGETS:
                yield ('fixedpoint/%s/%s' % (n, t), 0, ['-t', t], p.stdout)
    # corpus
    files = c19.corpus()
    for name, src, targ, pp in files:
        for t in TARGETS:
            yield ('corpus/%s/%s' % (name, t), 0, ['-t', t], src)
            yield ('corpus-E/%s/%s' % (name, t), 0, ['-t', t, '-E'], src)
        yield ('corpus-tokens/%s' % name, 2, [], src)
    # C19 single edits (error paths, inputs unlike the compiler itself)
    for name, src, targ, pp in files:
        if q and len(src) > 500:
            continue
        for label, data in c19.mutants(name, src, True, False):
            if label.startswith('byte') and q:
                continue
            yield ('mutant/%s/%s' % (name, label), 0, ['-t', targ] + (['-E'] if pp else []), data)
    # C03 statement and expression grammars
    for body, n in c03.stmt_trees(3 if q else 4):
        yield ('stmt/%d' % n, 0, [], c03.stmt_program(body).encode())
    for e, k in c03.expr_trees(2):
        yield ('expr/%d' % k, 0, [], c03.stmt_program('n = ' + e + ';').encode())
    # C10 catalogue instances
    for e in c10cat.ENTRIES:
        for place, src in c10.placements(e):
            yield ('catalogue/%s/%s' % (e['id'], place), 0, [], src.encode())
    # C16 scoping histories, C09 linkage histories
    for h in c16.histories(('a',), 3 if q else 4):
        lines, expect = c16.model(h)
        if lines is not None:
            yield ('scoping', 0, [], c16.render(lines).encode())
    for kind, syms in (('obj', c09.OBJ_SYMS), ('fun', c09.FUN_SYMS)):
        for n in range(1, (2 if q else 3) + 1):
            for hist in itertools.product(syms, repeat=n):
                yield ('linkage/' + kind, 0, [], c09.render(hist, kind).encode())
    # constant folding: eval.c executed by both stages over boundary operands
    vals = ['0', '1', '-1', '2', '-2', '7', '63', '64', '-64', '2147483647', '(-2147483647-1)', '4294967295', '9223372036854775807', '(-9223372036854775807-1)', '18446744073709551615u']
    fvals = ['0.0', '1.5', '-1.5', '1e300', '-0.0', '16777217.0', '4294967296.0', '9223372036854775808.0']
    ops = ['+', '-', '*', '/', '%', '<<', '>>', '<', '>', '<=', '>=', '==', '!=', '&', '|', '^', '&&', '||']
    for ty in ('int', 'unsigned', 'long', 'unsigned long', 'short', 'unsigned char', '_Bool'):
        for op in ops:
            lines = ['%s v%d = (%s)%s %s (%s)%s;' % (ty, i, ty, a, op, ty, b) for i, (a, b) in enumerate(itertools.product(vals, vals))
                     if not (op in ('/', '%') and b == '0')]
            yield ('fold/%s' % ty, 0, [], ('\n'.join(lines) + '\n').encode())
    for ty in ('double', 'float'):
        for op in ('+', '-', '*', '/', '<', '>', '<=', '>=', '==', '!='):
            lines = ['%s w%d = (%s)%s %s (%s)%s; long c%d = (long)((%s)%s); %s d%d = (%s)%s;' % (
                'int' if op in ('<', '>', '<=', '>=', '==', '!=') else ty, i, ty, a, op, ty, b, i, ty, a if 'e300' not in a and '9223372036854775808' not in a else '1.0', ty, i, ty, vals[i % len(vals)])
                for i, (a, b) in enumerate(itertools.product(fvals, fvals))]
            yield ('fold/%s' % ty, 0, [], ('\n'.join(lines) + '\n').encode())
    # conversions between floating and integer constants at the boundaries of every target type (each is one arm of eval.c's cast folding)
    ranges = {'unsigned char': (0, 255), 'signed char': (-128, 127), 'short': (-32768, 32767), 'unsigned short': (0, 65535), 'int': (-2**31, 2**31 - 1),
              'unsigned': (0, 2**32 - 1), 'long': (-2**63, 2**63 - 1), 'unsigned long': (0, 2**64 - 1), '_Bool': (-1e400, 1e400)}
    fconsts = [0.0, 0.5, 0.99, 1.0, 1.5, -0.5, -0.99, -1.0, -1.5, 127.0, 127.9, 128.0, -128.0, -128.9, 255.0, 255.9, 256.0, 32767.5, 32768.0, -32768.5, 65535.5, 65536.0,
               2147483647.0, 2147483647.5, 2147483648.0, -2147483648.0, -2147483648.5, 4294967295.0, 4294967295.5, 4294967296.0, 2.0**53, 2.0**53 + 2, 2.0**62, 2.0**63 - 1024,
               2.0**63, 2.0**63 + 2048, -2.0**63, 1e19, 1.8e19, 2.0**64 - 2048, 1e-30, 16777217.0]
    for ty, (lo, hi) in ranges.items():
        lines = []
        for i, v in enumerate(fconsts):
            if lo - 1 < v < hi + 1:      # the truncated value fits: defined
                for fs_, suf in (('double', ''), ('float', 'f')):
                    if suf and not lo - 1 < struct.unpack('f', struct.pack('f', v))[0] < hi + 1:
                        continue
                    lines.append('%s f2i_%s%d = (%s)%r%s; %s f2ie_%s%d = (%s)(%s)%r;' % (ty, suf or 'd', i, ty, v, suf, ty, suf or 'd', i, ty, fs_, v))
        yield ('fold/float-to-%s' % ty, 0, [], ('\n'.join(lines) + '\n').encode())
    iconsts = ['0', '1', '-1', '255', '16777216', '16777217', '16777219', '2147483647', '(-2147483647-1)', '2147483648u', '4294967295u', '4294967296', '9007199254740993',
               '9223372036854775807', '(-9223372036854775807-1)', '9223372036854775808u', '9223372036854776833u', '18446744073709551615u', '18446744073709549568u']
    lines = []
    for i, v in enumerate(iconsts):
        for ty in ('double', 'float'):
            lines.append('%s i2f_%s%d = %s; %s i2fc_%s%d = (%s)%s; %s i2fa_%s%d = %s + 0.0%s;' % (ty, ty[0], i, v, ty, ty[0], i, ty, v, ty, ty[0], i, v, 'f' if ty == 'float' else ''))
    yield ('fold/integer-to-floating', 0, [], ('\n'.join(lines) + '\n').encode())
    # C13 scanner strings in token-dump mode
    for n in range(1, (2 if q else 3) + 1):
        for t in itertools.product(c13.PUNCT, repeat=n):
            yield ('tokens/P1', 1, [], ('; ' + ''.join(t) + '\n').encode())


def main(chk):
    build.get('fs')
    build.stage2()
    batches, cur = [], []
    strata = {}
    for item in streams(chk):
        st = item[0].split('/')[0]
        strata[st] = strata.get(st, 0) + 1
        cur.append(item)
        if len(cur) >= (60 if st in ('fixedpoint', 'corpus') else 400):
            batches.append(cur)
            cur = []
    if cur:
        batches.append(cur)
    chk.log('%d cases: %r' % (sum(strata.values()), strata))
    n = nskip = 0
    statuses = {}
    for res in fs.pimap(_job, batches):
        for label, what, info in res:
            n += 1
            if what == 'skip':
                nskip += 1
                continue
            if what is None:
                statuses[info] = statuses.get(info, 0) + 1
                continue
            args, data, o1, o2, e1, e2 = info
            st = label.split('/')[0]
            chk.violation('%s/%s-differs' % (st, what.split()[0]), '%s: stage 2 differs from stage 1 in %s' % (label, what),
                          files={'input.c': data, 'stage1.out': o1, 'stage2.out': o2, 'stage1.err': e1, 'stage2.err': e2},
                          cmd='$CPROC_QBE %s < input.c | cmp - stage1.out' % ' '.join(args))
        if chk.expired():
            break
    cov = {
        'evaluations': n,
        'distinct_nontrivial': len(strata) + len(statuses),
        'rule': 'every case of the listed streams is run through the stage-1 and the stage-2 fork-server; (status, stdout, stderr) must be identical; '
                'cases on which stage 1 itself crashes are skipped (C19); distinct = strata + distinct exit statuses',
        'samples': [{'stream': 'fixedpoint', 'case': 'cpp-preprocessed qbe.c, -t aarch64: stage-2 output == stage-1 output'},
                    {'stream': 'stmt', 'case': c03.stmt_program('while (n--) g(@);')}],
        'strata': strata,
        'stage1_crashes_skipped': nskip,
        'exit_status_histogram': {str(k): v for k, v in sorted(statuses.items())},
    }
    return chk.finish(cov, [
        'stage 2 is executed through il2c + gcc -O1, not through QBE (not installed); a difference is attributed to code generation or to il2c and triaged by hand',
    ])
