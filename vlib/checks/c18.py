"""C18 — a failing stage makes the whole driver invocation fail cleanly.

K2: stateless depth-first exploration (harness/world.c `explore`) of all fate assignments, environment
failures and termination/reaping orders within a fault bound, on the real driver.c; invariants I1-I5 are
evaluated in every execution.  Real-process conformance replay with stub tools for single-fault scenarios.
"""
import glob
import json
import os
import re
import shutil
import subprocess
import tempfile

from .. import build, fs

LEVEL = 'model_checking'
TRIPLE = 'x86_64-linux-gnu'

MODES = {'pp': ['-E'], 'compile': ['-emit-qbe'], 'codegen': ['-S'], 'assemble': ['-c'], 'link': []}
TYPES = ['a.c', 'b.i', 'c.qbe', 'd.s']


def shapes(quick):
    out = []
    for mname, m in MODES.items():
        for t in TYPES:
            out.append((m + [t], 1))
        for t1 in TYPES:
            for t2 in TYPES:
                if quick and mname != 'link' and (t1, t2) not in (('a.c', 'b.i'), ('d.s', 'a.c'), ('c.qbe', 'c.qbe')):
                    continue
                out.append((m + [t1, t2], 2))
    out.append((['-c', '-o', 'out.o', 'a.c'], 1))
    out.append((['-o', 'prog', 'a.c', 'g.o', '-lm'], 2))
    out.append((['-E', '-o', 'out.i', 'a.c'], 1))
    # inputs the driver does not build (objects, libraries) before, between and after inputs it builds: a failure of a LATER input must still
    # remove the temporary objects of every earlier built one (seeded round 9: the clean-up loop stopped at the first unbuilt input)
    for mix in (('g.o', 'd.s', 'd.s'), ('d.s', 'g.o', 'd.s'), ('d.s', 'd.s', 'g.o'), ('-lm', 'd.s', 'd.s'), ('g.o', 'd.s', '-lm', 'd.s'), ('g.o', 'c.qbe', 'd.s')):
        out.append((list(mix), 3))
    if not quick:
        for mix in (('g.o', 'a.c', 'd.s'), ('-lm', 'c.qbe', 'c.qbe'), ('g.o', 'h.o', 'd.s', 'd.s'), ('d.s', 'g.o', 'd.s', 'g.o', 'd.s')):
            out.append((list(mix), 3))
    if not quick:
        for trip in (('a.c', 'd.s', 'c.qbe'), ('d.s', 'd.s', 'd.s'), ('a.c', 'a.c', 'a.c'), ('c.qbe', 'a.c', 'g.o')):
            out.append((list(trip), 3))
            out.append((['-c'] + list(trip), 3))
    return out


def _job(a):
    argv, bound, policy, flags = a
    exe = build.driver(TRIPLE)
    cmd = [exe, 'explore', '-b', str(bound), '-p', str(policy)] + flags + ['--'] + argv
    p = subprocess.run(cmd, stdout=subprocess.PIPE, stderr=subprocess.DEVNULL, timeout=3000)
    st, viols = None, []
    for ln in p.stdout.decode(errors='replace').splitlines():
        if ln.startswith('{'):
            st = json.loads(ln)
        elif ln.startswith('VIOL '):
            m = re.match(r'VIOL choices=([0-9,]*) what=(.*)', ln)
            viols.append((m.group(1), m.group(2)))
    return a, st, viols


def family(what, argv):
    w = re.sub(r'/tmp/cproc-t\d+', 'TEMP', what)
    m = re.match(r'(I\d): (.*)', w, re.S)
    w = (m.group(1) + ' ' + re.sub(r'\d+', 'N', m.group(2))) if m else re.sub(r'\d+', 'N', w)
    mode = 'link' if not any(x in argv for x in ('-E', '-emit-qbe', '-S', '-c')) else 'nolink'
    return '%s [%s]' % (w, mode)


def real_conformance(chk):
    """Single-fault scenarios with real processes and stub tools: status, surviving files, stray processes."""
    exe = build.driver(TRIPLE, real=True)
    work = tempfile.mkdtemp(prefix='c18real.')
    n = 0
    results = []
    try:
        scen = []
        for tool in ('PP', 'cproc-qbe', 'CG', 'AS'):
            for fate in ('early', 'half', 'late', 'segv', 'kill'):
                scen.append((['-c', 'a.c'], {tool: fate}, 'a.o'))
        for tool in ('PP', 'AS', 'LD'):
            for fate in ('early', 'late', 'kill'):
                scen.append((['a.c', 'd.s'], {tool: fate}, None))
        for fate in ('early', 'late', 'segv'):
            scen.append((['d.s', 'a.c'], {'PP': fate}, None))   # second input fails: first temporary must go
        scen.append((['-c', 'a.c'], {}, 'a.o'))
        scen.append((['a.c', 'd.s'], {}, 'a.out'))
        for argv, fates, outfile in scen:
            cwd = os.path.join(work, 'cwd')
            shutil.rmtree(cwd, ignore_errors=True)
            os.makedirs(cwd)
            for f in ('a.c', 'd.s'):
                open(os.path.join(cwd, f), 'w').write('SRC\n')
            log = os.path.join(work, 'log')
            open(log, 'w').close()
            env = dict(os.environ, STUBLOG=log)
            for t, f in fates.items():
                env['STUBFATE_' + re.sub(r'[^A-Za-z0-9]', '_', t)] = f
            before = set(glob.glob('/tmp/cproc-*'))
            try:
                p = subprocess.run([exe] + argv, cwd=cwd, env=env, stdin=subprocess.DEVNULL, stdout=subprocess.PIPE,
                                   stderr=subprocess.PIPE, timeout=20, start_new_session=True)
                status = p.returncode
            except subprocess.TimeoutExpired:
                status = 'timeout'
            after = set(glob.glob('/tmp/cproc-*'))
            leaked = sorted(after - before)
            for f in leaked:
                try:
                    os.unlink(f)
                except OSError:
                    pass
            n += 1
            want = 1 if fates else 0
            key = None
            if status != want:
                key = 'real/exit-status-%s-instead-of-%s' % (status, want)
            elif leaked:
                key = 'real/temporary-left-behind [%s]' % ('link' if argv[0] != '-c' else 'nolink')
            elif fates and outfile and os.path.exists(os.path.join(cwd, outfile)) and 'LD' not in fates:
                key = 'real/output-left-behind'
            elif not fates and outfile and not os.path.exists(os.path.join(cwd, outfile)):
                key = 'real/output-missing'
            results.append({'argv': argv, 'fates': fates, 'status': status, 'leaked_temporaries': len(leaked)})
            if key:
                chk.violation(key, 'real processes: cproc %s with %r: status %s, leaked %r' % (' '.join(argv), fates, status, leaked),
                              files={'scenario.txt': ('cproc %s\nfates %r\n' % (' '.join(argv), fates)).encode()})
    finally:
        shutil.rmtree(work, ignore_errors=True)
    return n, results


def main(chk):
    build.driver(TRIPLE)
    jobs = []
    for argv, ninputs in shapes(chk.quick):
        if chk.quick:
            jobs.append((argv, 1, 0, []))
            if ninputs == 1:
                jobs.append((argv, 1, 1, ['-L', '-F']))
            else:
                jobs.append((argv, 1, 1, []))
        else:
            jobs.append((argv, 1, 0, ['-L', '-F']))
            jobs.append((argv, 1, 1, ['-L']))
            if ninputs == 1 or not any(x in argv for x in ('a.c',)):
                jobs.append((argv, 2, 0, []))
            elif ninputs == 2 and argv.count('a.c') <= 1:
                jobs.append((argv, 2, 1, []))
    # biggest first for load balance
    jobs.sort(key=lambda j: -(j[1] * 10 + len(j[0])))
    tot = dict(executions=0, transitions=0, violating_executions=0, exit0=0, exit1=0, exit_other=0)
    maxdepth = 0
    fams = {}
    for a, st, viols in fs.pimap(_job, jobs):
        argv, bound, policy, flags = a
        if st is None:
            from ..runner import SubjectFailure
            raise SubjectFailure('explorer/no-result', 'the driver under the simulated world gave no exploration result for %r (crash or hang of the driver code outside an execution)' % (a,),
                                 cmd='# drvmc explore %s' % ' '.join(map(str, argv)))
        for k in tot:
            tot[k] += st[k]
        maxdepth = max(maxdepth, st['max_choice_depth'])
        for choices, what in viols:
            key = family(what, argv)
            exe = build.driver(TRIPLE)
            cmd = '%s run -b %d -p %d %s -c %s -- %s' % (exe, bound, policy, ' '.join(flags), choices or '0', ' '.join(argv))
            chk.violation(key, 'cproc %s, choice sequence %s: %s' % (' '.join(argv), choices, what),
                          files={'schedule.txt': ('argv: %s\nbound: %d\npolicy: %d\nflags: %s\nchoices: %s\n' % (
                              ' '.join(argv), bound, policy, ' '.join(flags), choices)).encode()}, cmd=cmd)
        chk.log('explore %s b=%d p=%d %s: %d executions, %d violating' % (' '.join(argv), bound, policy, ' '.join(flags), st['executions'], st['violating_executions']))
        if chk.expired():
            break
    nreal, real = real_conformance(chk)
    # determinism of the harness: the first few schedules replayed twice must give identical logs
    exe = build.driver(TRIPLE)
    det = 0
    for choices in ('0', '1', '0,0,0,1', '0,0,2'):
        o1 = subprocess.run([exe, 'run', '-b', '1', '-c', choices, '--', '-c', 'a.c'], stdout=subprocess.PIPE, stderr=subprocess.DEVNULL).stdout
        o2 = subprocess.run([exe, 'run', '-b', '1', '-c', choices, '--', '-c', 'a.c'], stdout=subprocess.PIPE, stderr=subprocess.DEVNULL).stdout
        det += 1
        if o1 != o2:
            chk.violation('harness/replay-nondeterministic', 'schedule %s gives different logs on replay' % choices)
    sample = subprocess.run([exe, 'run', '-b', '1', '-c', '0,0,0,0,0,0,3', '--', '-c', 'a.c'], stdout=subprocess.PIPE, stderr=subprocess.DEVNULL).stdout.decode(errors='replace')
    cov = {
        'states': tot['transitions'] + tot['executions'],
        'transitions': tot['transitions'],
        'traces_validated_against_impl': tot['executions'] + nreal,
        'samples': [{'argv': '-c a.c', 'bound': 1, 'choices': '0,0,0,0,0,0,3', 'event_log': sample.split('\n')[:40]}] + real[:3],
        'executions': tot['executions'],
        'violating_executions': tot['violating_executions'],
        'max_choice_depth': maxdepth,
        'distinct_outcomes': {'exit0': tot['exit0'], 'exit1': tot['exit1'], 'other': tot['exit_other']},
        'pipeline_shapes': len(set(tuple(j[0]) for j in jobs)),
        'explore_jobs': len(jobs),
        'real_process_scenarios': nreal,
        'replay_determinism_checks': det,
        'rule': 'execution = one complete run of the real driver.c in the simulated world under one choice sequence (fates, environment failures, '
                'termination and reaping order); all sequences with at most `bound` faults are enumerated depth-first; states counted as choice points visited; '
                'invariants I1 (status), I2 (no spawn after failure), I3 (all reaped), I4 (outputs/temporaries), I5 (no deadlock, no stray kill) in every execution',
    }
    return chk.finish(cov, [
        'world semantics (DESIGN.md C18): SIGTERM is fatal to tools; ok/late tools read until EOF; a writer with large output blocks while a read end is held and nobody drains',
        'quick: fault bound 1, all orders; thorough: bound 2 for the shapes listed in the evidence, large-output and foreign-child deviations',
    ])
