"""C09 — linkage and the symbol table follow C11 6.2.2 / 6.9.

K3 organised as histories of the linkage machine: every sequence of up to 3 (thorough 4) declarations of
one object identifier x and of one function identifier f (storage class x scope x initialiser/body x asm
label), followed by a use; observation = definitions/exports/thread marks/undefined references in the IL;
oracle = reference machine linkref (R), gcc -std=c11 -pedantic-errors + readelf consulted on every
disagreement (two-witness rule).
"""
import itertools
import os
import re
import shutil
import subprocess
import tempfile

from .. import fs, ilparse

LEVEL = 'model_checking'

# ---------------------------------------------------------------------------
# alphabet

OBJ_SYMS = []
for sc in ('', 'static', 'extern', '_Thread_local', 'static _Thread_local', 'extern _Thread_local'):
    for scope in ('file', 'block', 'nested'):
        for init in (False, True):
            OBJ_SYMS.append(('obj', sc, scope, init, None))
# a block two levels below the function body, WITHOUT a local that hides the file-scope declaration (seeded round 11: the visible prior
# declaration was searched in the directly enclosing scope only); declarations with linkage only, to keep the alphabet small
for sc in ('extern', 'extern _Thread_local'):
    OBJ_SYMS.append(('obj', sc, 'inner', False, None))
OBJ_SYMS += [('obj', '', 'file', True, 'nm'), ('obj', 'extern', 'file', False, 'nm'), ('obj', 'static', 'file', False, 'nm')]

FUN_SYMS = []
for sc in ('', 'static', 'extern', 'inline', 'extern inline', 'static inline'):
    FUN_SYMS.append(('fun', sc, 'file', False, None))
    FUN_SYMS.append(('fun', sc, 'file', True, None))
for sc in ('', 'extern', 'static'):
    FUN_SYMS.append(('fun', sc, 'block', False, None))
for sc in ('', 'extern'):
    FUN_SYMS.append(('fun', sc, 'inner', False, None))
FUN_SYMS += [('fun', '', 'file', True, 'fnm'), ('fun', 'extern', 'file', False, 'fnm')]


def render(hist, kind):
    out = []
    g = 0
    for i, (k, sc, scope, init, asm) in enumerate(hist):
        a = ' __asm__("%s")' % asm if asm else ''
        if k == 'obj':
            d = '%s%sint x%s%s;' % (sc, ' ' if sc else '', a, ' = %d' % (i + 1) if init else '')
        else:
            d = '%s%sint f(void)%s%s' % (sc, ' ' if sc else '', a, ' { return %d; }' % (i + 1) if init else ';')
        # a block-scope declaration with linkage is also USED inside its block: the reference must go to the same symbol
        haslink = (k == 'fun') or ('extern' in sc)
        if scope == 'file':
            out.append(d)
        elif scope == 'inner':
            g += 1
            if k == 'obj':
                out.append('void *g%d(int n) { while (n) { if (n > 1) { %s return &x; } n--; } return 0; }' % (g, d))
            else:
                out.append('int g%d(int n) { while (n) { if (n > 1) { %s return f(); } n--; } return 0; }' % (g, d))
        elif scope == 'block':
            g += 1
            if haslink and k == 'obj':
                out.append('void *g%d(void) { %s return &x; }' % (g, d))
            elif haslink and 'static' not in sc:
                out.append('int g%d(void) { %s return f(); }' % (g, d))
            else:
                out.append('void g%d(void) { %s }' % (g, d))
        else:
            g += 1
            if haslink and k == 'obj':
                out.append('void *g%d(void) { int x; { %s return &x; } }' % (g, d))
            else:
                out.append('void g%d(void) { int x; { %s } }' % (g, d))
    if kind == 'obj':
        out.append('void *use(void) { return &x; }')
    else:
        out.append('int use(void) { return f(); }')
    return '\n'.join(out) + '\n'


# ---------------------------------------------------------------------------
# reference machine


class Invalid(Exception):
    pass


class Ambiguous(Exception):
    pass


def linkref(hist, kind, stats=None):
    """Expected symbol table: dict(defs=set((name, 'data'|'func', 'global'|'local', thread)), nlocal=int (unique block-scope statics),
    undef=set(names)).  Raises Invalid / Ambiguous."""
    ident = 'x' if kind == 'obj' else 'f'
    st = None       # file-scope record: dict(linkage, thread, defined, tentative, asm, inline_all, any)
    nlocal = 0
    nlocal_thread = 0

    def note(state, sym):
        if stats is not None:
            key = None if state is None else (state['linkage'], state['thread'], state['defined'], state['tentative'], state.get('inline_only'))
            stats['states'].add(key)
            stats['transitions'].add((key, sym[1:4]))
    for sym in hist:
        k, sc, scope, init, asm = sym
        note(st, sym)
        if scope == 'inner':
            scope = 'block'     # a deeper block without a hiding local: the same rules as a block directly in the function body
        thread = '_Thread_local' in sc
        static = 'static' in sc
        extern = 'extern' in sc
        inline = 'inline' in sc
        if k == 'obj':
            if scope == 'file':
                if static:
                    link = 'internal'
                elif extern:
                    link = st['linkage'] if st else 'external'
                else:
                    link = 'external'
                if st:
                    if st['linkage'] != link:
                        raise Invalid('linkage disagreement')
                    if st['thread'] != thread:
                        raise Invalid('thread-local mismatch')
                    if asm != st['asm'] and asm is not None and st['asm'] is not None:
                        raise Ambiguous('two asm labels')
                    if asm and not st['asm']:
                        raise Ambiguous('asm label after a declaration without one')
                else:
                    st = dict(linkage=link, thread=thread, defined=False, tentative=False, asm=asm)
                if init:
                    if st['defined']:
                        raise Invalid('redefinition')
                    st['defined'] = True
                elif not extern:
                    st['tentative'] = True
            else:
                # block scope
                if thread and not (static or extern):
                    raise Invalid('_Thread_local at block scope without static or extern')
                if extern:
                    if init:
                        raise Invalid('block-scope extern with initializer')
                    if scope == 'nested':
                        # the visible declaration is the local `int x` without linkage: 6.2.2p4 gives external linkage
                        if st and st['linkage'] == 'internal':
                            raise Ambiguous('6.2.2p7: both linkages')
                        link = 'external'
                    else:
                        link = st['linkage'] if st else 'external'
                    if st:
                        if st['thread'] != thread:
                            raise Invalid('thread-local mismatch')
                    else:
                        # a block-scope extern does not make the identifier visible at file scope, but the
                        # entity exists; later file-scope declarations must agree (6.2.2p7 / 6.7p4 otherwise)
                        st = dict(linkage=link, thread=thread, defined=False, tentative=False, asm=None, blockonly=True)
                elif static:
                    nlocal += 1
                    nlocal_thread += thread
                # plain automatic: nothing
        else:
            if scope == 'block':
                if static:
                    raise Invalid('block-scope function with static')
                link = st['linkage'] if st else 'external'
                if not st:
                    st = dict(linkage=link, thread=False, defined=False, tentative=False, asm=None, inline_only=None, blockonly=True)
                continue
            if static:
                link = 'internal'
            else:
                link = st['linkage'] if st else 'external'
            if st:
                if st['linkage'] != link:
                    raise Invalid('linkage disagreement')
                if asm and not st['asm']:
                    raise Ambiguous('asm label after a declaration without one')
            else:
                st = dict(linkage=link, thread=False, defined=False, tentative=False, asm=asm, inline_only=None)
            # 6.7.4p7: all file-scope declarations inline and none extern => inline definition only
            this_inline_only = inline and not extern
            if st.get('inline_only') is None:
                st['inline_only'] = this_inline_only
            else:
                st['inline_only'] = st['inline_only'] and this_inline_only
            if init:
                if st['defined']:
                    raise Invalid('redefinition')
                st['defined'] = True
    note(st, ('end', 'end', 'end', 'end'))
    defs = set()
    undef = set()
    if st is None:
        raise Invalid('undeclared identifier used')
    if st.get('blockonly') and True:
        # only block-scope extern declarations: not visible in `use` => undeclared identifier
        allblock = all(s[2] != 'file' for s in hist if (s[0] == 'fun' or 'extern' in s[1]))
        if not any(s[2] == 'file' for s in hist):
            raise Invalid('identifier not visible at the use')
    name = st['asm'] or ident
    if kind == 'obj':
        if st['defined'] or st['tentative']:
            defs.add((name, 'data', 'global' if st['linkage'] == 'external' else 'local', st['thread']))
        else:
            undef.add(name)
    else:
        if st['defined']:
            if st['linkage'] == 'internal':
                defs.add((name, 'func', 'local', False))
            elif st['inline_only']:
                undef.add(name)
            else:
                defs.add((name, 'func', 'global', False))
        else:
            if st['linkage'] == 'internal':
                raise Ambiguous('internal function used but never defined (6.9p3; compilers only warn)')
            undef.add(name)
    # file-scope declaration must be visible for the use
    if not any(s[2] == 'file' for s in hist):
        raise Invalid('identifier not visible at the use')
    # the functions whose body uses the entity through a declaration with linkage: each must reference its symbol
    users, g = {'use'}, 0
    for k, sc, scope, init, asm in hist:
        if scope != 'file':
            g += 1
            if (k == 'obj' and 'extern' in sc) or (k == 'fun' and 'static' not in sc):
                users.add('g%d' % g)
    return dict(defs=defs, nlocal=nlocal, nlocal_thread=nlocal_thread, undef=undef, users=users, symbol=name)


# ---------------------------------------------------------------------------
# observation


def _nm(sym):
    """IL symbol -> plain name ($x, $"x" -> x)"""
    n = sym[1:]
    if len(n) >= 2 and n[0] == '"' and n[-1] == '"':
        n = n[1:-1]
    return n


def observe(il, ident):
    m = ilparse.parse(il)
    defs = []
    nlocal = nlocal_thread = 0
    defined = set()
    for d in m.data:
        n = _nm(d.name)
        defined.add(d.name)
        mm = re.fullmatch(r'\.L%s\.\d+' % ident, n)
        if mm:
            nlocal += 1
            nlocal_thread += d.thread
            continue
        if n.startswith('.L'):
            continue
        defs.append((n, 'data', 'global' if d.export else 'local', bool(d.thread)))
    for f in m.funcs:
        n = _nm(f.name)
        defined.add(f.name)
        if n in ('use',) or re.fullmatch(r'g\d+', n):
            continue
        defs.append((n, 'func', 'global' if f.export else 'local', False))
    refs = set()
    perfunc = {}
    for f in m.funcs:
        mine = perfunc.setdefault(_nm(f.name), set())
        for b in f.blocks:
            for ins in b.insts:
                for v in ins.args + [a for _, a in (ins.callargs or [])]:
                    if v[0] == 'glo':
                        refs.add(v[1])
                        mine.add(_nm(v[1]))
            if b.jump is not None and b.jump.arg is not None and b.jump.arg[0] == 'glo':
                refs.add(b.jump.arg[1])
                mine.add(_nm(b.jump.arg[1]))
    for d in m.data:
        for ty, v in d.items:
            if ty != 'z' and v[0] == 'sym':
                refs.add(v[1])
    undef = {_nm(r) for r in refs if r not in defined}
    dup = len(defs) != len(set((d[0]) for d in defs))
    return dict(defs=set(defs), nlocal=nlocal, nlocal_thread=nlocal_thread, undef=undef, dup=dup, perfunc=perfunc)


def gcc_observe(src, ident):
    """Symbol table according to gcc -std=c11 -pedantic-errors: same shape as observe(), or 'reject'."""
    d = tempfile.mkdtemp(prefix='c09.')
    try:
        c = os.path.join(d, 't.c')
        o = os.path.join(d, 't.o')
        open(c, 'w').write(src)
        p = subprocess.run(['gcc', '-std=c11', '-pedantic-errors', '-w', '-O0', '-fno-common', '-fno-pic', '-c', '-o', o, c],
                           stdout=subprocess.PIPE, stderr=subprocess.PIPE, timeout=60)
        if p.returncode != 0:
            return 'reject'
        r = subprocess.run(['readelf', '-sW', o], stdout=subprocess.PIPE, timeout=60).stdout.decode()
        defs, undef = set(), set()
        nlocal = nlocal_thread = 0
        for ln in r.splitlines():
            f = ln.split()
            if len(f) < 8 or not f[0].endswith(':') or f[3] not in ('OBJECT', 'FUNC', 'TLS', 'NOTYPE'):
                continue
            name, typ, bind, ndx = f[7], f[3], f[4], f[6]
            if name in ('use',) or re.fullmatch(r'g\d+', name) or not name:
                continue
            if ndx == 'UND':
                if name not in ('_GLOBAL_OFFSET_TABLE_', '__tls_get_addr'):
                    undef.add(name)
                continue
            if re.fullmatch(r'%s\.\d+' % ident, name):
                nlocal += 1
                nlocal_thread += typ == 'TLS'
                continue
            if typ == 'NOTYPE':
                continue
            defs.add((name, 'func' if typ == 'FUNC' else 'data', 'global' if bind == 'GLOBAL' else 'local', typ == 'TLS'))
        return dict(defs=defs, nlocal=nlocal, nlocal_thread=nlocal_thread, undef=undef, dup=False)
    finally:
        shutil.rmtree(d, ignore_errors=True)


def same(a, b):
    if 'users' in a and 'perfunc' in b:
        # every function that uses the entity through a declaration with linkage references the entity's symbol
        if any(a['symbol'] not in b['perfunc'].get(fn, ()) for fn in a['users']):
            return False
    return all(a[k] == b[k] for k in ('defs', 'nlocal', 'nlocal_thread', 'undef'))


def _job(batch):
    srv = fs.server('fs')
    out = []
    for kind, hist in batch:
        ident = 'x' if kind == 'obj' else 'f'
        src = render(hist, kind)
        try:
            exp = linkref(hist, kind)
        except Invalid as e:
            exp = ('invalid', str(e))
        except Ambiguous as e:
            exp = ('ambiguous', str(e))
        r = srv.compile(src)
        if r.status == 0:
            try:
                got = observe(r.out, ident)
            except Exception as e:  # unparsable IL
                got = ('unparsable', str(e))
        else:
            got = ('status', r.status)
        out.append((kind, hist, exp, got))
    return out


def fmt(t):
    if isinstance(t, tuple):
        return repr(t)
    return 'defs=%s locals=%d undef=%s' % (sorted(t['defs']), t['nlocal'], sorted(t['undef']))


def classify(kind, hist, exp, got):
    if isinstance(got, tuple):
        if got[0] == 'status' and got[1] == 1 and kind == 'obj':
            seen_tentative_thread = False
            for s in hist:
                if s[2] == 'file' and '_Thread_local' in s[1] and 'extern' not in s[1] and not s[3]:
                    seen_tentative_thread = True
                elif s[2] == 'file' and s[3] and seen_tentative_thread:
                    return 'obj/thread-local-tentative-definition-emitted-at-once-so-later-definition-is-refused'
        if got[0] == 'status' and got[1] == 1:
            return 'rejects-valid/%s/%s' % (kind, '+'.join(sorted({s[1] or 'none' for s in hist})))
        return 'crash-or-unparsable/%s' % (got,)
    missing = exp['defs'] - got['defs']
    extra = got['defs'] - exp['defs']
    if kind == 'fun' and missing and any(d[1] == 'func' and d[2] == 'global' for d in missing) and not extra \
            and any('inline' in s[1] and s[3] for s in hist):
        # the recorded defect: the declaration that makes the definition external comes AFTER the inline definition;
        # when one at or before the definition already does, the definition itself must have been emitted
        idef = next(i for i, s in enumerate(hist) if s[3] and s[2] == 'file')
        ext = [i for i, s in enumerate(hist) if s[2] == 'file' and ('inline' not in s[1] or 'extern' in s[1])]
        if ext and min(ext) > idef:
            return 'fun/inline-definition-not-emitted-although-another-declaration-makes-it-external'
        return 'fun/external-definition-not-emitted-although-a-declaration-up-to-the-definition-makes-it-external'
    if missing or extra:
        return '%s/definitions missing=%s extra=%s' % (kind, sorted(missing), sorted(extra))
    if exp['undef'] != got['undef']:
        return '%s/undefined-references expected=%s got=%s' % (kind, sorted(exp['undef']), sorted(got['undef']))
    lost = sorted(fn for fn in exp.get('users', ()) if exp['symbol'] not in got.get('perfunc', {}).get(fn, ()))
    if lost:
        return '%s/use-does-not-reference-the-symbol/%s' % (kind, '+'.join(sorted({s[1] or 'none' for s in hist if s[2] != 'file'})))
    return '%s/local-statics expected=%d got=%d' % (kind, exp['nlocal'], got['nlocal'])


# Units whose references to compiler-generated private symbols (.L*: string literals, compound literals, __func__, block-scope
# statics) are checked for closure: such a symbol cannot be defined by another unit, so every one that is referenced must be
# defined in this output, exactly once.
PRIVATE_UNITS = [
    ('func-name-in-code', 'const char *f(void) { return __func__; }'),
    ('func-name-in-static-initialiser', 'void f(void) { static const char *p = __func__; (void)p; }'),
    ('func-name-in-static-initialiser-and-code', 'const char *f(void) { static const char *p = __func__; (void)p; return __func__; }'),
    ('func-name-address-in-static-initialiser', 'void f(void) { static const char (*p)[2] = &__func__; (void)p; }'),
    ('func-name-element-address', 'void f(void) { static const char *p = &__func__[1]; (void)p; }'),
    ('func-name-unevaluated', 'unsigned long f(void) { return sizeof __func__; }'),
    ('func-name-in-two-functions', 'const char *f(void) { return __func__; } const char *g1(void) { static const char *q = __func__; return q; }'),
    ('string-in-static-initialiser', 'void f(void) { static const char *p = "abc"; (void)p; }'),
    ('string-in-file-scope-initialiser', 'const char *p = "abc"; const char *q = "abc" + 1; char (*r)[4] = &"abc";'),
    ('string-only-in-sizeof', 'unsigned long n = sizeof "abc";'),
    ('compound-literal-at-file-scope', 'int *p = (int[]){1, 2}; struct s { int a; } *q = &(struct s){3};'),
    ('compound-literal-in-static-initialiser', 'void f(void) { static int *p = (int[]){1, 2}; (void)p; }'),
    ('block-static-referenced-by-static', 'int *f(void) { static int a = 1; static int *p = &a; return p; }'),
    ('block-static-in-two-blocks', 'int f(int n) { if (n) { static int a = 1; return a++; } else { static int a = 2; static int *p = &a; return *p; } }'),
    ('block-static-unused', 'void f(void) { static int a = 1; }'),
    ('wide-strings', 'void f(void) { static const int *p = (const int *)L"ab"; static const unsigned short *q = u"ab"; (void)p; (void)q; }'),
    ('string-in-nested-initialiser', 'struct t { const char *n; struct { const char *m[2]; } in; } v = { "a", { { "b", "a" } } };'),
    ('func-name-in-nested-initialiser', 'void f(void) { static struct { const char *n[2]; } v = { { 0, __func__ } }; (void)v; }'),
]


def private_closure(chk):
    n = 0
    for name, src in PRIVATE_UNITS:
        for t in ('x86_64-sysv', 'aarch64', 'riscv64'):
            r = fs.server('fs').compile(src.encode(), target=t, cpu_s=10)
            n += 1
            if r.status != 0:
                w = subprocess.run(['gcc', '-std=c11', '-fsyntax-only', '-xc', '-'], input=src.encode(), stdout=subprocess.PIPE, stderr=subprocess.PIPE)
                if w.returncode == 0:
                    chk.violation('private/rejects-valid/' + name, 'unit %r (gcc accepts it) gives status %s: %s' % (src, r.status, r.err.decode(errors='replace')[:200]),
                                  files={'input.c': src.encode()}, cmd='$CPROC_QBE -t %s input.c' % t)
                continue
            o = observe(r.out, 'f')
            m = ilparse.parse(r.out)
            names = [d.name for d in m.data] + [f.name for f in m.funcs]
            missing = sorted(u for u in o['undef'] if u.startswith('.L'))
            twice = sorted(x for x in set(names) if names.count(x) > 1)
            if missing:
                chk.violation('private/generated-symbol-referenced-but-not-defined/' + name, 'unit %r refers to %s, which no definition in the output provides (target %s)' % (src, missing, t),
                              files={'input.c': src.encode()}, cmd='$CPROC_QBE -t %s input.c' % t)
            if twice:
                chk.violation('private/generated-symbol-defined-twice/' + name, 'unit %r defines %s more than once (target %s)' % (src, twice, t),
                              files={'input.c': src.encode()}, cmd='$CPROC_QBE -t %s input.c' % t)
    return n


# tentative definitions of arrays of unknown size (6.9.2p2, p5 EXAMPLE 2: defined at the end of the unit as if with one element, unless completed)
TENTATIVE_ARRAYS = [
    ('int a[];', 4), ('int a[]; int a[3];', 12), ('int a[3]; int a[];', 12), ('int a[]; int f(void) { return a[0]; }', 4), ('extern int a[]; int a[];', 4),
    ('int a[]; extern int a[];', 4), ('int a[]; int a[];', 4), ('double a[][2];', 16), ('int a[]; int a[] = {1, 2};', 8), ('typedef int T[]; T a; T b = {1, 2};', 4),
    ('char a[]; char *p = a;', 1), ('struct s { int x, y; }; struct s a[];', 8), ('extern int a[]; int *f(void) { return a; } int a[];', 4),
]


def tentative_arrays(chk):
    n = 0
    for src, size in TENTATIVE_ARRAYS:
        for t in ('x86_64-sysv', 'aarch64', 'riscv64'):
            r = fs.server('fs').compile(src.encode(), target=t, cpu_s=10)
            n += 1
            if r.status != 0:
                w = subprocess.run(['gcc', '-std=c11', '-fsyntax-only', '-xc', '-'], input=src.encode(), stdout=subprocess.PIPE, stderr=subprocess.PIPE)
                w2 = subprocess.run(['clang', '-std=c11', '-fsyntax-only', '-xc', '-'], input=src.encode(), stdout=subprocess.PIPE, stderr=subprocess.PIPE)
                if w.returncode == 0 and w2.returncode == 0:
                    chk.violation('tentative-array/rejected', 'unit %r (gcc and clang accept it) gives status %s: %s' % (src, r.status, r.err.decode(errors='replace')[:200]),
                                  files={'input.c': src.encode()}, cmd='$CPROC_QBE -t %s input.c' % t)
                continue
            m = ilparse.parse(r.out)
            ds = [d for d in m.data if _nm(d.name) == 'a']
            got = [(bool(d.export), len(ilparse.data_image(d)[0])) for d in ds]
            if len(ds) != 1 or not ds[0].export or (got[0][1] is not None and got[0][1] != size):
                chk.violation('tentative-array/definition', 'unit %r must define a exactly once, exported, with %d bytes; definitions found: %r' % (src, size, got),
                              files={'input.c': src.encode()}, cmd='$CPROC_QBE -t %s input.c' % t)
    return n


def main(chk):
    maxlen = 3 if chk.quick else 4
    stats = {'states': set(), 'transitions': set()}
    batch, batches = [], []
    total = 0
    for kind, syms in (('obj', OBJ_SYMS), ('fun', FUN_SYMS)):
        for n in range(1, maxlen + 1):
            for hist in itertools.product(syms, repeat=n):
                batch.append((kind, hist))
                total += 1
                if len(batch) == 500:
                    batches.append(batch)
                    batch = []
    if batch:
        batches.append(batch)
    chk.log('%d histories (%d object symbols, %d function symbols, length <= %d)' % (total, len(OBJ_SYMS), len(FUN_SYMS), maxlen))
    n = nvalid = ninvalid = namb = nacc_invalid = 0
    distinct = set()
    bad = []
    for res in fs.pimap(_job, batches):
        for kind, hist, exp, got in res:
            n += 1
            if isinstance(exp, tuple):
                if exp[0] == 'ambiguous':
                    namb += 1
                    continue
                ninvalid += 1
                if not isinstance(got, tuple):
                    nacc_invalid += 1
                    if got['dup']:
                        bad.append((kind, hist, exp, got))
                elif got[0] != 'status' or got[1] != 1:
                    bad.append((kind, hist, exp, got))
                continue
            nvalid += 1
            if not isinstance(got, tuple):
                distinct.add((frozenset(got['defs']), got['nlocal'], frozenset(got['undef'])))
            if isinstance(got, tuple) or not same(exp, got):
                bad.append((kind, hist, exp, got))
        if chk.expired():
            break
    # machine states/transitions of the reference model over the whole space (cheap: model only)
    for kind, syms in (('obj', OBJ_SYMS), ('fun', FUN_SYMS)):
        for nn in range(1, min(maxlen, 3) + 1):
            for hist in itertools.product(syms, repeat=nn):
                try:
                    linkref(hist, kind, stats)
                except (Invalid, Ambiguous):
                    pass
    nprivate = private_closure(chk) + tentative_arrays(chk)
    chk.log('%d disagreements to take to the witness' % len(bad))
    wamb = 0
    for kind, hist, exp, got in bad:
        src = render(hist, kind)
        ident = 'x' if kind == 'obj' else 'f'
        if isinstance(exp, tuple):
            # invalid by the model but accepted with a duplicate definition / crash
            w = gcc_observe(src, ident)
            if w != 'reject':
                wamb += 1
                continue
            if isinstance(got, tuple):
                key = 'crash/%s' % (got,)
            else:
                key = '%s/duplicate-definition-emitted-for-invalid-history' % kind
            chk.violation(key, 'history %s is invalid (%s; gcc rejects it) but the compiler gives %s' % (
                ' | '.join(' '.join(str(x) for x in s[1:]) for s in hist), exp[1], fmt(got)), files={'input.c': src.encode()}, cmd='$CPROC_QBE input.c')
            continue
        w = gcc_observe(src, ident)
        if w == 'reject' or not same(exp, w):
            wamb += 1
            if len(chk.notes) < 15:
                chk.notes.append('ambiguous (gcc disagrees with linkref): %s -> gcc %s, model %s' % (src.replace('\n', ' '), w if w == 'reject' else fmt(w), fmt(exp)))
            continue
        chk.violation(classify(kind, hist, exp, got), 'unit:\n%s expected %s\n got %s' % (src, fmt(exp), fmt(got)),
                      files={'input.c': src.encode()}, cmd='$CPROC_QBE input.c | grep -E "^(export|data|function|thread)"')
    h = (('obj', '', 'file', False, None), ('obj', 'static', 'block', True, None), ('obj', 'extern', 'file', False, None))
    cov = {
        'states': len(stats['states']),
        'transitions': len(stats['transitions']),
        'traces_validated_against_impl': n,
        'samples': [{'history': [' '.join(str(x) for x in s[1:]) for s in h], 'unit': render(h, 'obj'), 'expected': fmt(linkref(h, 'obj'))}],
        'private_symbol_closure_units': nprivate,
        'evaluations': n,
        'distinct_nontrivial': len(distinct),
        'valid_histories': nvalid,
        'invalid_by_reference': ninvalid,
        'invalid_but_accepted_handed_to_C10': nacc_invalid,
        'ambiguous': namb + wamb,
        'rule': 'state = linkage record (linkage, thread, defined, tentative, inline-only) of the reference machine, transition = (state, declaration symbol); '
                'every sequence of <= %d declaration symbols per identifier is rendered as a unit and compiled' % maxlen,
    }
    return chk.finish(cov, [
        'linkref implements C11 6.2.2, 6.9.2, 6.7.4p7, 6.7.1p3; histories with undefined behaviour (6.2.2p7) or on which gcc disagrees with it are ambiguous',
        'constraint violations that the compiler accepts are counted and left to C10, except when they lead to a symbol defined twice',
    ])
