"""C03 — every successful compilation yields a well-formed backend IL module.

K3: for every input of several completely enumerated families on which the compiler exits 0, the whole
output is validated by ilcheck (independent parser, class rules, CFG/dominance, call signatures, data
sizes); plus output integrity under write failures (status 0 never with truncated output).
"""
import glob
import os
import re
import subprocess

from .. import build, fs, ilcheck, ilexec, ilparse
from . import c19

LEVEL = 'exploration'
TARGETS = ('x86_64-sysv', 'aarch64', 'riscv64')

# ---------------------------------------------------------------------------
# statement grammar (histories of stmt.c's label/block bookkeeping)


ALLOC_LEAVES = ['g(@);', 'return @;', 'goto end;', 'L1: g(@);', 'goto L1;', 'die();', '{ T va; g(va[0]); }', '{ int vb[n]; g(vb[1]); }',
                '{ int *cl = (int[]){@, n}; g(cl[0]); }', '{ T2 vc; g(vc[0][1]); }', '{ int vd[n]; L1: g(vd[0]); }', '{ T ve; L1: g(ve[1]); if (n--) goto L1; }',
                'switch (v) { int vf[n]; case 3: g(vf[0]); }']


def stmt_trees(maxnodes, leaves=None):
    """Yield (text, nodes) for every statement tree with <= maxnodes nodes."""
    memo = {}

    def gen(n, loop, sw):
        key = (n, loop, sw)
        if key in memo:
            return memo[key]
        out = []
        if n == 1:
            out += leaves or ['g(@);', 'return @;', 'goto end;', ';', 'L1: g(@);', 'goto L1;', 'n = v ? n : @;', 'die();']
            if loop or sw:
                out.append('break;')
            if loop:
                out.append('continue;')
        else:
            for s in gen(n - 1, loop, sw):
                out.append('if (n) ' + s)
                out.append('{ int t = n; ' + s + ' }')
            for s in gen(n - 1, True, sw):
                out.append('while (n--) ' + s)
                out.append('do ' + s + ' while (n--);')
                out.append('for (i = 0; i < n; ++i) ' + s)
            for s in gen(n - 1, loop, True):
                out.append('switch (v) { case 1: ' + s + ' }')
                out.append('switch (v) { default: ' + s + ' }')
            for k in range(1, n - 1):
                for a in gen(k, loop, sw):
                    for b in gen(n - 1 - k, loop, sw):
                        out.append('if (n) ' + a + ' else ' + b)
                        out.append('{ ' + a + ' ' + b + ' }')
                for a in gen(k, loop, True):
                    for b in gen(n - 1 - k, loop, True):
                        out.append('switch (v) { case 1: ' + a + ' case 2: ' + b + ' }')
                        out.append('switch (v) { case 1: ' + a + ' default: ' + b + ' }')
        memo[key] = out
        return out
    for n in range(1, maxnodes + 1):
        for s in gen(n, False, False):
            yield s, n


def expr_trees(maxops):
    """Every expression with <= maxops operator nodes over {!, &&, ||, comma, ?:} and leaves {n, g(K), 0}:
    the constructs that create blocks and phis inside expressions."""
    memo = {}

    def gen(k):
        if k in memo:
            return memo[k]
        if k == 0:
            out = ['n', 'g(@)', '0', '(die(), @)']
        else:
            out = ['!(' + a + ')' for a in gen(k - 1)]
            for i in range(k):
                for a in gen(i):
                    for b in gen(k - 1 - i):
                        out.append('(' + a + ' && ' + b + ')')
                        out.append('(' + a + ' || ' + b + ')')
                        out.append('(' + a + ', ' + b + ')')
            for i in range(k):
                for j in range(k - i):
                    for a in gen(i):
                        for b in gen(j):
                            for d in gen(k - 1 - i - j):
                                out.append('(' + a + ' ? ' + b + ' : ' + d + ')')
        memo[k] = out
        return out
    for k in range(maxops + 1):
        for e in gen(k):
            yield e, k


def stmt_program(body):
    k = [0]

    def num(m):
        k[0] += 1
        return str(k[0])
    body = re.sub('@', num, body)
    return 'int g(int);\n_Noreturn void die(void);\nint f(int n, int v) {\n\tint i;\n\t%s\nend:\n\treturn n;\n}\n' % body


def alloc_program(body, tail):
    """statement trees whose leaves declare objects that need an alloc (a variable length array whose size was computed at a typedef,
    one whose size is computed at the declaration, a compound literal): in reachable and in unreachable places, with (tail) and without
    a labelled statement after the tree"""
    k = [0]

    def num(m):
        k[0] += 1
        return str(k[0])
    body = re.sub('@', num, body)
    pre = 'int g(int);\n_Noreturn void die(void);\n'
    if tail:
        return pre + 'int f(int n, int v) {\n\tint i;\n\ttypedef int T[n];\n\ttypedef T T2[2];\n\tT first;\n\tg(first[0]);\n\t%s\nend:\n\treturn n;\n}\n' % body
    body = re.sub(r'return \d+;', 'return;', body).replace('goto end;', 'return;')
    return pre + 'void f(int n, int v) {\n\tint i;\n\ttypedef int T[n];\n\ttypedef T T2[2];\n\t%s\n}\n' % body


OPS_TYPES = ['char', 'unsigned char', 'short', 'unsigned short', 'int', 'unsigned', 'long', 'unsigned long', 'float', 'double', '_Bool', 'enum oe', 'int *', 'long double']
OPS_BIN = ['+', '-', '*', '/', '%', '&', '|', '^', '<<', '>>', '<', '>', '<=', '>=', '==', '!=', '&&', '||']
OPS_ASG = ['=', '+=', '-=', '*=', '/=', '%=', '&=', '|=', '^=', '<<=', '>>=']


def ops_programs():
    """every binary operator, compound assignment, unary operator, conversion and conditional on every pair of operand types: the class of
    each emitted instruction must fit its operands (seeded round 9: 'cged' chosen for float operands).  Combinations C does not allow are
    refused by the compiler and do not count."""
    pre = 'enum oe { OE0, OE1 }; void sink(void *); int g(int);\n'
    for t in OPS_TYPES:
        for u in OPS_TYPES:
            body = []
            for op in OPS_BIN:
                yield '%s %s %s' % (t, op, u), pre + 'void f(%s a, %s b) { typeof(a %s b) r = a %s b; sink(&r); if (a %s b) g(1); while (a %s b) g(2); g(a %s b ? 3 : 4); }\n' % (t, u, op, op, op, op, op)
            for op in OPS_ASG:
                yield '%s %s %s' % (t, op, u), pre + 'void f(%s a, %s b) { a %s b; sink(&a); typeof(a %s b) r = (a %s b); sink(&r); }\n' % (t, u, op, op, op)
            yield '%s ?: %s' % (t, u), pre + 'void f(int c, %s a, %s b) { typeof(c ? a : b) r = c ? a : b; sink(&r); }\n' % (t, u)
            yield '(%s)%s' % (t, u), pre + 'void f(%s b) { %s r = (%s)b; sink(&r); %s i = b; sink(&i); }\n%s h(%s b) { return b; }\n' % (u, t, t, t, t, u)
        for op in ('-', '~', '!', '+', '++', '--'):
            yield '%s%s' % (op, t), pre + 'void f(%s a) { typeof(%sa) r = %sa; sink(&r); if (%sa) g(1); }\n' % (t, op, op, op)
        for op in ('++', '--'):
            yield '%s%s' % (t, op), pre + 'void f(%s a) { typeof(a%s) r = a%s; sink(&r); sink(&a); }\n' % (t, op, op)
        yield 'call %s' % t, pre + '%s callee(%s, ...); void f(%s a) { %s r = callee(a, a, a); sink(&r); }\n' % (t, t, t, t)


def signature_programs():
    """definitions and calls of the same function in one unit, for every parameter/return type kind, named and unnamed (C23) parameters,
    definition before or after the call, fixed and variadic: every call must agree in class with the signature of the definition, and every
    aggregate type must be defined before its first use (seeded round 11: the type of an unnamed aggregate parameter was not emitted)"""
    pre = 'struct sa { long a, b, c; }; union ua { double d; long l; }; struct sb { float x, y; }; struct sc { char c[3]; };\n'
    types = ['int', 'double', 'struct sa', 'union ua', 'struct sb', 'struct sc', 'struct sa *', 'char', 'float', '_Bool']
    for t in types:
        for r in ('void', 'int', t):
            for named in (True, False):
                for vari in ('', ', ...'):
                    pn = ' p' if named else ''
                    body = '{ %s }' % ('return;' if r == 'void' else 'return (%s){0};' % r if r.startswith(('struct', 'union')) else 'return 0;')
                    defn = '%s callee(%s%s, int n%s) %s\n' % (r, t, pn, vari, body)
                    proto = '%s callee(%s, int%s);\n' % (r, t, vari)
                    user = 'void user(%s *q) { %scallee(*q, 3%s); }\n' % (t, '' if r == 'void' else '(void)', ', *q, 1.5' if vari else '')
                    yield 'sig/def-first', pre + defn + user
                    yield 'sig/call-first', pre + proto + user + defn
                    yield 'sig/no-prototype-before-definition-only', pre + user.replace('callee', 'callee2') .replace('void user', proto.replace('callee', 'callee2') + 'void user') + defn.replace('callee', 'other')


DATA_UNIT = r'''
struct s1 { char c; int i; short s; };
struct bf { int a : 3; int b : 5; int : 0; unsigned c : 9; char d; };
struct fl { int n; char tail[]; };
union u1 { char c[5]; int i; double d; };
struct nest { struct s1 a[2]; union u1 u; char z; };
#define OBJ(n, decl) decl; unsigned long sz_##n = sizeof n, al_##n = _Alignof(typeof(n));
'''
DATA_OBJS = [
    ('o1', 'char o1 = 1'), ('o2', 'short o2 = 2'), ('o3', 'int o3 = 3'), ('o4', 'long o4 = 4'), ('o5', 'float o5 = 1.5f'), ('o6', 'double o6 = 2.5'),
    ('o7', 'char o7[] = "hello"'), ('o8', 'char o8[3] = "hello"[0] ? "hel" : "x"'), ('o9', 'char o9[10] = "ab"'), ('o10', 'unsigned short o10[] = u"wide"'),
    ('o11', 'int o11[5] = {1, 2}'), ('o12', 'int o12[] = {[7] = 1}'), ('o13', 'struct s1 o13 = {1, 2, 3}'), ('o14', 'struct s1 o14[3] = {[1].i = 5}'),
    ('o15', 'struct bf o15 = {1, 2, 3, 4}'), ('o16', 'struct bf o16 = {.c = 511}'), ('o17', 'union u1 o17 = {.i = 7}'), ('o18', 'union u1 o18 = {"abcd"}'),
    ('o19', 'struct nest o19 = {.u.d = 1.0, .z = 9}'), ('o20', 'int *o20 = &o3'), ('o21', 'char *o21 = o7 + 2'), ('o22', 'int (*o22)(int) = 0'),
    ('o23', '_Alignas(32) char o23[3] = {1}'), ('o24', '_Alignas(16) int o24'), ('o25', 'long o25[2][3] = {{1}, {2, 3}}'), ('o26', 'struct s1 o26'),
    ('o27', 'static int o27[4]'), ('o28', '_Thread_local int o28 = 5'), ('o31', '_Bool o31 = 1'),
    ('o32', 'unsigned o32[] = U"x"'), ('o33', 'struct { char a; long b; char c; } o33 = {1, 2, 3}'), ('o34', 'struct { char a; } o34[3] = {{1}, {2}, {3}}'),
    ('o35', 'const char *const o35[] = {"a", "bc", 0}'), ('o36', 'double o36[3] = {[2] = 1e300}'),
    ('o40', 'unsigned short o40[8] = u"ab"'), ('o41', 'unsigned o41[8] = U"ab"'), ('o42', 'typeof(L\' \') o42[6] = L"abc"'),
    ('o43', 'struct { unsigned short w[6]; char t; } o43 = { u"ab", 7 }'), ('o44', 'unsigned o44[2][4] = { U"a", U"bc" }'),
    ('o45', 'char o45[2][5] = { "a", "bcd" }'), ('o46', 'struct { char c[7]; int i; } o46[2] = { { "ab", 1 }, { "cdefgh", 2 } }'),
    ('o47', 'unsigned short o47[3] = u"abc"'), ('o48', 'char o48[9] = ""'), ('o49', 'unsigned o49[5] = U""'),
    ('o50', 'struct { int a : 7; int b : 9; int c : 17; char d; } o50 = { 1, 2, 3, 4 }'), ('o51', 'struct { long l : 40; short s; } o51 = { 5, 6 }'),
    ('o52', 'union { char c[3]; short s; } o52 = { "ab" }'), ('o53', 'long double o53'), ('o54', 'struct { char c; long double ld; } o54'),
]
# objects first declared while their structure or union type is still incomplete (the alignment is only known at the definition)
DATA_OBJS += [
    ('o200', 'struct late1; extern struct late1 o200; struct late1 { long a; int b; }; struct late1 o200 = {1, 2}'),
    ('o201', 'union late2; extern union late2 o201; union late2 { double d; char c; }; union late2 o201'),
    ('o202', 'struct late3; typedef struct late3 late3t; extern late3t o202; struct late3 { int a; short b; }; late3t o202 = {3, 4}'),
    ('o203', 'struct late4; extern _Thread_local struct late4 o203; struct late4 { long a; }; _Thread_local struct late4 o203 = {5}'),
    ('o204', 'struct late5; extern struct late5 o204; struct late5 { _Alignas(32) char c; }; struct late5 o204'),
    ('o205', 'extern int o205[]; int o205[3] = {1}'),
    ('o206', 'extern double o206[]; double o206[2]'),
]
# a bit-field that ends inside a byte (all ones, so the unfinished byte is not zero) followed by every kind of next member, adjacent or after a gap
_k = 60
for _w in (1, 3, 7, 8, 9, 12, 15, 17, 31):
    for _next in ('char n', 'short n', 'int n', 'long n', 'unsigned n : 5', 'char skip; int n', 'int : 0; unsigned n : 3', 'char n[3]', 'struct { char a; } n'):
        _init = '{ -1, %s }' % ('.n = 5' if 'skip' in _next or ': 0' in _next else '"ab"' if '[3]' in _next else '{5}' if 'struct' in _next else '5')
        DATA_OBJS.append(('o%d' % _k, 'struct { int b : %d; %s; } o%d = %s' % (_w, _next, _k, _init.replace('{ -1, .n', '{ .b = -1, .n'))))
        _k += 1
    DATA_OBJS.append(('o%d' % _k, 'struct { char pre; unsigned b : %d; char mid; unsigned c : %d; short post; } o%d = { 1, -1, 2, -1, 3 }' % (_w % 9 or 1, _w, _k)))
    _k += 1


def data_unit():
    src = [DATA_UNIT.replace('#define OBJ(n, decl) decl; unsigned long sz_##n = sizeof n, al_##n = _Alignof(typeof(n));\n', '')]
    for n, decl in DATA_OBJS:
        if n in ('o8',):
            continue
        src.append('%s;\nunsigned long sz_%s = sizeof %s, al_%s = _Alignof(typeof(%s));\n' % (decl, n, n, n, n))
    return ''.join(src)


def check_data_sizes(chk, il, target):
    """each data definition has exactly the size and at least the alignment of its C object"""
    m = ilparse.parse(il)
    objs = {d.name: d for d in m.data}
    n = 0

    def val(name):
        d = objs.get(name)
        if d is None:
            return None
        img, _ = ilparse.data_image(d)
        return int.from_bytes(img[:8], 'little')
    for name, decl in DATA_OBJS:
        d = objs.get('$' + name)
        sz, al = val('$sz_' + name), val('$al_' + name)
        if d is None or sz is None:
            continue
        n += 1
        img, _ = ilparse.data_image(d)
        if len(img) != sz:
            chk.violation('data-size/' + name, '%s (%s): data definition has %d bytes, sizeof is %d' % (decl, target, len(img), sz),
                          files={'input.c': data_unit().encode()}, cmd='$CPROC_QBE -t %s input.c | grep "%s ="' % (target, name))
        if (d.align or 1) < al:
            chk.violation('data-align/' + name, '%s (%s): data definition aligned %s, _Alignof is %d' % (decl, target, d.align, al),
                          files={'input.c': data_unit().encode()}, cmd='$CPROC_QBE -t %s input.c | grep "%s ="' % (target, name))
    return n


# ---------------------------------------------------------------------------


def family(problem):
    """stable key of an ilcheck problem: class tag + instruction/operand kind, without names and numbers"""
    tag, rest = problem.split(':', 1)
    rest = re.sub(r'function \$\S+( line \d+)?:', '', rest)
    rest = re.sub(r'[%@$:][\w.]+', 'X', rest)
    rest = re.sub(r'\d+', 'N', rest)
    return tag + ':' + rest.strip()[:70]


def _job(batch):
    srv = fs.server('fs')
    out = []
    for label, src, target in batch:
        r = srv.compile(src, target=target)
        if r.status != 0:
            out.append((label, r.status, None, None))
            continue
        if r.err:
            out.append((label, 0, ['diagnostic-with-status-0: stderr not empty: %r' % r.err[:100]], src))
            continue
        probs, _ = ilcheck.check(r.out)
        out.append((label, 0, probs, src if probs else None))
    return out


def main(chk):
    batches = []
    cur = []
    strata = {}

    def push(label, src, target='x86_64-sysv'):
        st = label.split('/')[0]
        strata[st] = strata.get(st, 0) + 1
        cur.append((label, src if isinstance(src, bytes) else src.encode(), target))
        if len(cur) >= 300:
            batches.append(list(cur))
            cur.clear()
    # (iii) corpus, all targets
    files = c19.corpus()
    for name, src, targ, pp in files:
        for t in TARGETS:
            push('corpus/%s/%s' % (name, t), src, t)
    # (ii) statement grammar
    maxn = 4 if chk.quick else 5
    for body, n in stmt_trees(maxn):
        push('stmt/%d' % n, stmt_program(body))
    for body, n in stmt_trees(3 if chk.quick else 4, ALLOC_LEAVES):
        push('alloc/%d' % n, alloc_program(body, True))
        push('alloc/%d' % n, alloc_program(body, False))
    for label, src in signature_programs():
        push(label, src)
        if not chk.quick:
            push('sig/aarch64', src, 'aarch64')
            push('sig/riscv64', src, 'riscv64')
    for label, src in ops_programs():
        push('ops/' + label.split(' ')[-2] if ' ' in label else 'ops/unary', src)
        if not chk.quick:
            push('ops/aarch64', src, 'aarch64')
            push('ops/riscv64', src, 'riscv64')
    for e, k in expr_trees(2 if chk.quick else 3):
        push('expr/%d' % k, stmt_program('n = ' + e + '; if (' + e + ') g(@); while (' + e + ') n = ' + e + ';'))
    # (iv) single-token mutants of the corpus that still compile
    small = set(f[0] for f in sorted(files, key=lambda f: len(f[1]))[:15])
    for name, src, targ, pp in files:
        if pp:
            continue
        if chk.quick and len(src) > 1200:
            continue
        for label, data in c19.mutants(name, src, True, name in small):
            if label.startswith(('trunc', 'byte')):
                continue
            push('mutant/%s/%s' % (name, label), data, targ)
    # (v) data definitions
    for t in TARGETS:
        push('data/' + t, data_unit(), t)
    if cur:
        batches.append(list(cur))
    chk.log('%d inputs in %d batches %r' % (sum(len(b) for b in batches), len(batches), strata))
    nrun = nok = 0
    okby = {}
    for res in fs.pimap(_job, batches):
        for label, status, probs, src in res:
            nrun += 1
            if status != 0:
                continue
            nok += 1
            st = label.split('/')[0]
            okby[st] = okby.get(st, 0) + 1
            for p in probs or []:
                chk.violation(st + '/' + family(p), '%s: %s' % (label, p), files={'input.c': src},
                              cmd='$CPROC_QBE %s input.c; echo "status=$?  ilcheck: %s"' % ('-t ' + label.split('/')[-1] if st == 'corpus' else '', p.replace('"', "'")[:150]))
        if chk.expired():
            break
    # data sizes
    srv = fs.server('fs')
    ndata = 0
    for t in TARGETS:
        r = srv.compile(data_unit(), target=t)
        if r.status != 0:
            chk.violation('data/unit-rejected', 'data unit rejected for %s: %s' % (t, r.err[:200]), files={'input.c': data_unit().encode()}, cmd='$CPROC_QBE -t %s input.c' % t)
        else:
            ndata += check_data_sizes(chk, r.out, t)
    # (iii') the compiler's own sources, preprocessed
    nown = own_sources(chk)
    # output integrity under write failures (shared with C19's I/O family)
    nio = c19.io_faults(chk) if chk.want('io') else 0
    cov = {
        'evaluations': nrun + nown + nio,
        'distinct_nontrivial': nok,
        'rule': 'every input of the families {corpus x 3 targets, all statement trees with <= %d nodes, single-token mutants of the corpus, data-definition unit, '
                "cproc's own preprocessed sources x 3 targets}; non-trivial = exit status 0, whose complete output is then validated by ilcheck" % maxn,
        'samples': [{'statement_program': stmt_program('while (n--) switch (v) { case 1: break; default: continue; }')},
                    {'ilcheck_rules': 'single definition, dominance, phi predecessors, operand classes, jump targets, termination, types defined first, call signatures, duplicate symbols'}],
        'strata_inputs': strata,
        'strata_status0_validated': okby,
        'own_sources_validated': nown,
        'data_objects_size_checked': ndata,
        'io_fault_runs': nio,
    }
    return chk.finish(cov, [
        'ilcheck re-implements the QBE 1.2 grammar and class rules from its documentation; QBE itself is not installed',
        'only whole-module well-formedness is judged here; whether the module means what the C program means is C01',
    ])


def own_sources(chk):
    srv = fs.server('fs')
    sd = build.srcdir()
    n = 0
    for name in build.compiler_srcs() + ['driver.c']:
        path = os.path.join(sd, name)
        extra = []
        if name == 'driver.c':
            cfg = os.path.join(build.repo(), 'config.h')
            if not os.path.exists(cfg):
                continue
            extra = ['-I', build.repo()]
        p = subprocess.run(['cpp'] + ilexec.CPP_FLAGS + extra + [path], stdout=subprocess.PIPE, stderr=subprocess.PIPE, timeout=120)
        if p.returncode != 0:
            chk.notes.append('cpp failed on %s' % name)
            continue
        for t in TARGETS:
            r = srv.compile(p.stdout, target=t, cpu_s=20)
            n += 1
            if r.status != 0:
                chk.violation('own-source-rejected', '%s for %s: status %d %s' % (name, t, r.status, r.err[:200]), files={'input.i': p.stdout},
                              cmd='$CPROC_QBE -t %s input.i > /dev/null' % t)
                continue
            probs, _ = ilcheck.check(r.out)
            for pr in probs:
                chk.violation('own/' + family(pr), '%s (%s): %s' % (name, t, pr), files={'input.i': p.stdout}, cmd='$CPROC_QBE -t %s input.i > /dev/null' % t)
    return n
