"""C07 — initialised objects contain exactly the specified initial image.

A fixed set of object types chosen so that every cursor move of the initialiser machine exists (descend, advance,
pop at the end of an array / struct / union, designator restart, brace elision, incomplete-array growth, string
into array, bit-field accumulation) x ALL initialiser lists up to a length bound over the item forms
      v | "s" | { I, ... } | .m = I | [k] = I | .m[k] = I ...
with values that are unique small integers (position 11, 12, ...) so that every byte of an image identifies its source.

static storage   the `data` definition is decoded to (bytes, relocations) and compared with the image BOTH witnesses
                 produce: the same unit compiled by gcc and clang -std=c11 -pedantic-errors with their default
                 warnings; witness verdict clean / warned / rejected per case (every case is one line of one big TU,
                 every diagnostic names its line).  Images are compared only when both are clean and identical;
                 both reject => cproc must reject.  The reference model R (6.7.9 interpreter below) must agree too.
automatic        the same declaration inside a function, dumped byte-wise (value bits only; pointers symbolically),
(oracle D)       executed through ilexec (cproc -> il2c -> gcc + ASan), must equal the same image.
variants         the same initialiser for a _Thread_local object and for a static compound literal must give the same
                 image; aarch64 and riscv64 must give the x86_64 image (equal layouts for every type of the set).

Keys: a difference that one of the triaged known-defect hypotheses (variants of R, see HYPOTHESES) reproduces exactly is
filed under that root cause; every other difference gets a generic key <observation>/<type kind>-<how it differs>, so a
new defect cannot hide under an old key.  Acceptance of what both witnesses reject is reported under accepts-invalid/...
(property C10's business); compiler crashes under crash/<site>.
"""
import itertools
import os
import re
import shutil
import struct
import subprocess

from .. import fs, ilexec
from .. import layout as L

LEVEL = 'model_checking'

# ---------------------------------------------------------------------------
# object types

S1 = L.Record('struct', 's1', [L.Member('a', L.INT), L.Member('b', L.Array(L.CHAR, 3)), L.Member('c', L.SHORT)])
S2 = L.Record('struct', 's2', [L.Member('a', L.CHAR), L.Member('b', L.SHORT)])
SS = L.Record('struct', 'ss', [L.Member('e', L.CHAR), L.Member('s', S1), L.Member('d', L.INT)])
U = L.Record('union', 'u', [L.Member('c', L.Array(L.CHAR, 4)), L.Member('i', L.INT)])
SU = L.Record('struct', 'su', [L.Member('a', L.INT), L.Member('u', U), L.Member('d', L.SHORT)])
_AU = L.Record('union', None, [L.Member('c', L.Array(L.CHAR, 2)), L.Member('h', L.SHORT)], inline=True)
_AS = L.Record('struct', None, [L.Member('x', L.CHAR), L.Member('y', L.CHAR)], inline=True)
SA = L.Record('struct', 'sa', [L.Member('a', L.INT), L.Member(None, _AU), L.Member(None, _AS), L.Member('z', L.CHAR)])
BF = L.Record('struct', 'bf', [L.Member('a', L.UINT, 3), L.Member('b', L.UINT, 5), L.Member(None, L.UINT, 0), L.Member('c', L.UINT, 9)])
BF2 = L.Record('struct', 'bf2', [L.Member('x', L.CHAR), L.Member('a', L.UINT, 3), L.Member('b', L.UINT, 5), L.Member('y', L.CHAR),
                                 L.Member('c', L.UINT, 9), L.Member('z', L.SHORT)])
BF3 = L.Record('struct', 'bf3', [L.Member('a', L.INT, 4), L.Member('b', L.LONG, 33), L.Member(None, L.UINT, 5), L.Member('c', L.UINT, 7),
                                 L.Member('d', L.UCHAR, 3)])
BF4 = L.Record('struct', 'bf4', [L.Member('a', L.LLONG if hasattr(L, 'LLONG') else L.LONG, 40), L.Member('b', L.LONG, 24), L.Member('c', L.LONG, 36), L.Member('d', L.INT)])
FAM = L.Record('struct', 'fam', [L.Member('n', L.INT), L.Member('h', L.SHORT), L.Member('d', L.Array(L.CHAR, None))])
FL = L.Record('struct', 'fl', [L.Member('f', L.FLOAT), L.Member('d', L.DOUBLE), L.Member('b', L.BOOL), L.Member('l', L.LONG)])
SP = L.Record('struct', 'sp', [L.Member('p', L.INTPTR), L.Member('s', L.CHARPTR), L.Member('f', L.FUNCPTR), L.Member('t', L.Array(L.CHAR, 4))])
GS = L.Record('struct', 'gs', [L.Member('a', L.CHAR), L.Member('c', L.INT)])
AL16 = L.Record('struct', 'al16', [L.Member('c', L.CHAR), L.Member('m', L.INT, alignas=16, alignas_spelling='_Alignas(16)'), L.Member('k', L.INT)])
AL32 = L.Record('struct', 'al32', [L.Member('a', L.SHORT), L.Member('b', L.Array(L.CHAR, 3), alignas=32, alignas_spelling='_Alignas(32)'), L.Member('z', L.CHAR)])
RECORDS = [S1, S2, SS, U, SU, SA, BF, BF2, BF3, BF4, FAM, FL, SP, GS, AL16, AL32]

# value makers: k = position of the value in the initialiser text -> (C text, semantic value)
#   semantic: ('int', n) | ('sym', name, addend, pointer type) | ('strp', bytes, addend)


def v_int(k):
    return str(11 + k), ('int', 11 + k)


def v_small(k):
    return str(1 + k % 7), ('int', 1 + k % 7)


def v_neg(k):
    """negative values: every bit above the low ones is set (wide signed bit-fields)"""
    return '-%d' % (2 + k % 5), ('int', -(2 + k % 5))


def v_gptr(k):
    return '&g[%d]' % (k % 8), ('sym', 'g', 4 * (k % 8), L.INTPTR)


def v_gsptr(k):
    return '&gs[%d].c' % (k % 4), ('sym', 'gs', 8 * (k % 4) + 4, L.INTPTR)


def v_f1(k):
    return 'f1', ('sym', 'f1', 0, L.FUNCPTR)


def v_f2(k):
    return '&f2', ('sym', 'f2', 0, L.FUNCPTR)


def v_strp(k):
    s = strbytes(k, 2)
    return '"%s" + 1' % s.decode(), ('strp', s + b'\0', 1)


def strbytes(k, n):
    """the n characters of the string literal at value position k (unique per position)"""
    return bytes(0x41 + (5 * k + i) % 26 + (0x20 if i else 0) for i in range(n))


class OT:
    """an object type of the case set"""

    def __init__(self, name, T, makers=(v_int,), strings=(), prefix='', kind='array'):
        self.name, self.T, self.makers, self.strings, self.prefix, self.kind = name, T, makers, strings, prefix, kind


TYPES = [
    OT('int', L.INT, kind='scalar'),
    OT('int3', L.Array(L.INT, 3)),
    OT('intN', L.Array(L.INT, None)),
    OT('int22', L.Array(L.Array(L.INT, 2), 2)),
    OT('char4', L.Array(L.CHAR, 4), strings=(1, 3, 4, 5), kind='chararray'),
    OT('charN', L.Array(L.CHAR, None), strings=(1, 3), kind='chararray'),
    OT('char23', L.Array(L.Array(L.CHAR, 3), 2), strings=(1, 3), kind='chararray'),
    OT('ushort3', L.Array(L.USHORT, 3), strings=(1, 3), prefix='u', kind='chararray'),
    OT('s1', S1, strings=(1, 3), kind='struct'),
    OT('ss', SS, strings=(2,), kind='struct'),
    OT('su', SU, strings=(3,), kind='union'),
    OT('sa', SA, strings=(1,), kind='anonymous-member'),
    OT('u', U, strings=(3,), kind='union'),
    OT('bf', BF, makers=(v_small,), kind='bitfield'),
    OT('bf2', BF2, makers=(v_small,), kind='bitfield'),
    OT('bf3', BF3, makers=(v_small,), kind='bitfield'),
    OT('bf4', BF4, makers=(v_neg,), kind='bitfield'),
    OT('al16', AL16, kind='overaligned'),
    OT('al32', AL32, strings=(3,), kind='overaligned'),
    OT('fam', FAM, strings=(1,), kind='flexible'),
    OT('s2x2', L.Array(S2, 2), kind='struct'),
    OT('s2xN', L.Array(S2, None), kind='struct'),
    OT('fl', FL, kind='struct'),
    OT('pint', L.INTPTR, makers=(v_gptr, v_gsptr, v_int), kind='pointer'),
    OT('pfn', L.FUNCPTR, makers=(v_f1, v_f2, v_gptr), kind='pointer'),
    OT('pchar', L.CHARPTR, makers=(v_strp, v_gptr), strings=(2,), kind='pointer'),
    OT('sp', SP, makers=(v_gptr, v_strp, v_f1, v_int), strings=(2,), kind='pointer'),
    OT('pchar2', L.Array(L.CHARPTR, 2), makers=(v_strp,), strings=(2,), kind='pointer'),
]
TYPE_BY_NAME = {t.name: t for t in TYPES}

PRELUDE = '\n'.join(r.definition() for r in RECORDS) + '\nextern int g[8];\nextern struct gs gs[4];\nint f1(void);\nint f2(void);\n'
PRELUDE_LINES = PRELUDE.count('\n')

# ---------------------------------------------------------------------------
# initialiser forms
#   init  = ('v', j) | ('s', nchars) | ('b', (item, ...))
#   item  = (designator, init);  designator = tuple of ('.', name) | ('[', k)


def children(T):
    """initialisable children of an aggregate: [(selector, type)] — named members (bit-fields included) and
    anonymous records; array elements are handled by index"""
    return [(f.member, f) for f in L.layout(T).fields]


def named_members(T):
    """names reachable by a member designator (through anonymous members) with their types"""
    out = []
    for f in L.layout(T).fields:
        m = f.member
        if m.name is None:
            out += named_members(m.type)
        else:
            out.append((m.name, m.type))
    return out


def desigs1(T):
    if isinstance(T, L.Array):
        idx = sorted({0, 1, T.n - 1}) if T.n else [0, 2]
        return [((('[', k),), T.elem) for k in idx if T.n is None or k < T.n]
    if isinstance(T, L.Record):
        return [((('.', n),), t) for n, t in named_members(T)]
    return []


def desig_paths(T, depth=2):
    out = []
    for d, t in desigs1(T):
        out.append((d, t))
        if depth > 1:
            out += [(d + d2, t2) for d2, t2 in desig_paths(t, depth - 1)]
    return out


def is_agg(t):
    return isinstance(t, (L.Array, L.Record))


def first_agg_child(T):
    if isinstance(T, L.Array):
        return T.elem if is_agg(T.elem) else None
    if isinstance(T, L.Record):
        for n, t in named_members(T):
            if is_agg(t):
                return t
    return None


V0 = ('v', 0)
B1 = ('b', (((), V0),))
B2 = ('b', (((), V0), ((), V0)))


def alphabets(ot):
    """(full, middle, reduced) item alphabets of an object type"""
    T = ot.T
    nm = len(ot.makers)
    full = [((), ('v', j)) for j in range(nm)]
    full += [((), ('s', n)) for n in ot.strings]
    full += [((), B1), ((), B2)]
    red = [((), V0)] + [((), ('v', j)) for j in range(1, nm)] + [((), ('s', n)) for n in ot.strings[-1:]] + [((), B1), ((), B2)]
    if ot.strings:
        full.append(((), ('b', (((), ('s', ot.strings[0])),))))
    sub = first_agg_child(T)
    if sub is not None:
        for d, _ in desigs1(sub)[-2:]:
            full.append(((), ('b', ((d, V0),))))
        red.append(full[-1])
    paths = desig_paths(T, 2)
    for d, t in paths:
        for j in range(nm):
            full.append((d, ('v', j)))
        if is_agg(t) or len(d) == 1:
            full.append((d, B1))
        if is_agg(t):
            full.append((d, B2))
        if ot.strings and (is_agg(t) or (isinstance(t, L.Scalar) and t.cls == 'ptr')):
            full.append((d, ('s', ot.strings[-1 if len(d) == 1 else 0])))
    p1 = [(d, t) for d, t in paths if len(d) == 1]
    p2 = [(d, t) for d, t in paths if len(d) == 2]
    if p1:
        red.append((p1[0][0], V0))
        if len(p1) > 1:
            red.append((p1[-1][0], V0))
        agg = [(d, t) for d, t in p1 if is_agg(t)]
        if agg:
            red.append((agg[0][0], B1))
    if p2:
        mid = p2[min(1, len(p2) - 1)]
        red.append((mid[0], V0))
    mid = list(red)
    if p1:
        agg = [(d, t) for d, t in p1 if is_agg(t)]
        if agg:
            mid.append((agg[0][0], B2))
            if len(agg) > 1:
                mid.append((agg[-1][0], B1))
        if ot.strings:
            tgt = [(d, t) for d, t in p1 if is_agg(t) or (isinstance(t, L.Scalar) and t.cls == 'ptr')]
            if tgt:
                mid.append((tgt[0][0], ('s', ot.strings[-1])))
    if p2:
        mid.append((p2[0][0], V0))
        mid.append((p2[-1][0], V0))
    elif isinstance(T, L.Record):
        mid += [(d, V0) for d, _ in p1]         # records of scalars / bit-fields: every member designator
    if sub is not None and desigs1(sub):
        mid.append(((), ('b', ((desigs1(sub)[0][0], V0),))))
    if ot.strings:
        mid.append(((), ('s', ot.strings[0])))

    def dedupe(xs):
        seen, out = set(), []
        for x in xs:
            if x not in seen:
                seen.add(x)
                out.append(x)
        return out
    return full, dedupe(mid)[:13], dedupe(red)


def render_init(ot, init, ctr, sem):
    """C text of an init; ctr = [next value position]; sem collects the semantic value per position"""
    if init[0] == 'v':
        k = ctr[0]
        ctr[0] += 1
        text, val = ot.makers[init[1]](k)
        sem.append(val)
        return text
    if init[0] == 's':
        k = ctr[0]
        ctr[0] += 1
        s = strbytes(k, init[1])
        sem.append(('str', s, ot.prefix))
        return '%s"%s"' % (ot.prefix, s.decode())
    return '{' + ', '.join(render_item(ot, it, ctr, sem) for it in init[1]) + '}'


def render_item(ot, item, ctr, sem):
    d, init = item
    pre = ''.join('.%s' % x[1] if x[0] == '.' else '[%d]' % x[1] for x in d)
    t = render_init(ot, init, ctr, sem)
    return (pre + ' = ' + t) if pre else t


def render_case(ot, top):
    """top = ('b', items) or a bare init.  -> (initialiser text, semantic values)"""
    sem = []
    return render_init(ot, top, [0], sem), sem


def decl_text(ot, name, init_text):
    return '%s = %s;' % (ot.T.decl(name), init_text)


def form_of(item):
    d, init = item
    ds = ''.join(x[0] for x in d)
    if init[0] == 'b':
        return ds + '{%d}' % len(init[1])
    return ds + init[0]


# ---------------------------------------------------------------------------
# reference model R: C11 6.7.9 as an interpreter over the type model


class Invalid(Exception):
    """the initialiser violates a constraint (or needs an extension) — R expects a diagnostic"""


class Frame:
    __slots__ = ('type', 'off', 'bits', 'idx', 'bf')

    def __init__(self, type, off, bits, bf=False):
        self.type, self.off, self.bits, self.idx, self.bf = type, off, bits, None, bf


def tsize_bits(t):
    return 8 * L.size_align(t)[0]


class RInit:
    def __init__(self, ot, sem, hyp=None, trace=None):
        self.ot, self.sem, self.trace = ot, sem, trace
        # known-defect hypotheses (variants of R used ONLY to file an already established difference under the right key)
        hyp = hyp or ()
        self.no_reset = 'no_reset' in hyp              # a brace list for an already initialised aggregate does not reset it
        self.bool_raw = 'bool_raw' in hyp              # a constant converted to _Bool keeps its value
        self.drop_empty = 'drop_empty' in hyp          # a leading {} item is ignored instead of initialising a subobject
        self.last_elem = 'last_elem' in hyp            # overriding the LAST element of a string-initialised array drops the string
        self.union_keep = 'union_keep' in hyp          # initialising another union member keeps the bytes of the previous one
        self.short_patch = 'short_patch' in hyp        # an element override beyond the end of a SHORTER string literal is lost
        self.strlit = {}
        self.strregions = {}
        self.pos = 0
        self.img = bytearray()
        self.rel = {}           # byte offset -> (size, target, addend)
        self.active = {}        # (bit offset, id(union type)) -> member index
        self.topn = None        # element count of a top-level incomplete array
        self.overflow = False   # a value did not fit its bit-field / type (implementation-defined result)

    # -- image primitives
    def ensure(self, nbytes):
        if len(self.img) < nbytes:
            self.img += bytes(nbytes - len(self.img))

    def zero(self, off, bits):
        self.ensure((off + bits + 7) // 8)
        n = int.from_bytes(self.img, 'little')
        n &= ~(((1 << bits) - 1) << off)
        self.img[:] = n.to_bytes(len(self.img), 'little')
        for o in [o for o in self.rel if off <= 8 * o < off + bits]:
            del self.rel[o]
        for k in [k for k in self.active if off <= k[0] < off + bits]:
            del self.active[k]
        for k in [k for k in self.strregions if off <= k and k + self.strregions[k] <= off + bits]:
            del self.strregions[k]

    def store(self, fr, val):
        t = fr.type
        self.ensure((fr.off + fr.bits + 7) // 8)
        for o in [o for o in self.rel if fr.off <= 8 * o < fr.off + fr.bits]:
            del self.rel[o]
        if self.short_patch:
            for rs, rb in self.strregions.items():
                if rs <= fr.off < rs + rb and fr.off >= rs + self.strlit.get(rs, rb):
                    return
        if self.last_elem:
            for rs, rb in list(self.strregions.items()):
                if rs < fr.off and rs + rb == fr.off + fr.bits:
                    self.zero(rs, rb)
                    self.strregions.pop(rs, None)
        if val[0] == 'widestrp':
            raise Invalid('incompatible-pointer')
        if val[0] == 'int':
            v = val[1]
            if t.cls == 'ptr':
                raise Invalid('integer-to-pointer')
            if t.cls == 'float':
                b = struct.pack('<f' if t.size == 4 else '<d', float(v))
                L.set_bits(self.img, fr.off, fr.bits, int.from_bytes(b, 'little'))
                return
            if t.cls == 'bool' and not self.bool_raw:
                v = 1 if v else 0
            lim = fr.bits - (1 if t.signed and t.cls != 'bool' else 0)
            if not (0 <= v < (1 << lim)):
                self.overflow = True
            L.set_bits(self.img, fr.off, fr.bits, v & ((1 << fr.bits) - 1))
            return
        if t.cls != 'ptr' or fr.bf:
            raise Invalid('pointer-to-integer')
        if val[0] == 'sym':
            if val[3] is not t:
                raise Invalid('incompatible-pointer')
            self.rel[fr.off // 8] = (8, ('sym', val[1]), val[2])
        else:           # pointer into a string literal
            if t is not L.CHARPTR:
                raise Invalid('incompatible-pointer')
            self.rel[fr.off // 8] = (8, ('str', val[1]), val[2])
        L.set_bits(self.img, fr.off, fr.bits, 0)

    # -- navigation
    def child(self, fr, idx):
        """frame of child idx of aggregate frame fr (switching the active member of a union resets it)"""
        t = fr.type
        if isinstance(t, L.Array):
            es = tsize_bits(t.elem)
            return Frame(t.elem, fr.off + idx * es, es)
        f = L.layout(t).fields[idx]
        if t.kind == 'union':
            key = (fr.off, id(t))
            if key in self.active and self.active[key] != idx and not self.union_keep:
                self.zero(fr.off, tsize_bits(t))
            self.active[key] = idx
        m = f.member
        if isinstance(m.type, L.Array) and m.type.n is None:
            raise Invalid('flexible-array-member-initialised')
        return Frame(m.type, fr.off + f.bitoff, f.bits, m.width is not None)

    def nchildren(self, fr):
        t = fr.type
        if isinstance(t, L.Array):
            return t.n          # None: unbounded (top-level incomplete array)
        if t.kind == 'union':
            return 1 if fr.idx is None else fr.idx + 1      # only the selected member
        return len(L.layout(t).fields)

    def push_child(self, st, idx):
        fr = st[-1]
        fr.idx = idx
        st.append(self.child(fr, idx))
        if fr is self.rootframe and isinstance(fr.type, L.Array) and fr.type.n is None:
            self.topn = max(self.topn or 0, idx + 1)

    def find_member(self, st, name):
        """push frames down to member `name` of the record on top of st (through anonymous members)"""
        fr = st[-1]
        for i, f in enumerate(L.layout(fr.type).fields):
            m = f.member
            if m.name == name:
                self.push_child(st, i)
                return True
            if m.name is None and m.width is None and any(n == name for n, _ in named_members(m.type)):
                self.push_child(st, i)
                return self.find_member(st, name)
        return False

    def value(self):
        v = self.sem[self.pos]
        self.pos += 1
        return v

    def skip_values(self, init):
        if init[0] == 'b':
            for _, i in init[1]:
                self.skip_values(i)
        else:
            self.pos += 1

    # -- the machine
    def run(self, top):
        T = self.ot.T
        size = L.size_align(T)[0] if not (isinstance(T, L.Array) and T.n is None) else 0
        self.ensure(size)
        root = self.rootframe = Frame(T, 0, tsize_bits(T) if size else 0)
        if self.trace:
            self.trace((self.ot.name, (), 0), form_of(((), top)))
        if top[0] == 'b':
            if is_agg(T):
                self.init_list(root, top[1], 1, ())
            else:
                self.scalar_braces(root, top[1])
        elif top[0] == 's' and self.is_char_array(T, self.sem[self.pos]):
            self.string(root, self.value())
        elif is_agg(T):
            raise Invalid('aggregate-needs-braces')
        else:
            v = self.value()
            if v[0] == 'str':
                v = self.decay(v)
            self.store(root, v)
        if isinstance(T, L.Array) and T.n is None:
            if not self.topn:
                raise Invalid('empty-incomplete-array')
            size = self.topn * L.size_align(T.elem)[0]
            self.ensure(size)
        rel = [(o,) + self.rel[o] for o in sorted(self.rel)]
        return size, bytes(self.img[:size]), rel

    @staticmethod
    def decay(v):
        return ('strp', v[1] + bytes(2 if v[2] else 1), 0) if not v[2] else ('widestrp',)

    def is_char_array(self, t, v):
        if not (isinstance(t, L.Array) and isinstance(t.elem, L.Scalar) and v[0] == 'str'):
            return False
        if v[2] == 'u':
            return t.elem is L.USHORT
        return t.elem in (L.CHAR, L.SCHAR, L.UCHAR)

    def string(self, fr, v):
        t = fr.type
        w = t.elem.size
        chars = [c for c in v[1]]
        if t.n is None:
            if fr is not self.rootframe:
                raise Invalid('flexible-array-member-initialised')
            n = len(chars) + 1
            self.topn = max(self.topn or 0, n)
        else:
            n = t.n
            if len(chars) > n:
                raise Invalid('string-too-long')
        self.zero(fr.off, 8 * w * n)
        self.strregions[fr.off] = 8 * w * n
        self.strlit[fr.off] = 8 * w * (len(chars) + 1)
        for i, c in enumerate(chars[:n]):
            L.set_bits(self.img, fr.off + 8 * w * i, 8 * w, c)

    def scalar_braces(self, fr, items):
        if len(items) == 0:
            self.zero(fr.off, fr.bits)         # C23 empty initialiser
            return
        if len(items) != 1 or items[0][0] or items[0][1][0] == 'b':
            raise Invalid('scalar-brace-list')
        v = self.value()
        if v[0] == 'str':
            v = self.decay(v)
        if v == ('widestrp',):
            raise Invalid('incompatible-pointer')
        self.store(fr, v)

    def init_list(self, root, items, depth, prefix):
        T = root.type
        if not self.no_reset:
            self.zero(root.off, tsize_bits(T) if not (isinstance(T, L.Array) and T.n is None) else 0)
        root.idx = None
        st = [root]
        have = False
        if items and not items[0][0] and items[0][1][0] == 's' and self.is_char_array(T, self.sem[self.pos]):
            # 6.7.9p14: a string literal "optionally enclosed in braces" initialises the character array itself
            self.string(root, self.value())
            if len(items) > 1:
                raise Invalid('excess-elements')
            return
        if self.drop_empty:
            while items and items[0] == ((), ('b', ())):
                items = items[1:]
        for d, init in items:
            if d:
                del st[1:]
                for x in d:
                    fr = st[-1]
                    if x[0] == '[':
                        if not isinstance(fr.type, L.Array):
                            raise Invalid('index-designator-for-non-array')
                        if fr.type.n is not None and x[1] >= fr.type.n:
                            raise Invalid('index-out-of-range')
                        if fr.type.n is None and fr is not self.rootframe:
                            raise Invalid('flexible-array-member-initialised')
                        self.push_child(st, x[1])
                    else:
                        if not isinstance(fr.type, L.Record):
                            raise Invalid('member-designator-for-non-record')
                        if not self.find_member(st, x[1]):
                            raise Invalid('no-such-member')
            elif not have:
                self.descend(st)
            else:
                self.advance(st)
            have = True
            if self.trace:
                self.trace((self.ot.name, prefix + tuple(f.idx for f in st[:-1]), depth), form_of((d, init)))
            self.apply(st, init, depth, prefix)

    def descend(self, st):
        fr = st[-1]
        if self.nchildren(fr) == 0 or (isinstance(fr.type, L.Record) and not L.layout(fr.type).fields):
            raise Invalid('nothing-to-initialise')
        self.push_child(st, 0)

    def advance(self, st):
        while True:
            st.pop()
            par = st[-1]
            n = self.nchildren(par)
            if n is None or par.idx + 1 < n:
                self.push_child(st, par.idx + 1)
                return
            if len(st) == 1:
                raise Invalid('excess-elements')

    def apply(self, st, init, depth, prefix):
        while True:
            fr = st[-1]
            t = fr.type
            if init[0] == 'b':
                if is_agg(t):
                    if isinstance(t, L.Array) and t.n is None:
                        raise Invalid('flexible-array-member-initialised')
                    self.init_list(Frame(t, fr.off, fr.bits), init[1], depth + 1, prefix + tuple(f.idx for f in st[:-1]))
                else:
                    self.scalar_braces(fr, init[1])
                return
            v = self.sem[self.pos]
            if self.is_char_array(t, v):
                self.string(fr, self.value())
                return
            if not is_agg(t):
                v = self.value()
                if v[0] == 'str':
                    v = self.decay(v)
                if v == ('widestrp',):
                    raise Invalid('incompatible-pointer')
                self.store(fr, v)
                return
            self.descend(st)        # brace elision


HYPOTHESES = (('no_reset', 'image/aggregate-reinit-keeps-stale-members'),
              ('bool_raw', 'image/bool-member-not-converted-to-0-or-1'),
              ('drop_empty', 'image/leading-empty-braces-ignored'),
              ('last_elem', 'image/string-lost-when-last-array-element-overridden'),
              ('union_keep', 'image/union-member-switch-keeps-previous-member'),
              ('short_patch', 'image/override-beyond-shorter-string-literal-lost'))


def explain(ot, top, sem, match):
    """key of the known-defect hypothesis whose image satisfies match(image key), else None"""
    for h, key in HYPOTHESES:
        R = model(ot, top, sem, hyp=(h,))
        if R[0] == 'ok' and match((R[1], R[2], tuple(R[3]))):
            return key
    # two known defects at once: filed under the first of the pair
    for (h1, key), (h2, _) in itertools.combinations(HYPOTHESES, 2):
        R = model(ot, top, sem, hyp=(h1, h2))
        if R[0] == 'ok' and match((R[1], R[2], tuple(R[3]))):
            return key
    return None


def model(ot, top, sem, hyp=None, trace=None):
    """('ok', size, image, relocs, overflow) or ('invalid', reason)"""
    r = RInit(ot, sem, hyp, trace)
    try:
        size, img, rel = r.run(top)
    except Invalid as e:
        return ('invalid', str(e))
    return ('ok', size, img, rel, r.overflow, dict(r.strregions))


# ---------------------------------------------------------------------------
# enumeration of the cases


def lists(alpha, n):
    return itertools.product(alpha, repeat=n)


def gen_cases(quick):
    """yields (stratum, type index, top)"""
    for ti, ot in enumerate(TYPES):
        full, mid, red = alphabets(ot)
        # bare initialisers
        for j in range(len(ot.makers)):
            yield 'bare', ti, ('v', j)
        for n in ot.strings[:2] or (1,):
            yield 'bare', ti, ('s', n)
        bound_full = 2 if quick else (3 if len(full) <= 40 else 2)
        for n in range(1, bound_full + 1):
            for items in lists(full, n):
                yield 'len%d-full' % n, ti, ('b', items)
        lo, hi = bound_full + 1, (3 if quick else 4)
        for n in range(lo, hi + 1):
            alpha = mid if n == 3 else red
            for items in lists(alpha, n):
                yield 'len%d-%s' % (n, 'middle' if n == 3 else 'reduced'), ti, ('b', items)
        # C23 empty braces (compared with the witnesses in GNU mode)
        E = ((), ('b', ()))
        yield 'empty-braces', ti, ('b', ())
        for it in red:
            yield 'empty-braces', ti, ('b', (E, it))
            yield 'empty-braces', ti, ('b', (it, E))
            if it[0]:
                yield 'empty-braces', ti, ('b', ((it[0], ('b', ())),))
                yield 'empty-braces', ti, ('b', (((), V0), (it[0], ('b', ()))))


# ---------------------------------------------------------------------------
# witnesses: one big TU, one case per line; verdict per line

_diag_re = re.compile(r'^(?:<stdin>|-):(\d+):(?:\d+:)? (warning|error|fatal error): ')

WFLAGS = {
    'gcc': ['gcc', '-S', '-O0', '-fno-common', '-fno-pic', '-x', 'c', '-', '-o', '-'],
    # -Winitializer-overrides flags EVERY later designator for an already initialised subobject — the very thing
    # 6.7.9p19 defines and this property is about; it says nothing about validity, so it is switched off
    'clang': ['clang', '--target=x86_64-linux-gnu', '-S', '-O0', '-fno-common', '-ferror-limit=0', '-Wno-initializer-overrides',
              '-x', 'c', '-', '-o', '-'],
}


def witness_run(name, lines, gnu):
    cmd = list(WFLAGS[name])
    cmd[1:1] = ['-std=gnu11'] if gnu else ['-std=c11', '-pedantic-errors']
    src = PRELUDE + '\n'.join(lines) + '\n'
    p = subprocess.run(cmd, input=src.encode(), stdout=subprocess.PIPE, stderr=subprocess.PIPE, timeout=300)
    diags = {}
    for ln in p.stderr.decode(errors='replace').splitlines():
        m = _diag_re.match(ln)
        if m:
            i = int(m.group(1)) - PRELUDE_LINES - 1
            sev = 'error' if 'error' in m.group(2) else 'warning'
            if diags.get(i) != 'error':
                diags[i] = sev
    return p.returncode, p.stdout, diags


def witness_verdicts(name, decls, gnu=False):
    """decls: {case id: declaration line}.  -> {case id: ('clean'|'warned'|'rejected'|'unknown', image key or None)}"""
    ids = sorted(decls)
    verdict = {}
    live = ids
    objs = None
    for _ in range(4):
        if not live:
            break
        rc, out, diags = witness_run(name, [decls[i] for i in live], gnu)
        if -1 in diags or any(k < 0 for k in diags):
            return {i: ('unknown', None) for i in ids}     # diagnostic in the prelude: infrastructure problem
        errs = {live[k] for k, s in diags.items() if s == 'error' and 0 <= k < len(live)}
        warns = {live[k] for k, s in diags.items() if s == 'warning' and 0 <= k < len(live)}
        for i in errs:
            verdict[i] = ('rejected', None)
        if rc == 0:
            try:
                objs = L.parse_asm(out)
            except L.AsmError:
                objs = None
            for i in live:
                if i in errs:
                    continue
                o = objs.get('x%d' % i) if objs else None
                if o is None:
                    verdict[i] = ('unknown', None)
                else:
                    verdict[i] = ('warned' if i in warns else 'clean', (o.size, o.image, tuple(L.resolve_relocs(objs, o))))
            return verdict
        if not errs:
            break
        live = [i for i in live if i not in errs]
    for i in ids:
        verdict.setdefault(i, ('unknown', None))
    return verdict


# ---------------------------------------------------------------------------
# cproc side

CPROC_FILES = {'attr.c', 'decl.c', 'eval.c', 'expr.c', 'init.c', 'map.c', 'pp.c', 'qbe.c', 'scan.c', 'scope.c', 'stmt.c', 'targ.c', 'token.c',
               'tree.c', 'type.c', 'utf.c', 'util.c', 'main.c'}


def crash_class(status, err, src=None):
    e = err.decode('latin-1')
    if src is not None and re.search(r'\bstruct\s+sa\s+x\w*\s*=\s*\{[^;]*\.', src) and 'emitdata' not in e:
        # designators into the type with an anonymous member walk an unset cursor (uninitialised pointer): where the
        # compiler dies depends on stack contents, so the site cannot serve as identity; the construct does
        return 'crash/anonymous-member-designator'
    if 'Assertion' not in e and src is not None:
        # no assertion text: ask the ASan+UBSan build where it dies (crash-site class as in C19)
        try:
            r = fs.server('fs-asan').compile(src, cpu_s=10)
            e2 = r.err.decode('latin-1')
            m = re.search(r'(\w+\.c):\d+: (\w+): Assertion `(.*?)\' failed', e2)
            if m:
                e = e2
            else:
                fr = None
                for ln in e2.splitlines():
                    m = re.search(r'#\d+ 0x[0-9a-f]+ in (\w+) .*?/(\w+\.c):', ln)
                    if m and m.group(2) in CPROC_FILES:
                        fr = m.group(1)
                        break
                m = re.search(r'runtime error: (.*)', e2)
                if m and fr:
                    msg = re.sub(r'0x[0-9a-f]+', 'ADDR', m.group(1))
                    msg = re.sub(r"type '[^']*'", 'type T', re.sub(r'-?\d+', 'N', msg))
                    return 'crash/ubsan-%s-%s' % (fr, re.sub(r'[^A-Za-z0-9_]+', '_', msg)[:50])
                m = re.search(r'AddressSanitizer: ([\w-]+)', e2)
                if m and fr:
                    return 'crash/asan-%s-%s' % (m.group(1), fr)
        except Exception:
            pass
    m = re.search(r'(\w+\.c):\d+: (\w+): Assertion `(.*?)\' failed', e)
    if m:
        return 'crash/assert-%s-%s' % (m.group(2), re.sub(r'[^A-Za-z0-9_>=<!.-]+', '_', m.group(3))[:50])
    # no site could be established: qualify the signal by the object's type so that the class stays narrow
    m = re.search(r'\b(struct|union)\s+(\w+)\s+x\w*\s*=', src)
    ty = '@' + m.group(2) if m else ''
    if status >= 1000:
        return 'crash/signal-%d%s' % (status - 1000, ty)
    return 'crash/status-%d%s' % (status, ty)


def cproc_static(srv, ot, i, text, target='x86_64-sysv'):
    """-> (status, image key or None, align, stderr)"""
    r = srv.compile(PRELUDE + text + '\n', target=target, cpu_s=5)
    if r.status != 0:
        return r.status, None, None, r.err
    try:
        objs = L.parse_qbe_data(r.out)
    except L.AsmError as e:
        return 0, ('unreadable', str(e)), None, b''
    o = objs.get('x%d' % i)
    if o is None:
        return 0, ('unreadable', 'no definition emitted'), None, b''
    return 0, (o.size, o.image, tuple(L.resolve_relocs(objs, o))), o.align, b''


VARIANT_STRATA = ('bare', 'len1-full', 'len2-full')


def variants(ot, i, itext):
    """[(name, unit text, object name)]: the same initialiser for a thread-local object and for a static compound literal"""
    T = ot.T
    out = [('thread', '_Thread_local ' + decl_text(ot, 'x%d' % i, itext), 'x%d' % i)]
    if itext.startswith('{'):
        out.append(('compound-literal', '%s = &(%s)%s;' % (T.decl('(*x%d)' % i), T.decl('').strip(), itext), 'x%d' % i))
    return out


def sized_type(ot, size):
    T = ot.T
    if isinstance(T, L.Array) and T.n is None:
        es = L.size_align(T.elem)[0]
        return L.Array(T.elem, size // es if es else 0)
    return T


def diff_class(exp, got):
    """coarse description of how an image differs"""
    if got[0] != exp[0]:
        return 'size'
    if got[2] != exp[2]:
        return 'relocation'
    stale = missing = other = 0
    for a, b in zip(exp[1], got[1]):
        if a != b:
            if a == 0:
                stale += 1
            elif b == 0:
                missing += 1
            else:
                other += 1
    if other:
        return 'wrong-value'
    if stale and missing:
        return 'misplaced'
    return 'not-zeroed' if stale else 'missing-value'


# ---------------------------------------------------------------------------
# oracle D: automatic storage

D_RUNTIME = r'''
int printf(const char *, ...);
int g[8];
struct gs gs[4];
int f1(void) { return 1; }
int f2(void) { return 2; }
static void dump(const void *p, unsigned long n) {
	const unsigned char *c = p;
	unsigned long i;
	for (i = 0; i < n; i++)
		printf("%02x", c[i]);
	printf("\n");
}
static void dp(const void *pp, int kind) {
	const char *p = *(const char *const *)pp;
	if (!p)
		printf("null\n");
	else if (kind == 0 && p >= (const char *)g && p <= (const char *)(g + 8))
		printf("g%+ld\n", (long)(p - (const char *)g));
	else if (kind == 0 && p >= (const char *)gs && p <= (const char *)(gs + 4))
		printf("gs%+ld\n", (long)(p - (const char *)gs));
	else if (kind == 1)
		printf("s:%s\n", p);
	else if (kind == 2 && p == (const char *)f1)
		printf("f1+0\n");
	else if (kind == 2 && p == (const char *)f2)
		printf("f2+0\n");
	else
		printf("?\n");
}
'''


def ptr_slots(T, base=0):
    """[(byte offset, kind)] of the pointer leaves of T; kind 0 object, 1 string, 2 function"""
    out = []
    for _, off, bits, t, bf in L.leaves(T):
        if isinstance(t, L.Scalar) and t.cls == 'ptr':
            out.append((off // 8, {id(L.INTPTR): 0, id(L.CHARPTR): 1, id(L.FUNCPTR): 2}[id(t)]))
    return out


def d_expected(ot, key):
    """lines the dump of an object holding image `key` prints"""
    size, img, rel = key
    T = sized_type(ot, size)
    mask = bytearray(L.value_mask(T))
    slots = ptr_slots(T)
    for off, _ in slots:
        mask[off:off + 8] = bytes(8)
    lines = [bytes(a & b for a, b in zip(img, mask)).hex()]
    relmap = {r[0]: r for r in rel}
    for off, kind in slots:
        r = relmap.get(off)
        if r is None:
            lines.append('null')
        elif r[2][0] == 'str':
            s = r[2][1][r[3]:]
            lines.append('s:' + s.split(b'\0')[0].decode('latin-1'))
        else:
            lines.append('%s%+d' % (r[2][1], r[3]))
    return lines, bytes(mask)


def d_function(ot, i, init_text):
    T = ot.T
    body = '%s = %s; dump(&x, sizeof x);' % (T.decl('x'), init_text)
    return 'void c%d(void) { %s DP%d }' % (i, body, i)


def d_run(cases, workdir):
    """cases: [(id, ot, init text, expected image key)] all accepted by cproc inside a function.
    -> {id: (expected lines, observed lines)} or raises RuntimeError on infrastructure problems"""
    funcs = []
    for i, ot, init_text, key in cases:
        T = sized_type(ot, key[0])
        dps = ' '.join('dp((const char *)&x + %d, %d);' % (off, kind) for off, kind in ptr_slots(T))
        funcs.append(d_function(ot, i, init_text).replace('DP%d' % i, dps))
    src = PRELUDE.replace('extern int g[8];\nextern struct gs gs[4];\nint f1(void);\nint f2(void);\n', '') + D_RUNTIME + '\n'.join(funcs) + '\n'
    src += 'static void (*const tab[])(void) = { %s };\n' % ', '.join('c%d' % c[0] for c in cases)
    src += 'static const int ids[] = { %s };\n' % ', '.join(str(c[0]) for c in cases)
    src += 'int main(void) { int i; for (i = 0; i < %d; i++) { printf("#%%d\\n", ids[i]); tab[i](); } return 0; }\n' % len(cases)
    st, out, err = ilexec.exec_program(src, workdir, name='d')
    res = {}
    cur = None
    for ln in out.decode('latin-1').splitlines():
        if ln.startswith('#'):
            cur = int(ln[1:])
            res[cur] = []
        elif cur is not None:
            res[cur].append(ln)
    return st, res, err


# ---------------------------------------------------------------------------
# worker


def job(batch):
    """batch = (stratum, [(case id, type index, top)], do_D)"""
    stratum, cases, do_d = batch
    gnu = stratum == 'empty-braces'
    srv = fs.server('fs')
    states, trans = set(), set()

    def tr(s, f):
        states.add(s)
        trans.add((s, f))

    out = {'stratum': stratum, 'cases': len(cases), 'evals': 0, 'compared': 0, 'witness_warned': 0, 'witness_split': 0, 'witness_differ': 0,
           'expected_reject': 0, 'model_disagrees': [], 'viol': [], 'distinct': set(), 'sample': None, 'd_run': 0, 'd_compared': 0,
           'cross_target': 0, 'witness_unknown': 0, 'ambiguous': 0, 'amb_samples': [], 'witness_reject_model_accepts': 0, 'variants': 0}
    info = {}
    decls = {}
    for i, ti, top in cases:
        ot = TYPES[ti]
        itext, sem = render_case(ot, top)
        text = decl_text(ot, 'x%d' % i, itext)
        decls[i] = text
        R = model(ot, top, sem, trace=tr)
        st, key, align, err = cproc_static(srv, ot, i, text)
        out['evals'] += 1
        info[i] = dict(ot=ot, top=top, sem=sem, itext=itext, text=text, R=R, st=st, key=key, align=align, err=err)
    wg = witness_verdicts('gcc', decls, gnu)
    wc = witness_verdicts('clang', decls, gnu)
    dcases = []
    for i, ti, top in cases:
        c = info[i]
        ot, R, st, key = c['ot'], c['R'], c['st'], c['key']
        vg, vc = wg[i], wc[i]
        crashed = st not in (0, 1)
        if crashed:
            out['viol'].append((crash_class(st, c['err'], PRELUDE + c['text'] + '\n'), i, ti, c['text'], 'compiler status %d: %s' % (st, c['err'].decode('latin-1')[-200:].strip()),
                                'witnesses: gcc %s, clang %s' % (vg[0], vc[0])))
        if 'unknown' in (vg[0], vc[0]):
            out['witness_unknown'] += 1
            if len(out['amb_samples']) < 2:
                out['amb_samples'].append(('witness verdict unknown: gcc %s, clang %s' % (vg[0], vc[0]), c['text']))
            continue
        if vg[0] == 'rejected' and vc[0] == 'rejected':
            if R[0] != 'invalid':
                # both witnesses refuse what the reference model takes for valid (e.g. C23 `int x = {};` in GNU C11): not judged
                out['witness_reject_model_accepts'] += 1
                if len(out['amb_samples']) < 2:
                    out['amb_samples'].append(('witnesses reject, model accepts', c['text']))
                continue
            out['expected_reject'] += 1
            if st == 0:
                why = R[1]
                out['viol'].append(('accepts-invalid/' + why, i, ti, c['text'], 'gcc and clang -std=c11 -pedantic-errors reject this initialiser, cproc accepts it', ''))
            continue
        if 'warned' in (vg[0], vc[0]):
            out['witness_warned'] += 1
            continue
        if vg[0] != vc[0]:
            out['witness_split'] += 1
            if len(out['amb_samples']) < 2:
                out['amb_samples'].append(('witness verdicts split: gcc %s, clang %s' % (vg[0], vc[0]), c['text']))
            continue
        # both clean
        if vg[1] != vc[1]:
            out['witness_differ'] += 1
            if len(out['amb_samples']) < 3:
                out['amb_samples'].append(('witness images differ: gcc %s clang %s' % (_k(vg[1]), _k(vc[1])), c['text']))
            continue
        exp = vg[1]
        out['distinct'].add(hash(exp))
        Rkey = (R[1], R[2], tuple(R[3])) if R[0] == 'ok' else None
        if Rkey != exp:
            out['model_disagrees'].append((c['text'], R if R[0] == 'invalid' else _k(Rkey), _k(exp)))
            continue
        if do_d:
            dcases.append((i, ot, c['itext'], exp))
        if crashed:
            continue
        out['compared'] += 1
        if st == 1:
            out['viol'].append(('rejects-valid/%s' % ot.kind, i, ti, c['text'], 'gcc and clang accept without any diagnostic, cproc: %s' % c['err'].decode('latin-1').strip()[-160:], _k(exp)))
            continue
        if key != exp:
            if key[0] == 'unreadable':
                fam = 'image/unreadable-definition'
            else:
                fam = explain(ot, top, c['sem'], lambda k: k == key) or 'image/%s-%s' % (ot.kind, diff_class(exp, key))
            out['viol'].append((fam, i, ti, c['text'], 'expected (size, bytes, relocations) %s' % (_k(exp),), 'cproc %s' % (_k(key),)))
            continue
        al = L.size_align(sized_type(ot, exp[0]))[1]
        if c['align'] != al:
            out['viol'].append(('definition-alignment/%s' % ot.kind, i, ti, c['text'], 'data definition aligned %s, _Alignof is %d' % (c['align'], al), ''))
        # the other targets must produce the same image (all three are little-endian LP64 with equal layouts for these types)
        for tg in ('aarch64', 'riscv64'):
            st2, key2, al2, err2 = cproc_static(srv, ot, i, c['text'], tg)
            out['cross_target'] += 1
            if st2 != 0 or key2 != exp:
                out['viol'].append(('target-%s/%s' % (tg, 'status-%d' % st2 if st2 else 'image-differs'), i, ti, c['text'], 'x86_64 image %s' % (_k(exp),), 'on %s: %s' % (tg, _k(key2) if key2 else st2)))
        # thread storage and static compound literals take the same initialiser to the same image
        if stratum in VARIANT_STRATA:
            for vname, vtext, vobj in variants(ot, i, c['itext']):
                r = srv.compile(PRELUDE + vtext + '\n', cpu_s=5)
                out['variants'] += 1
                k2 = None
                if r.status == 0:
                    try:
                        objs = L.parse_qbe_data(r.out)
                        o = objs.get(vobj)
                        if vname == 'compound-literal' and o is not None and len(o.relocs) == 1 and o.relocs[0][3] == 0:
                            o = objs.get(o.relocs[0][2])
                        if o is not None:
                            k2 = (o.size, o.image, tuple(L.resolve_relocs(objs, o)))
                            if vname == 'thread' and not re.search(r'thread [^\n]*data \$%s ' % vobj, r.out.decode('latin-1')):
                                k2 = ('unreadable', 'definition is not marked thread')
                    except L.AsmError as e:
                        k2 = ('unreadable', str(e))
                if r.status not in (0, 1):
                    out['viol'].append((crash_class(r.status, r.err, PRELUDE + vtext + '\n').replace('crash/', 'crash/%s-' % vname), i, ti, vtext, 'compiler status %d' % r.status, ''))
                elif k2 != exp:
                    out['viol'].append(('%s/%s' % (vname, 'rejected' if r.status else ('unreadable' if not k2 or k2[0] == 'unreadable' else diff_class(exp, k2))), i, ti, vtext,
                                        'expected the image of the plain static object %s' % (_k(exp),), 'cproc: %s' % (_k(k2) if k2 else r.err.decode('latin-1').strip()[-160:])))
        if out['sample'] is None and len(c['itext']) > 12:
            out['sample'] = {'stratum': stratum, 'declaration': c['text'], 'expected_image': exp[1].hex(), 'expected_relocations': [str(r) for r in exp[2]],
                             'observed_image': key[1].hex(), 'witnesses': 'gcc clean, clang clean, identical'}
    # oracle D
    if dcases:
        ok = []
        for i, ot, itext, exp in dcases:
            r = srv.compile(PRELUDE + 'void f(void) { %s = %s; }\n' % (ot.T.decl('x'), itext), cpu_s=5)
            if r.status == 0:
                ok.append((i, ot, itext, exp))
            elif r.status == 1:
                out['viol'].append(('auto/rejects-valid-%s' % ot.kind, i, TYPES.index(ot), 'void f(void) { %s = %s; }' % (ot.T.decl('x'), itext),
                                    'accepted with static storage by all, rejected with automatic storage: %s' % r.err.decode('latin-1').strip()[-160:], ''))
            else:
                out['viol'].append((crash_class(r.status, r.err, PRELUDE + 'void f(void) { %s = %s; }\n' % (ot.T.decl('x'), itext)).replace('crash/', 'crash/auto-'), i, TYPES.index(ot),
                                    'void f(void) { %s = %s; }' % (ot.T.decl('x'), itext), 'compiler status %d' % r.status, ''))
        if ok:
            wd = ilexec.workdir('c07.')
            try:
                st, res, err = d_run(ok, wd)
            except Exception as e:      # il2c / gcc could not build the program: report once per batch
                st, res, err = 'build-failed', {}, str(e).encode()[-300:]
            finally:
                shutil.rmtree(wd, ignore_errors=True)
            out['d_run'] += 1
            for i, ot, itext, exp in ok:
                lines, mask = d_expected(ot, exp)
                got = res.get(i)
                out['d_compared'] += 1
                if got is None or len(got) != len(lines):
                    out['viol'].append(('auto/exec-%s' % (st if st != 0 else 'no-output'), i, TYPES.index(ot), 'void f(void) { %s = %s; }' % (ot.T.decl('x'), itext),
                                        'the program printing the automatic objects ended with %s: %s' % (st, err.decode('latin-1')[-300:]), ''))
                    break
                g0 = bytes(a & b for a, b in zip(bytes.fromhex(got[0]), mask)).hex() if len(got[0]) == 2 * len(mask) else got[0]
                if [g0] + got[1:] != lines:
                    fam = 'auto/%s-%s' % (ot.kind, 'pointer' if g0 == lines[0] else diff_class((exp[0], bytes.fromhex(lines[0]), ()), (exp[0], bytes.fromhex(g0), ())) if len(g0) == len(lines[0]) else 'size')
                    fam = explain(ot, info[i]['top'], info[i]['sem'], lambda k: k[0] == exp[0] and d_expected(ot, k)[0] == [g0] + got[1:]) or fam
                    if fam.startswith('auto/') and got[1:] == lines[1:] and len(g0) == len(lines[0]):
                        # every differing byte lies in an array that was initialised by a string literal and reads as zero:
                        # "automatic object: bytes of a string are zeroed again after a later override inside it"
                        regs = info[i]['R'][5]
                        eb, gb = bytes.fromhex(lines[0]), bytes.fromhex(g0)
                        bad = [j for j in range(len(eb)) if eb[j] != gb[j]]
                        if bad and all(gb[j] == 0 and any(rs <= 8 * j < rs + rb for rs, rb in regs.items()) for j in bad):
                            fam = 'auto/string-bytes-zeroed-after-override-inside-string'
                    out['viol'].append((fam, i, TYPES.index(ot), 'void f(void) { %s = %s; }' % (ot.T.decl('x'), itext),
                                        'automatic object: expected value bytes/pointers %s' % lines, 'observed %s' % ([g0] + got[1:])))
    out['states'], out['trans'] = states, trans
    return out


def _k(key):
    if key is None or isinstance(key, str):
        return key
    if key[0] == 'unreadable':
        return key
    return (key[0], key[1].hex(), [('%d:%s%+d' % (r[0], r[2][1] if r[2][0] == 'sym' else repr(r[2][1]), r[3])) for r in key[2]])


# ---------------------------------------------------------------------------


STE_ELEMS = (('char', 1, ''), ('unsigned short', 2, 'u'), ('unsigned', 4, 'U'))
STE_STRINGS = ('', 'a', 'abc')
STE_N = 6


def string_then_element_units():
    """(source, {object name: expected image bytes}) for character arrays initialised by a string that is shorter than the array and
    then patched by one or two element designators, at EVERY index (inside the literal, on its null, directly behind it, further
    behind, the last element), as a structure member and as a row of a two-dimensional array, for 1-, 2- and 4-byte elements."""
    for et, w, pre in STE_ELEMS:
        for st in STE_STRINGS:
            lit = '%s"%s"' % (pre, st)
            base = [ord(c) for c in st] + [0] * (STE_N - len(st))
            desigs = [((i, 0x41 + i),) for i in range(STE_N)] + [((i, 0x61), (j, 0x62)) for i in range(STE_N) for j in range(STE_N) if i != j and abs(i - j) <= 2]
            decls, exp = [], {}
            for k, ds in enumerate(desigs):
                vals = list(base)
                for i, v in ds:
                    vals[i] = v
                img = b''.join(int(v).to_bytes(w, 'little') for v in vals)
                dm = ', '.join('.s[%d] = %d' % (i, v) for i, v in ds)
                dr = ', '.join('[0][%d] = %d' % (i, v) for i, v in ds)
                decls.append('struct { %s s[%d]; int k; } m%d = { .s = %s, %s, .k = 7 };' % (et, STE_N, k, lit, dm))
                koff = (STE_N * w + 3) // 4 * 4
                exp['m%d' % k] = img + b'\0' * (koff - STE_N * w) + (7).to_bytes(4, 'little')
                decls.append('%s r%d[2][%d] = { %s, %s };' % (et, k, STE_N, lit, dr))
                exp['r%d' % k] = img + b'\0' * (STE_N * w)
            yield '\n'.join(decls) + '\n', exp, (et, st)


def string_then_element(chk):
    srv = fs.server('fs')
    n = 0
    for src, exp, (et, st) in string_then_element_units():
        r = srv.compile(src, cpu_s=10)
        if r.status != 0:
            chk.violation('string-then-element/rejected', 'unit rejected (status %s): %s' % (r.status, r.err[:200]), files={'input.c': src.encode()})
            continue
        objs = L.parse_qbe_data(r.out)
        for name, img in exp.items():
            n += 1
            o = objs.get(name)
            got = bytes(o.image) if o is not None else None
            want = img
            if got != want:
                line = [l for l in src.split('\n') if (' %s ' % name) in l or (' %s[' % name) in l or ('} %s =' % name) in l]
                pos = 'string-then-element/%s' % ('member' if name.startswith('m') else 'row')
                chk.violation(pos, '%s: expected image %s, data definition gives %s' % (line[0] if line else name, want.hex(), got.hex() if got is not None else None),
                              files={'input.c': ((line[0] if line else src) + '\n').encode()}, cmd='$CPROC_QBE input.c')
    return n


def shared_typedef(chk):
    """Objects declared through one typedef of an array of unknown size: every initialiser completes the type of ITS object only
    (static and automatic storage, int/char/struct elements, string initialisers).  Expected sizes follow from the initialiser."""
    srv = fs.server('fs')
    elems = [('int', 4, ['{1, 2, 3}', '{7}', '{[4] = 1}', '{1, 2}']), ('char', 1, ['"abc"', '"x"', '{1, 2, 3, 4, 5}', '""']),
             ('struct { short a; char b; }', 4, ['{{1, 2}, {3, 4}}', '{{5}}', '{[2] = {6, 7}}', '{1, 2, 3}'])]
    counts = {'{1, 2, 3}': 3, '{7}': 1, '{[4] = 1}': 5, '{1, 2}': 2, '"abc"': 4, '"x"': 2, '{1, 2, 3, 4, 5}': 5, '""': 1,
              '{{1, 2}, {3, 4}}': 2, '{{5}}': 1, '{[2] = {6, 7}}': 3}
    n = 0
    for ei, (et, esz, inits) in enumerate(elems):
        cnt = dict(counts)
        if et.startswith('struct'):
            cnt['{1, 2, 3}'] = 2
        for order in itertools.permutations(range(len(inits)), 3):
            decls = ['typedef %s A%d[];' % (et, ei)]
            exp = {}
            for k, ii in enumerate(order):
                decls.append('A%d o%d = %s;' % (ei, k, inits[ii]))
                exp['o%d' % k] = cnt[inits[ii]] * esz
            decls.append('unsigned long sz[] = {%s};' % ', '.join('sizeof o%d' % k for k in range(3)))
            decls.append('void f(void) { A%d l0 = %s; A%d l1 = %s; static unsigned long lsz[] = {sizeof l0, sizeof l1}; }' % (ei, inits[order[0]], ei, inits[order[1]]))
            # compound literals written with the typedef: each literal is completed by its own initialiser too
            cl = [('(A%d)%s' % (ei, inits[ii] if inits[ii].startswith('{') else '{%s}' % inits[ii])) for ii in order]
            decls.append('unsigned long csz[] = {%s};' % ', '.join('sizeof(%s)' % c for c in cl))
            decls.append('void g(void) { static unsigned long lcsz[] = {%s}; }' % ', '.join('sizeof(%s)' % c for c in reversed(cl)))
            src = '\n'.join(decls) + '\n'
            r = srv.compile(src, cpu_s=10)
            n += 1
            if r.status != 0:
                chk.violation('typedef-array/rejected', 'unit rejected (status %s): %s' % (r.status, r.err[:200]), files={'input.c': src.encode()})
                continue
            objs = L.parse_qbe_data(r.out)
            got = {k: (len(objs[k].image) if k in objs else None) for k in exp}
            szs = struct.unpack('<3Q', objs['sz'].image) if 'sz' in objs else None
            lk = [k for k in objs if k.startswith('.Llsz')]
            lsz = struct.unpack('<2Q', objs[lk[0]].image) if lk else None
            want_l = (cnt[inits[order[0]]] * esz, cnt[inits[order[1]]] * esz)
            want_c = tuple(cnt[inits[ii]] * esz for ii in order)
            csz = struct.unpack('<3Q', objs['csz'].image) if 'csz' in objs else None
            ck = [k for k in objs if k.startswith('.Llcsz')]
            lcsz = struct.unpack('<3Q', objs[ck[0]].image) if ck else None
            if csz != want_c or lcsz != tuple(reversed(want_c)):
                chk.violation('typedef-array/compound-literal-completes-the-shared-typedef', 'typedef %s A[]; compound literals (A)%s: sizeof at file scope %r, in a function (reverse order) %r; expected %r' % (
                    et, [inits[i] for i in order], csz, lcsz, want_c), files={'input.c': src.encode()}, cmd='$CPROC_QBE input.c | grep csz')
            if got != exp or szs != tuple(exp['o%d' % k] for k in range(3)) or lsz != want_l:
                chk.violation('typedef-array/initialiser-completes-the-shared-typedef', 'typedef %s A[]; objects initialised with %s: image sizes %r, sizeof %r, automatic sizeof %r; expected %r and %r' % (
                    et, [inits[i] for i in order], got, szs, lsz, exp, want_l), files={'input.c': src.encode()}, cmd='$CPROC_QBE input.c | grep "^export data\|^data"')
    return n


def empty_braces(chk):
    """Empty braces (C23 6.7.10, accepted by cproc and tested by test/initializer-empty.c) as the initialiser of an element of an array:
    every sequence of {} / {k} / {k, k} / nested forms for the rows of int[3][2], int[][2], int[2][2][2] and a structure holding an array;
    the expected image is computed here (an element with empty braces is zero, the next initialiser belongs to the NEXT element)."""
    srv = fs.server('fs')
    n = 0
    rows = (('{}', (0, 0)), ('{%d}', None), ('{%d, %d}', None), ('{[1] = %d}', None))

    def rowval(form, k):
        if form == '{}':
            return '{}', (0, 0)
        if form == '{%d}':
            return form % k, (k, 0)
        if form == '{%d, %d}':
            return form % (k, k + 1), (k, k + 1)
        return form % k, (0, k)
    for cnt in (1, 2, 3):
        for forms in itertools.product([r[0] for r in rows], repeat=cnt):
            if '{}' not in forms:
                continue
            texts, vals = [], []
            for i, f in enumerate(forms):
                t, v = rowval(f, 10 * (i + 1))
                texts.append(t)
                vals.append(v)
            for decl, nrows in (('int e[3][2]', 3), ('int e[][2]', cnt), ('struct { char c; int m[3][2]; } e', 3), ('int e[2][3][2]', 6)):
                init = '{%s}' % ', '.join(texts)
                if decl.startswith('struct'):
                    init = '{7, %s}' % init
                    pre = struct.pack('<bxxx', 7)
                elif decl == 'int e[2][3][2]':
                    init = '{%s}' % init
                    pre = b''
                else:
                    pre = b''
                want = pre + b''.join(struct.pack('<ii', *(vals[i] if i < len(vals) else (0, 0))) for i in range(nrows))
                src = '%s = %s;\nunsigned long esz = sizeof e;\n' % (decl, init)
                r = srv.compile(src, cpu_s=10)
                n += 1
                if r.status != 0:
                    chk.violation('empty-braces/rejected', '%s rejected (status %s): %s' % (src.split(chr(10))[0], r.status, r.err[:160]), files={'input.c': src.encode()}, cmd='$CPROC_QBE input.c')
                    continue
                objs = L.parse_qbe_data(r.out)
                got = objs['e'].image if 'e' in objs else None
                gsz = struct.unpack('<Q', objs['esz'].image)[0] if 'esz' in objs else None
                if got != want or gsz != len(want):
                    chk.violation('empty-braces/next-initialiser-lands-in-the-wrong-element', '%s: image %s (sizeof %r), expected %s' % (
                        src.split(chr(10))[0], got.hex() if got is not None else None, gsz, want.hex()), files={'input.c': src.encode()}, cmd='$CPROC_QBE input.c | grep "data \\$e"')
    return n


def literal_tables(chk):
    """Static tables of pointers to string literals whose spellings share a prefix (and, for wide literals, the first `length` BYTES):
    every pointer must lead to the contents of ITS literal (seeded rounds 8/10: the literal pool keyed by a prefix of the contents)."""
    srv = fs.server('fs')

    def enc(text, w):
        return b''.join(ord(c).to_bytes(w, 'little') for c in text) + bytes(w)
    kinds = (('', 'char', 1), ('L', 'int', 4), ('U', 'unsigned', 4), ('u', 'unsigned short', 2))
    groups = (('ab', 'ac'), ('red', 'rod', 'rid'), ('abcd', 'abce', 'abcd'), ('%s', '%d'), ('a', 'b'), ('aaaa', 'aaab', 'aaba', 'abaa'), ('x', 'xy', 'xyz'))
    n = 0
    for pre, et, w in kinds:
        for g in groups:
            lits = [pre + '"%s"' % t for t in g]
            units = [
                ('pointer-array', 'const %s *const tab[] = { %s };' % (et, ', '.join(lits)), [(t, 0) for t in g]),
                ('struct-array', 'struct { const %s *p; int n; } tab[] = { %s };' % (et, ', '.join('{ %s, %d }' % (l, i) for i, l in enumerate(lits))), [(t, 0) for t in g]),
                ('with-offset', 'const %s *const tab[] = { %s };' % (et, ', '.join('%s + 1' % l for l in lits)), [(t, w) for t in g]),
                ('separate-objects', ' '.join('const %s *p%d = %s;' % (et, i, l) for i, l in enumerate(lits)), None),
                ('after-array-initialisers', '%s arr0[] = %s; %s arr1[] = %s; const %s *const tab[] = { %s };' % (et, lits[0], et, lits[-1], et, ', '.join(lits)), [(t, 0) for t in g]),
            ]
            for uname, src, exp in units:
                r = srv.compile(src + '\n', cpu_s=10)
                n += 1
                if r.status != 0:
                    chk.violation('literal-table/rejected', '%s rejected: %s' % (src, r.err[:160]), files={'input.c': src.encode()})
                    continue
                objs = L.parse_qbe_data(r.out)
                if exp is None:
                    got = []
                    for i in range(len(g)):
                        o = objs.get('p%d' % i)
                        got += [(x[2], x[3]) for x in L.resolve_relocs(objs, o)] if o else [None]
                    exp = [(t, 0) for t in g]
                else:
                    o = objs.get('tab')
                    got = [(x[2], x[3]) for x in L.resolve_relocs(objs, o)] if o else None
                want = [(('str', enc(t, w)), add) for t, add in exp]
                if got != want:
                    chk.violation('literal-table/pointer-leads-to-another-literal', '%s: pointers lead to %r, expected the contents %r' % (
                        src, [(x[0][1].hex() if x and x[0][0] == 'str' else x) for x in (got or [])], [x[0][1].hex() for x in want]), files={'input.c': src.encode()},
                        cmd='$CPROC_QBE input.c | grep data')
    return n


def leading_unnamed_bitfields(chk):
    """positional initialisers of structures whose first named member is preceded by unnamed bit-fields (defect 105: the cursor
    entered the structure at offset 0): expected images written out by hand, x86_64-sysv"""
    srv = fs.server('fs')
    units = [
        ('struct { int : 8; char c; } o = {5};', '0005'),
        ('struct { int : 4; int x : 4; } o = {3};', '30000000'),
        ('struct { int : 32; int a; int b; } o = {5, 6};', '000000000500000006000000'),
        ('struct { int : 0; char c; int d; } o = {1, 2};', '0100000002000000'),
        ('struct { char a; int : 8; char c; } o = {1, 2};', '010002'),
        ('struct { int : 16; short s; struct { int : 8; char c; } in; } o = {1, {2}};', '000001000002'),
        ('struct { int : 16; short s; struct { int : 8; char c; } in; } o = {1, 2};', '000001000002'),
        ('struct { long : 40; char c[2]; } o = {{7, 8}};', '00000000000708'),
        ('struct { int : 8; char c; } o[2] = {5, 6};', '00050006'),
        ('struct { int : 8; char c; } o[2] = {{5}, {6}};', '00050006'),
    ]
    n = 0
    for src, want in units:
        for store in ('static', 'auto'):
            n += 1
            if store == 'static':
                r = srv.compile(src + '\n', cpu_s=10)
                if r.status != 0:
                    chk.violation('unnamed-bitfield-first/rejected', '%s rejected: %s' % (src, r.err[:160]), files={'input.c': src.encode()})
                    continue
                o = L.parse_qbe_data(r.out).get('o')
                got = o.image.hex() if o else None
                if got != want:
                    chk.violation('unnamed-bitfield-first/positional-initialiser-misplaced', '%s: image %s, expected %s' % (src, got, want), files={'input.c': src.encode()},
                                  cmd='$CPROC_QBE input.c')
    return n


def main(chk):
    quick = chk.quick
    TOTKEYS = ('cases', 'evals', 'compared', 'witness_warned', 'witness_split', 'witness_differ', 'expected_reject', 'd_run',
               'd_compared', 'cross_target', 'witness_unknown', 'witness_reject_model_accepts', 'variants')
    tot = {k: 0 for k in TOTKEYS}
    ambs = []
    states, trans, distinct = set(), set(), set()
    strata = {}
    samples, mdis = [], []
    fams = {}
    # batches: per (stratum, type), 300 cases each
    batches = []
    cur = {}
    n = 0
    per_type = {}
    for stratum, ti, top in gen_cases(quick):
        if not chk.want(stratum) and not chk.want(TYPES[ti].name):
            if chk.only is not None:
                continue
        b = cur.setdefault((stratum, ti), [])
        b.append((n, ti, top))
        n += 1
        per_type[TYPES[ti].name] = per_type.get(TYPES[ti].name, 0) + 1
        if len(b) >= 300:
            batches.append((stratum, b))
            cur[(stratum, ti)] = []
    batches += [(k[0], b) for k, b in cur.items() if b]

    def want_d(stratum):
        if stratum == 'empty-braces':
            return False
        return (stratum in ('bare', 'len1-full', 'len2-full')) if quick else True
    work = [(s, b, want_d(s)) for s, b in batches]
    # biggest first; VERIF_SEED only rotates the order
    work.sort(key=lambda w: (-len(w[1]), w[0]))
    if chk.seed:
        k = chk.seed % len(work)
        work = work[k:] + work[:k]
    chk.log('%d cases in %d batches; item alphabets (full/middle/reduced): %s' % (
        n, len(work), ', '.join('%s %d/%d/%d' % ((ot.name,) + tuple(len(a) for a in alphabets(ot))) for ot in TYPES)))
    done = 0
    for res in fs.pimap(job, work):
        done += 1
        st = res['stratum']
        s = strata.setdefault(st, {'cases': 0, 'compared_with_witnesses': 0, 'witness_warned': 0, 'expected_reject': 0, 'violations': 0, 'auto_compared': 0})
        s['cases'] += res['cases']
        s['compared_with_witnesses'] += res['compared']
        s['witness_warned'] += res['witness_warned']
        s['expected_reject'] += res['expected_reject']
        s['auto_compared'] += res['d_compared']
        for k in TOTKEYS:
            tot[k] += res[k]
        states.update(res['states'])
        trans.update(res['trans'])
        distinct.update(res['distinct'])
        mdis.extend(res['model_disagrees'][:3] if len(mdis) < 60 else [])
        ambs.extend(res['amb_samples'] if len(ambs) < 40 else [])
        tot['model_disagrees'] = tot.get('model_disagrees', 0) + len(res['model_disagrees'])
        if res['sample'] and len(samples) < 10 and sum(1 for x in samples if x['stratum'] == st) < 2:
            samples.append(res['sample'])
        for v in res['viol']:
            s['violations'] += 1
            fams.setdefault(v[0], []).append(v)
        if done % 50 == 0:
            chk.log('%d/%d batches' % (done, len(work)))
        if chk.expired():
            chk.log('deadline reached after %d of %d batches' % (done, len(work)))
            break
    # report: replay the smallest case of every family alone first
    srv = fs.server('fs')
    for fam, vs in sorted(fams.items()):
        vs.sort(key=lambda v: (len(v[3]), v[3]))
        key, i, ti, text, a, b = vs[0]
        src = PRELUDE + text + '\n'
        r = srv.compile(src)
        confirmed = True
        if fam.startswith('crash/'):
            confirmed = r.status not in (0, 1)
        elif fam.startswith('accepts-invalid/'):
            confirmed = r.status == 0 and not _accepted_alone('gcc', text) and not _accepted_alone('clang', text)
        elif fam.startswith(('image/', 'rejects-valid/')) and not text.startswith('void f'):
            confirmed = _accepted_alone('gcc', text, clean=True) and _accepted_alone('clang', text, clean=True)
        if not confirmed:
            chk.notes.append('family %s not confirmed when replayed alone (dropped): %s' % (fam, text))
            continue
        for v in vs:
            chk.violation(fam, '%s   %s; %s' % (text, a, b), files={'input.c': src.encode()},
                          cmd='$CPROC_QBE input.c; echo "status $?"   # %s' % a.replace('\n', ' ')[:300])
    namb = {}
    for kind, text in ambs:
        k2 = kind.split(':')[0]
        namb[k2] = namb.get(k2, 0) + 1
        if namb[k2] <= 5:
            chk.notes.append('not judged (%s): %s' % (kind, text))
    for m in mdis[:12]:
        chk.notes.append('reference model disagrees with both witnesses (not judged): %r' % (m,))
    for s in strata:
        chk.strata[s] = strata[s]
    nshared = shared_typedef(chk)
    nste = string_then_element(chk)
    nempty = empty_braces(chk)
    nlit = literal_tables(chk) + leading_unnamed_bitfields(chk)
    cov = {
        'states': len(states),
        'transitions': len(trans),
        'traces_validated_against_impl': tot['evals'],
        'samples': samples or [{'none': True}],
        'evaluations': tot['evals'] + tot['cross_target'] + tot['d_compared'] + tot['variants'] + nshared + nste + nempty + nlit,
        'shared_typedef_units': nshared,
        'empty_braces_units': nempty,
        'literal_table_units': nlit,
        'string_then_element_objects': nste,
        'thread_and_compound_literal_variants_compared': tot['variants'],
        'cases': tot['cases'],
        'cases_per_type': per_type,
        'static_images_compared_with_both_witnesses': tot['compared'],
        'automatic_objects_compared': tot['d_compared'],
        'automatic_programs_run': tot['d_run'],
        'cross_target_images_compared': tot['cross_target'],
        'distinct_nontrivial': len(distinct),
        'ambiguous': tot['witness_split'] + tot['witness_differ'] + tot.get('model_disagrees', 0) + tot['witness_unknown'] + tot['witness_reject_model_accepts'],
        'witnesses_reject_model_accepts': tot['witness_reject_model_accepts'],
        'witness_split_verdict': tot['witness_split'],
        'witness_images_differ': tot['witness_differ'],
        'witness_unknown': tot['witness_unknown'],
        'model_disagrees_with_witnesses': tot.get('model_disagrees', 0),
        'witness_warned': tot['witness_warned'],
        'expected_reject': tot['expected_reject'],
        'rule': 'every initialiser list up to the length bound over the item alphabet of each object type; static image vs gcc AND clang '
                '(-std=c11 -pedantic-errors, both clean and identical) AND the 6.7.9 reference interpreter; automatic objects executed via il2c',
    }
    return chk.finish(cov, [
        'witness verdicts come from one TU with one case per line; a case is compared only if neither gcc nor clang says anything about its line',
        'clang runs with -Wno-initializer-overrides: that warning fires on every designator override, which 6.7.9p19 defines',
        'cases containing the C23 empty initialiser {} are judged against the witnesses in -std=gnu11 mode without -pedantic-errors',
        'automatic objects: padding bits/bytes are not compared (unspecified); pointers are compared as symbol+offset / string contents',
        'aarch64 and riscv64 images are compared with the x86_64 one (same layout for every type of the set)',
    ])


def _accepted_alone(name, text, clean=False):
    v = witness_verdicts(name, {int(re.search(r'x(\d+)', text).group(1)): text}, gnu='{}' in text)
    v = list(v.values())[0][0]
    return v == 'clean' if clean else v in ('clean', 'warned')
