"""C04 — constant expressions fold to the value run-time evaluation would give.

Bounded-exhaustive enumeration of the folder's decision table (DESIGN.md section 5, C04):

  bin1    every (op, T1, T2, v1, v2): 18 binary operators x T13 x T13 x V(T1) x V(T2), literal-or-cast operands
  un1     every (unary op, T, v)
  cast    every (T1 -> T2, v) as explicit cast and as implicit conversion of an initialiser
  cond    c ? a : b over condition type/value x (Ta, Tb) x values; logical operators on the special values
  misc    unevaluated operands, sizeof/_Alignof/offsetof forms, enum constants and enum-typed operands
  lit     integer literals: base x suffix (every spelling) x magnitude;  flit: floating literal forms
  addr    address constants  &obj +- k
  depth2  (a op1 b) op2 c and a op2 (b op1 c) over the reduced type set

Every case the reference model R (vlib/cmodel.py) gives a value is observed in every folding context its type
allows (static and thread initialiser, _Static_assert, _Generic type, array bound, enumerator, case label,
bit-field width, _Alignas, constant condition of ?:) on the targets of its char-signedness class.  Cases R calls
a constraint violation must be rejected; cases with undefined behaviour are only required not to crash
(division by zero must also be rejected).  Witnesses (gcc on x86_64, clang --target on all three) are consulted
on every disagreement and on a sanity sample: two-witness rule.
"""
import math
import os
import random
import re
import struct
import zlib

from .. import cmodel as M
from .. import fs, ilparse, witness

LEVEL = 'model_checking'

CLASSES = {'s': ('x86_64-sysv',), 'u': ('aarch64', 'riscv64')}
FULL_CTX_TARGETS = ('x86_64-sysv', 'aarch64')        # riscv64 (same values as aarch64): data, assert, type only
REDUCED = (M.INT, M.UINT, M.LONG, M.ULONG, M.DOUBLE, M.CHAR)
KIND = {t.kind: t for t in M.T13}

EU = M.Enum('EU', M.UINT, False)
EI = M.Enum('EI', M.INT, False)
EL = M.Enum('EL', M.LONG, False)
PRELUDE = ('enum EU { EU_A = 1, EU_B = 2147483647 };\n'
           'enum EI { EI_N = -1, EI_A = 1, EI_M = 2147483647 };\n'
           'enum EL { EL_N = -1, EL_B = 0x100000000 };\n'
           'struct SO { char c; int i; double d; short a[3]; struct { char x; long y; } in; };\n'
           'typedef enum EU tEU; typedef enum EI tEI; typedef enum EL tEL;\n'
           'extern int xo; extern int ao[8]; extern struct SO so;\n')
PRELUDE_STRICT = ''.join(l + '\n' for l in PRELUDE.split('\n') if l and 'EL' not in l) + 'typedef enum EU tEU; typedef enum EI tEI;\n'
DR_S = (0x4000004000000001, 0x7fffffbfffffffff, -0x4000004000000001, 0x20000030000001)  # int -> float32 double-rounding witnesses
DR_U = (0x8000008000000001, 0x4000004000000001)

OPCLASS = {'*': 'mul', '/': 'div', '%': 'mod', '+': 'add', '-': 'sub', '<<': 'shl', '>>': 'shr', '<': 'rel', '>': 'rel',
           '<=': 'rel', '>=': 'rel', '==': 'eq', '!=': 'eq', '&': 'bit', '^': 'bit', '|': 'bit', '&&': 'logical', '||': 'logical'}
UNCLASS = {'+': 'plus', '-': 'neg', '~': 'compl', '!': 'lnot'}

FAMILY = {
    'logical': 'fold/logical-op-yields-operand',
    'logical-bits': 'fold/logical-op-tests-float-zero-by-bits',
    'to-bool': 'fold/bool-conversion-truncates',
    'int-to-float32': 'fold/int-to-float-double-rounding',
    'f-suffix': 'fold/float-literal-f-suffix-not-rounded',
    'float-cond': 'fold/float-condition-not-folded',
    'neg-fraction-to-unsigned': 'fold/float-to-unsigned-negative-fraction-rejected',
    'cond-narrow': 'type/conditional-of-same-narrow-type-operands-not-promoted',
}


def gname(t):
    """type name usable before ':' in a generic association ('enum E : 1' would read as a fixed underlying type)"""
    return 't' + t.tag if isinstance(t, M.Enum) else M.cname(t)


def tclass(t, tgt):
    t = M.unq(t)[0]
    if t == M.FLOAT:
        return 'float'
    if t == M.DOUBLE:
        return 'double'
    if t == M.BOOL:
        return 'bool'
    if M.is_integer(t):
        return '%s-%d' % ('signed' if M.is_signed(t, tgt) else 'unsigned', 8 * M.sizeof(t))
    return 'other'


# ---------------------------------------------------------------------------------------------------------
# cases

class Case:
    __slots__ = ('i', 'stratum', 'cell', 'ast', 'src', 'kind', 'type', 'value', 'etype', 'evalue', 'trig', 'opclass',
                 'tclass', 'ctxs')


def mkcase(stratum, cell, ast, tgt, opclass, tcls=None, declty=None, ctxs=None):
    c = Case()
    c.stratum, c.cell, c.ast, c.opclass, c.ctxs = stratum, cell, ast, opclass, ctxs
    c.trig = set()
    c.src = M.render(ast, tgt)
    c.type = c.value = c.etype = c.evalue = None
    try:
        r = M.evaluate(ast, tgt, c.trig)
        c.etype, c.evalue = r.type, r.value
        if declty is not None:
            c.type, c.value = declty, M.convert(r.value, r.type, declty, tgt, c.trig)
        else:
            c.type, c.value = r.type, r.value
        c.kind = 'ok'
    except M.Invalid:
        c.kind = 'invalid'
    except M.Undefined as e:
        c.kind = 'undef:' + e.args[0]
    if tcls is None:
        tcls = tclass(c.type, tgt) if c.type is not None else 'none'
    c.tclass = tcls
    return c


def eqtext(src, t, v, tgt):
    """C condition that holds iff expression `src` (of type t) has value v"""
    if M.is_float(t):
        if v != v:
            return '(%s) != (%s)' % (src, src)
        if math.isinf(v):
            return '(%s) %s0x1.fffffffffffffp+1023' % (src, '> ' if v > 0 else '< -')
    return '(%s) == %s' % (src, M.c_value(t, v, tgt))


def vdesc(v):
    if isinstance(v, float):
        return '%r%s' % (v, ' (%s)' % v.hex() if v == v and not math.isinf(v) else '')
    return str(v)


def decode(t, img, tgt):
    t = M.unq(t)[0]
    if t == M.FLOAT:
        return struct.unpack('<f', img)[0]
    if t == M.DOUBLE:
        return struct.unpack('<d', img)[0]
    return int.from_bytes(img, 'little', signed=t != M.BOOL and M.is_signed(t, tgt))


def same_image(t, v, img):
    exp = M.image(t, v, None)
    if exp is None:     # NaN: any NaN will do (sign and payload are not specified)
        if len(img) != M.sizeof(t):
            return False
        x = struct.unpack('<f' if M.unq(t)[0] == M.FLOAT else '<d', img)[0]
        return x != x
    return exp == img


# ---------------------------------------------------------------------------------------------------------
# running

class Runner:
    def __init__(self, target):
        self.srv = fs.server('fs')
        self.target = target
        self.runs = 0

    def compile(self, src):
        self.runs += 1
        return self.srv.compile(src, target=self.target, cpu_s=10)

    def many(self, items, prelude=PRELUDE):
        """compile [(key, text)] as units of <= 1500 items, bisecting on failure.
        -> (data name -> DataDef of the accepted items, key -> (status, err) of the rejected ones)"""
        data, rej = {}, {}

        def rec(lo, hi):
            r = self.compile(prelude + ''.join(t for _, t in items[lo:hi]))
            if r.status == 0:
                try:
                    m = ilparse.parse(r.out)
                except ilparse.ParseError as e:
                    if hi - lo == 1:
                        rej[items[lo][0]] = (-1, ('IL not parsable: %s' % e).encode())
                        return
                else:
                    for d in m.data:
                        data[d.name] = d
                    return
            elif hi - lo == 1:
                rej[items[lo][0]] = (r.status, r.err[-160:])
                return
            mid = (lo + hi) // 2
            rec(lo, mid)
            rec(mid, hi)
        for i in range(0, len(items), 1500):
            rec(i, min(i + 1500, len(items)))
        return data, rej


def data_size(d):
    """size of a data definition without materialising its image"""
    n = 0
    for ty, v in d.items:
        n += v if ty == 'z' else (len(v[1]) if v[0] == 'str' else ilparse.ITEMSIZE[ty])
    return n


def rejtext(st_err):
    st, err = st_err
    return 'rejected (status %d: %s)' % (st, err.decode(errors='replace').strip().split('error: ')[-1][:90])


def run_cases(cases, tgt, targets, full=True, only=None):
    """observe every case in every context (or only the contexts named in `only`) on every target;
    -> (case index -> [(ctx, target, observed text, observed image or None)], stats)"""
    stats = {'runs': 0, 'transitions': 0, 'ctx': {}, 'expected_reject': 0, 'undefined_nocrash': 0}
    mism = {}
    byi = {c.i: c for c in cases}

    def bad(c, ctx, target, obs, img=None):
        mism.setdefault(c.i, []).append((ctx, target, obs, img))

    def count(ctx, n=1):
        stats['ctx'][ctx] = stats['ctx'].get(ctx, 0) + n
        stats['transitions'] += n

    def want(ctx):
        return only is None or ctx in only

    for target in targets:
        R = Runner(target)
        ok = [c for c in cases if c.kind == 'ok']
        # every context on x86_64; on aarch64 for the cases that involve plain char (the only type whose values
        # differ between the targets); data, assert and type everywhere
        allctx = full and target in FULL_CTX_TARGETS
        charonly = target != 'x86_64-sysv'
        # -- static initialiser -------------------------------------------------------------------------
        items = [(c.i, '%s = %s;\n' % (M.cdecl(c.type, 'v%d' % c.i), c.src)) for c in ok if (c.ctxs is None or 'data' in c.ctxs) and want('data')]
        data, rej = R.many(items)
        for i, _ in items:
            c = byi[i]
            count('data')
            if i in rej:
                bad(c, 'data', target, rejtext(rej[i]), 'rejected')
                continue
            d = data.get('$v%d' % i)
            img, rel = ilparse.data_image(d) if d is not None else (b'', [1])
            if rel or len(img) != M.sizeof(c.type):
                bad(c, 'data', target, 'no plain data object of %d bytes emitted (%d bytes: %s)' % (M.sizeof(c.type), len(img), img[:8].hex()), img[:8])
            elif not same_image(c.type, c.value, img):
                bad(c, 'data', target, vdesc(decode(c.type, img, tgt)), img)
        # -- thread-local initialiser, type of the folded expression --------------------------------------
        if full:
            items = []
            for c in ok:
                if (c.ctxs is None or 'type' in c.ctxs) and want('type'):
                    items.append(('y%d' % c.i, 'int y%d = _Generic(%s, %s: 1, default: 2);\n' % (c.i, c.src, gname(c.etype))))
                if allctx and c.ctxs is None and (c.i not in mism or only) and want('thread') and not (charonly and '(char)' not in c.src):
                    items.append(('t%d' % c.i, '_Thread_local %s = %s;\n' % (M.cdecl(c.type, 't%d' % c.i), c.src)))
            data, rej = R.many(items)
            for key, _ in items:
                c = byi[int(key[1:])]
                ctx = 'type' if key[0] == 'y' else 'thread'
                count(ctx)
                d = data.get('$' + key)
                if key in rej:
                    bad(c, ctx, target, rejtext(rej[key]))
                elif ctx == 'type':
                    if d is None or ilparse.data_image(d)[0] != b'\1\0\0\0':
                        bad(c, ctx, target, 'the expression does not have type %s' % M.cname(c.etype))
                elif d is None or not d.thread or not same_image(c.type, c.value, ilparse.data_image(d)[0]):
                    bad(c, ctx, target, 'thread-local object missing or holding another value')
        # -- _Static_assert((E) == V) ------------------------------------------------------------------
        items = [(c.i, '_Static_assert(%s, "");\n' % eqtext(c.src, c.etype, c.evalue, tgt)) for c in ok
                 if (c.ctxs is None or 'assert' in c.ctxs) and want('assert')]
        _, rej = R.many(items)
        count('assert', len(items))
        for i, _ in items:
            if i in rej:
                bad(byi[i], 'assert', target, rejtext(rej[i]))
        # -- contexts that need an integer constant expression -----------------------------------------
        if allctx:
            items, singles, exp = [], [], {}
            for c in ok:
                if c.ctxs is not None or (charonly and '(char)' not in c.src):
                    continue
                i = c.i
                if not M.is_integer(c.etype):
                    items.append(('c%d' % i, 'int c%d = %s ? 11 : 22;\n' % (i, c.src)))
                    exp['c%d' % i] = (11 if c.evalue != 0 else 22).to_bytes(4, 'little')
                    continue
                v, t = c.evalue, M.promote(c.etype, tgt)
                lo, hi = M.int_range(t, tgt)
                items.append(('c%d' % i, 'int c%d = %s ? 11 : 22;\n' % (i, c.src)))
                exp['c%d' % i] = (11 if v else 22).to_bytes(4, 'little')
                if 1 <= v <= 1 << 40:
                    items.append(('a%d' % i, 'char a%d[%s];\n' % (i, c.src)))
                    exp['a%d' % i] = v
                elif v < 0:
                    singles.append((c, 'array', 'char a[%s];\n' % c.src))
                if -(1 << 31) <= v < 1 << 31:
                    items.append(('g%d' % i, 'enum { e%d = %s }; long long g%d = e%d;\n' % (i, c.src, i, i)))
                    exp['g%d' % i] = (v & (1 << 64) - 1).to_bytes(8, 'little')
                if 1 <= v <= 64:
                    items.append(('b%d' % i, 'struct { unsigned long long b : %s; } b%d = { -1 };\n' % (c.src, i)))
                    exp['b%d' % i] = ((1 << v) - 1).to_bytes(8, 'little')
                if v in (0, 1, 2, 4, 8, 16):
                    items.append(('l%d' % i, '_Alignas(%s) char l%d = 1;\n' % (c.src, i)))
                    exp['l%d' % i] = ('align', max(v, 1))
                other = v + 1 if v < hi else v - 1
                sw = '(%s)0' % M.cname(t)
                items.append(('f%d' % i, 'void f%d(void) { switch (%s) { case %s: case %s: ; } }\n' % (i, sw, c.src, M.c_value(t, other, tgt))))
                singles.append((c, 'case-dup', 'void f(void) { switch (%s) { case %s: case %s: ; } }\n' % (sw, c.src, M.c_value(t, v, tgt))))
                if M.sizeof(t) == 8 and -(1 << 31) <= v < 1 << 31:
                    singles.append((c, 'case-dup-converted', 'void f(void) { switch (0) { case %s: case %s: ; } }\n' % (c.src, M.c_value(M.INT, v, tgt))))
                if v:
                    items.append(('s%d' % i, '_Static_assert(%s, "");\n' % c.src))
                else:
                    singles.append((c, 'assert-direct', '_Static_assert(%s, "");\n' % c.src))
            names = {'c': 'cond', 'a': 'array', 'g': 'enum', 'b': 'width', 'l': 'alignas', 'f': 'case', 's': 'assert-direct'}
            if only is not None:
                items = [it for it in items if names[it[0][0]] in only]
                singles = [x for x in singles if x[1] + '-reject' in only]
            # floating conditions are known to be refused: keep them apart from the integer ones
            fl = [it for it in items if it[0][0] == 'c' and not M.is_integer(byi[int(it[0][1:])].etype)]
            flk = {it[0] for it in fl}
            items = [it for it in items if it[0] not in flk]
            data, rej = R.many(items)
            if fl:
                d2, r2 = R.many(fl)
                data.update(d2)
                rej.update(r2)
                items = items + fl
            for key, _ in items:
                ctx, c = names[key[0]], byi[int(key[1:])]
                count(ctx)
                if key in rej:
                    bad(c, ctx, target, rejtext(rej[key]), 'rejected')
                    continue
                if key[0] in 'fs':
                    continue
                d = data.get('$' + key)
                w = exp[key]
                if d is None:
                    bad(c, ctx, target, 'object not emitted')
                    continue
                if isinstance(w, int):
                    if data_size(d) != w:
                        bad(c, ctx, target, 'array of %d elements' % data_size(d))
                    continue
                img = ilparse.data_image(d)[0]
                if isinstance(w, tuple):
                    if (d.align or 1) != w[1]:
                        bad(c, ctx, target, 'alignment %s' % d.align)
                elif img != w:
                    bad(c, ctx, target, 'value %d' % int.from_bytes(img, 'little', signed=key[0] == 'g'))
            for c, ctx, text in singles:
                count(ctx + '-reject')
                stats['expected_reject'] += 1
                r = R.compile(PRELUDE + text)
                if r.status != 1:
                    bad(c, ctx + '-reject', target, 'accepted' if r.status == 0 else 'status %d' % r.status)
        # -- expected rejections and undefined operations: one run each ---------------------------------
        for c in cases:
            if c.kind == 'ok' or (c.ctxs is not None and 'data' not in c.ctxs):
                continue
            if c.kind == 'invalid':
                if not want('reject'):
                    continue
                stats['expected_reject'] += 1
                count('reject')
                r = R.compile(PRELUDE + 'double v = %s;\n' % c.src)
                if r.status != 1:
                    bad(c, 'reject', target, 'accepted' if r.status == 0 else 'status %d' % r.status)
                continue
            stats['undefined_nocrash'] += 1
            div0 = c.kind == 'undef:div0'
            for ctx, text in (('data', 'long long v = %s;\n' % c.src), ('assert', '_Static_assert((%s) == 0 || 1, "");\n' % c.src),
                              ('array', 'char a[((%s) & 1) + 1];\n' % c.src)):
                if (ctx == 'array' and not (allctx and M.is_integer(M.type_of(c.ast, tgt)))) or not want('undef-' + ctx):
                    continue
                count('undef-' + ctx)
                r = R.compile(PRELUDE + text)
                if r.status not in (0, 1):
                    bad(c, 'undef-' + ctx, target, 'status %d' % r.status)
                elif div0 and r.status == 0:
                    bad(c, 'div0-' + ctx, target, 'accepted as a constant')
        stats['runs'] += R.runs
    return mism, stats


def single_source(c, ctx, tgt):
    """a one-case translation unit showing (case, ctx) — what the replay directory gets"""
    if c.kind == 'invalid':
        return PRELUDE + 'double v = %s;\n' % c.src
    if c.kind != 'ok':
        return PRELUDE + 'long long v = %s;\n' % c.src
    if ctx == 'assert':
        return PRELUDE + '_Static_assert(%s, "");\n' % eqtext(c.src, c.etype, c.evalue, tgt)
    if ctx == 'type':
        return PRELUDE + 'int y = _Generic(%s, %s: 1, default: 2);\n' % (c.src, gname(c.etype))
    if ctx == 'cond':
        return PRELUDE + 'int c = %s ? 11 : 22;\n' % c.src
    if ctx in ('array', 'array-reject'):
        return PRELUDE + 'char a[%s];\n' % c.src
    if ctx == 'enum':
        return PRELUDE + 'enum { e = %s }; long long g = e;\n' % c.src
    if ctx == 'width':
        return PRELUDE + 'struct { unsigned long long b : %s; } b = { -1 };\n' % c.src
    if ctx == 'alignas':
        return PRELUDE + '_Alignas(%s) char l = 1;\n' % c.src
    if ctx.startswith('case'):
        t = M.promote(c.etype, tgt)
        return PRELUDE + 'void f(void) { switch ((%s)0) { case %s: case %s: ; } }\n' % (M.cname(t), c.src, M.c_value(t, c.evalue, tgt))
    if ctx.startswith('assert-direct'):
        return PRELUDE + '_Static_assert(%s, "");\n' % c.src
    if ctx == 'thread':
        return PRELUDE + '_Thread_local %s = %s;\n' % (M.cdecl(c.type, 't'), c.src)
    return PRELUDE + '%s = %s;\n' % (M.cdecl(c.type, 'v'), c.src)


# ---------------------------------------------------------------------------------------------------------
# recognising the known families narrowly (defect models are used only to NAME a family, never as an oracle)

def strict_family(c, obs, tgt):
    """obs: ctx -> observed image/'rejected' of the data context (None if it agreed with R)."""
    a = c.ast
    d = obs.get('data')
    dimg = d if d is not None else (M.image(c.type, c.value, tgt) if c.kind == 'ok' else None)
    if 'logical' in c.trig:
        if a[0] == 'bin' and a[1] in ('&&', '||') and a[2][0] == 'val' and a[3][0] == 'val' and c.type == M.INT:
            (_, lt, lv), (_, rt, rv) = a[2], a[3]
            for name, ltruth in (('logical', lv != 0), ('logical-bits', M.carrier(lt, lv, tgt) != 0)):
                sel = (a[3] if ltruth else a[2]) if a[1] == '&&' else (a[2] if ltruth else a[3])
                # defect model: the selected operand itself (in its own type) is emitted in place of the int result
                if dimg is not None and dimg == M.image(sel[1], sel[2], tgt):
                    return name
            return None
        return 'logical'       # nested: no defect model, the trigger decides
    if 'to-bool' in c.trig:
        src = a
        while src[0] == 'cast' and M.unq(src[1])[0] != M.BOOL:
            src = src[2]
        if src[0] == 'cast':
            src = src[2]
        elif c.type != M.BOOL:
            return None
        try:
            x = M.evaluate(src, tgt)
        except (M.Invalid, M.Undefined):
            return None
        if c.type != M.BOOL or not M.is_arith(x.type):
            return None
        if M.is_float(x.type):
            fv = x.value
            pred = 'rejected' if (fv != fv or fv < 0 or fv >= 2.0 ** 64) else bytes([int(fv) & 0xff])
        else:
            pred = bytes([x.value & 0xff])
        return 'to-bool' if dimg == pred else None
    if 'neg-fraction-to-unsigned' in c.trig and d == 'rejected':
        return 'neg-fraction-to-unsigned'
    if 'float-cond' in c.trig:
        return 'float-cond' if d == 'rejected' or obs.get('cond') == 'rejected' else None
    if c.kind == 'ok' and M.is_float(c.etype) and set(obs) == {'cond'} and obs['cond'] == 'rejected':
        return 'float-cond'      # the case itself folds; only its use as the condition of ?: is refused
    if 'cond-narrow' in c.trig and set(obs) == {'type'}:
        return 'cond-narrow'
    if 'int-to-float32' in c.trig:
        if c.stratum == 'cast' and c.type == M.FLOAT:
            src = a[2] if a[0] == 'cast' else a
            try:
                x = M.evaluate(src, tgt)
            except (M.Invalid, M.Undefined):
                return None
            return 'int-to-float32' if M.is_integer(x.type) and dimg == struct.pack('<f', M.f32(float(x.value))) else None
        return 'int-to-float32'
    if 'f-suffix' in c.trig:
        return 'f-suffix'
    return None


def violation_key(rec):
    ctxs = [m[0] for m in rec['mism']]
    st = [m[2] for m in rec['mism'] if m[2].startswith('status ')]
    if st:
        return 'crash/%s/%s/%s' % (st[0].replace(' ', '-'), rec['stratum'], rec['opclass'])
    if rec['kind'] == 'invalid':
        return 'accepts-invalid/%s/%s/%s' % (rec['stratum'], rec['opclass'], rec['tclass'])
    if rec['kind'].startswith('undef'):
        return 'fold/division-by-zero-accepted-as-constant/%s' % rec['opclass']
    if rec['family']:
        return FAMILY[rec['family']]
    if 'data' in ctxs or 'assert' in ctxs:
        rej = any(m[0] == 'data' and m[2].startswith('rejected') for m in rec['mism'])
        return 'fold/%s/%s/%s%s' % (rec['stratum'], rec['opclass'], rec['tclass'], '/rejected' if rej else '')
    return 'context/%s/%s/%s/%s' % (sorted(set(ctxs))[0], rec['stratum'], rec['opclass'], rec['tclass'])


# ---------------------------------------------------------------------------------------------------------
# strata generators (run inside the workers)

def gen_bin1(op, t1k, tgt, n):
    t1 = KIND[t1k]
    for t2 in M.T13:
        if op in ('%', '&', '^', '|', '<<', '>>') and (M.is_float(t1) or M.is_float(t2)):
            tc = 'float-operand'
        elif op in ('<<', '>>'):
            tc = tclass(M.promote(t1, tgt), tgt)
        else:
            tc = tclass(M.usual_arith(t1, t2, tgt), tgt)     # the type the operation is carried out in
        cell = (op, t1k, t2.kind)
        for v1 in M.values(t1, tgt, n):
            for v2 in M.values(t2, tgt, n):
                yield mkcase('bin1', cell, ('bin', op, ('val', t1, v1), ('val', t2, v2)), tgt, OPCLASS[op], tc)


def gen_un1(op, tgt):
    for t in M.T13:
        extra = (-0.0, M.f32(1e-30)) if M.is_float(t) else ()
        tc = tclass(M.promote(t, tgt), tgt) if not (op == '~' and M.is_float(t)) else 'float-operand'
        for v in M.values(t, tgt, None, extra):
            yield mkcase('un1', (op, t.kind, '-'), ('un', op, ('val', t, v)), tgt, UNCLASS[op], tc)


def cast_class(t1, t2, tgt):
    def k(t):
        return 'bool' if t == M.BOOL else 'float%d' % (8 * M.sizeof(t)) if M.is_float(t) else \
            '%s%d' % ('s' if M.is_signed(t, tgt) else 'u', 8 * M.sizeof(t))
    return '%s-to-%s' % (k(t1), k(t2))


def gen_cast(t1k, tgt, n):
    t1 = KIND[t1k]
    extra = ()
    if t1 in (M.LONG, M.LLONG):
        extra = DR_S
    elif t1 in (M.ULONG, M.ULLONG):
        extra = DR_U
    elif M.is_float(t1):
        extra = (-0.0, 255.0, 256.0, -0.5, 2.5)
    elif t1 in (M.INT, M.UINT):
        extra = (256, 255, 16777217)
    for t2 in M.T13:
        cell = ('cast', t1k, t2.kind)
        oc = 'cast-' + cast_class(t1, t2, tgt)
        for v in M.values(t1, tgt, n, extra):
            leaf = ('val', t1, v)
            yield mkcase('cast', cell, ('cast', t2, leaf), tgt, oc, 'explicit')
            yield mkcase('cast', cell, leaf, tgt, oc, 'implicit', declty=t2, ctxs=('data',))
            if not M.is_float(t1) and t2 in (M.FLOAT, M.DOUBLE, M.BOOL, M.SCHAR, M.ULONG):
                # a folded (not literal) operand of the conversion: the carrier of -v is what gets converted
                yield mkcase('cast', cell, ('cast', t2, ('un', '-', leaf)), tgt, oc, 'explicit-of-negation')


def nz(t, tgt):
    """two non-zero values of t"""
    vs = [v for v in M.values(t, tgt) if v != 0]
    return (vs[1], vs[0]) if t != M.BOOL else (1,)


def gen_cond(part, tgt, quick=False):
    if part == 'int':
        for tc_ in M.INTS:
            cv = M.values(tc_, tgt)
            conds = [0, 1] + ([cv[2]] if len(cv) > 2 else [])
            for ta in M.T13:
                for tb in M.T13:
                    cell = ('?:', ta.kind, tb.kind)
                    tcl = tclass(M.usual_arith(ta, tb, tgt), tgt)
                    for c in conds:
                        pairs = [(va, vb) for va in nz(ta, tgt) for vb in nz(tb, tgt)]
                        for va, vb in (pairs[:1] + pairs[-1:] if quick else pairs):
                            yield mkcase('cond', cell, ('cond', ('val', tc_, c), ('val', ta, va), ('val', tb, vb)), tgt, 'cond', tcl)
    elif part == 'float':
        for tc_ in (M.FLOAT, M.DOUBLE):
            for c in (0.0, -0.0, 0.5, -1.5, M.f32(1e-30)):
                for ta in REDUCED:
                    for tb in REDUCED:
                        yield mkcase('cond', ('?:f', ta.kind, tb.kind), ('cond', ('val', tc_, c), ('val', ta, nz(ta, tgt)[0]), ('val', tb, nz(tb, tgt)[1])),
                                     tgt, 'cond', tclass(M.usual_arith(ta, tb, tgt), tgt))
    else:
        # logical operators and ! on the values where "non-zero" and "bit pattern non-zero" differ, and on NaN
        nan = ('bin', '/', ('val', M.DOUBLE, 0.0), ('val', M.DOUBLE, 0.0))
        special = [('val', M.DOUBLE, -0.0), ('val', M.FLOAT, -0.0), ('val', M.DOUBLE, 5e-324), ('val', M.FLOAT, M.f32(1e-45)), nan,
                   ('val', M.DOUBLE, 0.0), ('val', M.DOUBLE, 2.0), ('val', M.LLONG, 1 << 32), ('val', M.ULLONG, 1 << 63),
                   ('val', M.SCHAR, -128), ('val', M.INT, 0), ('val', M.INT, 1), ('val', M.INT, 2), ('val', M.BOOL, 1)]
        for a in special:
            ta = M.type_of(a, tgt)
            yield mkcase('cond', ('!', ta.kind, '-'), ('un', '!', a), tgt, 'lnot', tclass(ta, tgt))
            yield mkcase('cond', ('!!', ta.kind, '-'), ('un', '!', ('un', '!', a)), tgt, 'lnot', tclass(ta, tgt))
            for b in special:
                tb = M.type_of(b, tgt)
                for op in ('&&', '||'):
                    yield mkcase('cond', (op + 's', ta.kind, tb.kind), ('bin', op, a, b), tgt, 'logical', tclass(M.usual_arith(ta, tb, tgt), tgt))


def gen_misc(tgt):
    I = lambda v: ('val', M.INT, v)
    div0 = ('bin', '/', I(1), I(0))
    mod0 = ('bin', '%', I(1), I(0))
    shl = ('bin', '<<', I(1), I(40))
    ovf = ('bin', '+', I(2147483647), I(1))
    fdiv = ('bin', '/', ('val', M.DOUBLE, 1.0), ('val', M.DOUBLE, 0.0))
    for u in (div0, mod0, shl, ovf, fdiv):
        for e in (('cond', I(1), I(2), u), ('cond', I(0), u, I(3)), ('bin', '&&', I(0), u), ('bin', '||', I(1), u),
                  ('cond', I(0), I(2), u), ('cond', I(1), u, I(3)), ('bin', '&&', I(1), u), ('bin', '||', I(0), u),
                  ('bin', '+', ('cond', I(1), I(2), u), I(1)), ('cond', ('bin', '||', I(1), u), I(5), I(6))):
            yield mkcase('misc', ('uneval', e[0] if e[0] != 'bin' else e[1], u[1]), e, tgt, 'unevaluated-operand', 'int')
    # sizeof / _Alignof / offsetof
    types = list(M.T13) + [M.Ptr(M.INT), M.Arr(M.INT, 3), M.Arr(M.Arr(M.SHORT, 2), 5), M.Ptr(M.Func(M.INT, (), False)), EU, EI, EL]
    prim = [('sizeof', t) for t in types] + [('alignof', t) for t in types]
    prim += [('raw', '__builtin_offsetof(struct SO, %s)' % m, M.ULONG, off) for m, off in
             (('c', 0), ('i', 4), ('d', 8), ('a', 16), ('a[2]', 20), ('in', 24), ('in.x', 24), ('in.y', 32))]
    prim += [('raw', 'sizeof(struct SO)', M.ULONG, 40), ('raw', 'sizeof so.a', M.ULONG, 6), ('raw', 'sizeof(so.in)', M.ULONG, 16),
             ('raw', '_Alignof(struct SO)', M.ULONG, 8), ('raw', 'sizeof ao / sizeof ao[0]', M.ULONG, 8), ('raw', 'sizeof(ao + 1)', M.ULONG, 8),
             ('raw', "sizeof 'a'", M.ULONG, 4), ('raw', 'sizeof "abc"', M.ULONG, 4), ('raw', 'sizeof(1 ? 1 : 1L)', M.ULONG, 8)]
    for p in prim:
        yield mkcase('misc', (p[0], 'ulong', '-'), p, tgt, 'sizeof', 'unsigned-64')
        for op in ('-', '*', '<', '>>', '%'):
            for other in (I(-1), I(3), ('val', M.LONG, -2), ('val', M.DOUBLE, 0.5)):
                yield mkcase('misc', (p[0] + op, 'ulong', other[1].kind), ('bin', op, p, other), tgt, 'sizeof-' + OPCLASS[op])
                yield mkcase('misc', (op + p[0], other[1].kind, 'ulong'), ('bin', op, other, p), tgt, 'sizeof-' + OPCLASS[op])
        yield mkcase('misc', ('-' + p[0], 'ulong', '-'), ('un', '-', p), tgt, 'sizeof-neg', 'unsigned-64')
    # enum constants and enum-typed operands
    ops = [('raw', 'EI_N', M.INT, -1), ('raw', 'EI_M', M.INT, 2147483647), ('raw', 'EU_B', M.INT, 2147483647), ('raw', 'EU_A', M.INT, 1),
           ('val', EU, 3), ('val', EU, 4294967295), ('val', EI, -2), ('val', EL, -3), ('val', EL, 1 << 40)]
    for a in ops:
        ta = M.type_of(a, tgt)
        an = a[1] if a[0] == 'raw' else 'enum-' + ta.tag
        yield mkcase('misc', ('enum', an, '-'), a, tgt, 'enum-operand')
        for uop in M.UNOPS:
            yield mkcase('misc', ('enum' + uop, an, '-'), ('un', uop, a), tgt, 'enum-' + UNCLASS[uop])
        for t in REDUCED + (M.FLOAT, M.USHORT):
            for v in M.values(t, tgt, 4):
                for op in M.BINOPS:
                    yield mkcase('misc', ('enum' + op, an, t.kind), ('bin', op, a, ('val', t, v)), tgt, 'enum-' + OPCLASS[op])
                    yield mkcase('misc', (op + 'enum', t.kind, an), ('bin', op, ('val', t, v), a), tgt, 'enum-' + OPCLASS[op])
        for t in M.T13 + (EU, EI, EL):
            yield mkcase('misc', ('enumcast', an, M.basic_of(t).kind), ('cast', t, a), tgt, 'enum-cast')


MAGNITUDES = (0, 1, (1 << 31) - 1, 1 << 31, (1 << 32) - 1, 1 << 32, (1 << 63) - 1, 1 << 63, (1 << 64) - 1, 1 << 64)
BAD_SUFFIXES = ('lL', 'Ll', 'uu', 'lul', 'llL', 'LLl', 'ulu', 'lll', 'uLl', 'lLu', 'i', 'z')


def gen_lit(tgt):
    def spell(base, v):
        if base == 'dec':
            return '%d' % v
        if base == 'oct':
            return '0%o' % v
        if base == 'hex':
            return '0x%x' % v
        if base == 'HEX':
            return '0X%X' % v
        return ('0b' if base == 'bin' else '0B') + bin(v)[2:]
    for base in ('dec', 'oct', 'hex', 'HEX', 'bin', 'BIN'):
        for suf in sorted(M.VALID_SUFFIXES) + list(BAD_SUFFIXES):
            norm = M.VALID_SUFFIXES.get(suf, 'bad-suffix')
            for v in MAGNITUDES:
                text = spell(base, v) + suf
                c = mkcase('lit', ('lit-' + base.lower(), norm or 'none', '-'), ('ilit', text), tgt, 'literal')
                if c.kind == 'invalid':
                    c.tclass = 'bad-suffix' if norm == 'bad-suffix' else 'out-of-range'
                yield c
                if v and c.kind == 'ok':
                    yield mkcase('lit', ('-lit-' + base.lower(), norm or 'none', '-'), ('un', '-', ('ilit', text)), tgt, 'literal-neg')


FLITS = ('1.', '.5', '1e5', '1.5e-3', '0x1p-3', '0x1.8p1', '0X1P+2', '0x.8p1', '0xAp0', '1.F', '.5f', '1e5f', '1E+2', '0.1e1', '0.1', '0.1f',
         '0.3', '0.3f', '1e-45f', '16777217.0f', '16777217.0', '0x1.000001000000001p0f', '0x1.000001p0f', '0x1.000003p0f', '3.4028235e38f',
         '0x1.fffffffp0f', '1e-320', '4.9e-324', '1.7976931348623157e308', '9007199254740993.0', '9007199254740993.0f', '1e10f',
         '0.333333333333333333333333f', '123456789.0f', '5e-1f', '00.5', '09.5', '1.0e+0f')


def gen_flit(tgt):
    for text in FLITS:
        form = ('hex' if text.lower().startswith('0x') else 'dec') + ('-f' if text[-1] in 'fF' else '')
        a = ('flit', text)
        yield mkcase('flit', ('flit-' + form, '-', '-'), a, tgt, 'float-literal')
        for t in (M.DOUBLE, M.FLOAT, M.INT, M.ULONG):
            yield mkcase('flit', ('flit-' + form, t.kind, '-'), a, tgt, 'float-literal', declty=t, ctxs=('data',))
        for op in ('==', '<', '-', '*'):
            for b in (('flit', text.rstrip('fF')), ('val', M.DOUBLE, 1.5), ('val', M.FLOAT, 0.5)):
                yield mkcase('flit', ('flit-' + form + op, b[0], '-'), ('bin', op, a, b), tgt, 'float-literal-' + OPCLASS[op])
        yield mkcase('flit', ('flit-' + form + 'neg', '-', '-'), ('un', '-', a), tgt, 'float-literal-neg')


def gen_depth2(op1, op2, shape, tgt, nv, t3kinds):
    def vals(t):
        lo, hi = (0, 0) if M.is_float(t) else M.int_range(t, tgt)
        if M.is_float(t):
            vs = [-1.5, 2.0, 0.5]
        elif lo < 0:
            vs = [-1, 2, hi]
        else:
            vs = [2, hi, (hi >> 1) + 1]
        return vs[:nv]
    V = {t: vals(t) for t in REDUCED}
    V.update({KIND[k]: vals(KIND[k]) for k in t3kinds})
    for t1 in REDUCED:
        for t2 in REDUCED:
            try:
                M.binary_type(op1, t1, t2, tgt)
            except M.Invalid:
                continue        # the invalid (op, T1, T2) cells are judged at depth 1
            for t3 in [KIND[k] for k in t3kinds]:
                cell = ('d2' + shape + op1 + op2, t1.kind + t2.kind, t3.kind)
                for v1 in V[t1]:
                    for v2 in V[t2]:
                        inner = ('bin', op1, ('val', t1, v1), ('val', t2, v2))
                        for v3 in V[t3]:
                            leaf = ('val', t3, v3)
                            yield mkcase('depth2', cell, ('bin', op2, inner, leaf) if shape == 'L' else ('bin', op2, leaf, inner), tgt, OPCLASS[op2] + '-of-' + OPCLASS[op1])


ADDR_FORMS = (
    # (text with {n} {i} {k}, symbol, byte offset as a function of (i, k), which of i / k vary)
    ('int *p{n} = &xo + {k};', 'xo', lambda i, k: 4 * k, 'k'),
    ('int *p{n} = {k} + &xo;', 'xo', lambda i, k: 4 * k, 'k'),
    ('int *p{n} = &xo - {k};', 'xo', lambda i, k: -4 * k, 'k'),
    ('int *p{n} = &ao[{i}];', 'ao', lambda i, k: 4 * i, 'i'),
    ('int *p{n} = ao + {k};', 'ao', lambda i, k: 4 * k, 'k'),
    ('int *p{n} = &ao[{i}] + {k};', 'ao', lambda i, k: 4 * (i + k), 'ik'),
    ('int *p{n} = &ao[{i}] - {k};', 'ao', lambda i, k: 4 * (i - k), 'ik'),
    ('int *p{n} = {i} + ao + {k};', 'ao', lambda i, k: 4 * (i + k), 'ik'),
    ('int *p{n} = ao + {i} - {k};', 'ao', lambda i, k: 4 * (i - k), 'ik'),
    ('int *p{n} = &ao[{i}] + {k} - 1;', 'ao', lambda i, k: 4 * (i + k - 1), 'ik'),
    ('int *p{n} = &*(ao + {i}) + {k};', 'ao', lambda i, k: 4 * (i + k), 'ik'),
    ('int *p{n} = &(ao + {i})[{k}];', 'ao', lambda i, k: 4 * (i + k), 'ik'),
    ('char *p{n} = (char *)&xo + {k};', 'xo', lambda i, k: k, 'k'),
    ('char *p{n} = (char *)ao + {i} - {k};', 'ao', lambda i, k: i - k, 'ik'),
    ('char *p{n} = (char *)(ao + {i}) + {k};', 'ao', lambda i, k: 4 * i + k, 'ik'),
    ('int *p{n} = (int *)((char *)ao + 4 * {i}) + {k};', 'ao', lambda i, k: 4 * i + 4 * k, 'ik'),
    ('short *p{n} = &so.a[{i}];', 'so', lambda i, k: 16 + 2 * i, 'i'),
    ('short *p{n} = so.a + {k};', 'so', lambda i, k: 16 + 2 * k, 'k'),
    ('short *p{n} = &so.a[{i}] + {k};', 'so', lambda i, k: 16 + 2 * i + 2 * k, 'ik'),
    ('long *p{n} = &so.in.y + {k};', 'so', lambda i, k: 32 + 8 * k, 'k'),
    ('double *p{n} = &so.d - {k};', 'so', lambda i, k: 8 - 8 * k, 'k'),
    ('struct SO *p{n} = &so + {k};', 'so', lambda i, k: 40 * k, 'k'),
    ('char *p{n} = &so.c + {k} * 2;', 'so', lambda i, k: 2 * k, 'k'),
    ('int *p{n} = &ao[{i} * 2] + (1 ? {k} : 0);', 'ao', lambda i, k: 8 * i + 4 * k, 'ik'),
    ('int *p{n} = &ao[{i}] + (int){k}.0;', 'ao', lambda i, k: 4 * (i + k), 'ik'),
    ('int *p{n} = &ao[{i}] + sizeof(char[{k} + 1]) - 1;', 'ao', lambda i, k: 4 * (i + k), 'ik'),
)


def addr_cases():
    out = []
    for form, (fmt, sym, off, mode) in enumerate(ADDR_FORMS):
        for i in (range(0, 3) if 'i' in mode else (0,)):
            for k in (range(0, 4) if 'k' in mode else (0,)):
                n = len(out)
                out.append((n, fmt.format(n=n, i=i, k=k), sym, off(i, k), form))
    return out


# ---------------------------------------------------------------------------------------------------------
# worker

CAP = 25      # disagreeing cases per (job, family) that are replayed and put to the witnesses one by one


def _job(spec):
    t0 = os.times()
    stratum, cls = spec[0], spec[-1]
    targets = CLASSES[cls]
    tgt = M.TARGETS[targets[0]]
    full = True
    if stratum == 'bin1':
        gen = gen_bin1(spec[1], spec[2], tgt, spec[3])
    elif stratum == 'un1':
        gen = gen_un1(spec[1], tgt)
    elif stratum == 'cast':
        gen = gen_cast(spec[1], tgt, spec[2])
    elif stratum == 'cond':
        gen = gen_cond(spec[1], tgt, spec[2])
    elif stratum == 'misc':
        gen = gen_misc(tgt)
    elif stratum == 'lit':
        gen = gen_lit(tgt)
    elif stratum == 'flit':
        gen = gen_flit(tgt)
    elif stratum == 'depth2':
        gen = gen_depth2(spec[1], spec[2], spec[3], tgt, spec[4], spec[5])
        full = False
    else:
        raise ValueError(spec)
    cases = []
    pruned = 0
    for c in gen:
        if stratum == 'depth2' and c.kind != 'ok':
            pruned += 1         # judged at depth 1
            continue
        c.i = len(cases)
        cases.append(c)
    if stratum == 'depth2' and spec[4] == 2:
        targets = targets[:1]      # quick tier: depth 2 on x86_64 and aarch64 only (riscv64 folds the same values as aarch64)
    mism, stats = run_cases(cases, tgt, targets, full)
    stats['pruned'] = pruned
    stats['cases'] = len(cases)
    stats['ok'] = sum(1 for c in cases if c.kind == 'ok')
    cells = {c.cell for c in cases}
    values = {hash((c.etype, c.evalue if c.evalue == c.evalue else 'nan')) for c in cases if c.kind == 'ok'}
    recs = []
    capped = {}
    perkey = {}
    for i, ms in mism.items():
        c = cases[i]
        obs = {}
        for ctx, target, text, img in ms:
            obs.setdefault(ctx, img)
        pre = {'stratum': c.stratum, 'kind': c.kind, 'opclass': c.opclass, 'tclass': c.tclass, 'mism': ms, 'family': strict_family(c, obs, tgt)}
        key = violation_key(pre)
        perkey[key] = perkey.get(key, 0) + 1
        if perkey[key] > CAP:
            capped[key] = capped.get(key, 0) + 1      # same family, same job: counted, not consulted one by one
            continue
        # replay every disagreeing (context, target) alone before it is reported
        one = Case()
        for k in Case.__slots__:
            setattr(one, k, getattr(c, k))
        one.i = 0
        confirmed = []
        for target in sorted({m[1] for m in ms}):
            only = {m[0].replace('div0-', 'undef-') for m in ms if m[1] == target}
            m1, st1 = run_cases([one], tgt, (target,), full, only)
            stats['runs'] += st1['runs']
            confirmed += [m for m in m1.get(0, []) if (m[0], m[1]) in {(x[0], x[1]) for x in ms}]
        if not confirmed:
            stats['unconfirmed_on_replay'] = stats.get('unconfirmed_on_replay', 0) + 1
            continue
        obs = {}
        for ctx, target, text, img in confirmed:
            obs.setdefault(ctx, img)
        ctx0, target0 = confirmed[0][0], confirmed[0][1]
        recs.append({
            'stratum': c.stratum, 'cell': c.cell, 'cls': cls, 'src': c.src, 'kind': c.kind, 'opclass': c.opclass, 'tclass': c.tclass,
            'tname': gname(c.etype) if c.kind == 'ok' else None,
            'eq': eqtext(c.src, c.etype, c.evalue, tgt) if c.kind == 'ok' else None,
            'expected': '%s %s' % (M.cname(c.type), vdesc(c.value)) if c.kind == 'ok' else c.kind,
            'mism': [(m[0], m[1], m[2]) for m in confirmed],
            'trig': sorted(c.trig), 'family': strict_family(c, obs, tgt),
            'input': single_source(c, ctx0, tgt), 'target': target0,
        })
    stats['capped'] = capped
    stats['disagreements'] = len(mism)
    t1 = os.times()
    stats['cpu_s'] = (t1[0] + t1[1]) - (t0[0] + t0[1])
    sanity = [(cls, WLINE % (eqtext(c.src, c.etype, c.evalue, tgt), c.src, gname(c.etype)))
              for c in cases if c.kind == 'ok' and c.i not in mism and zlib.crc32(c.src.encode()) % (997 if stratum == 'depth2' else 101) == 0]
    ok = [c for c in cases if c.kind == 'ok' and c.i not in mism]
    sample = None
    if ok:
        c = ok[len(ok) // 2]
        sample = {'stratum': c.stratum, 'class': cls, 'expression': c.src, 'expected_type': M.cname(c.etype), 'expected_value': vdesc(c.evalue),
                  'observed': 'equal in every context'}
    return spec, stats, recs, cells, values, sanity, sample


NONCONST = ('xo', 'xo + 1', '1 + xo * 0', 'ao[1]', '*&xo', '-xo', '(long long)xo', 'xo ? 1 : 2', '1 ? xo : 2', 'so.i', '(&so)->i', 'xo == xo',
            '(int)(long)&xo', '1 / xo', 'sizeof(int) + xo', '*ao')
NONCONST_CTX = (('data', 'int v = %s;'), ('thread', '_Thread_local int v = %s;'), ('assert', '_Static_assert(%s, "");'), ('array', 'char a[%s];'),
                ('enum', 'enum { e = %s };'), ('case', 'void f(void) { switch (0) { case %s: ; } }'), ('width', 'struct { int b : %s; } s;'),
                ('alignas', '_Alignas(%s) char c;'))


def _nonconst_job(cls):
    """expressions that are not constant must be refused in every context that needs a constant"""
    out = []
    n = runs = 0
    for target in CLASSES[cls]:
        R = Runner(target)
        for e in NONCONST:
            for ctx, fmt in NONCONST_CTX:
                n += 1
                src = PRELUDE + fmt % e + '\n'
                r = R.compile(src)
                if r.status != 1:
                    out.append((target, e, ctx, src, 'accepted' if r.status == 0 else 'status %d' % r.status))
        runs += R.runs
    return n, runs, out


def _addr_job(cls):
    cases = addr_cases()
    out = []
    runs = 0
    for target in CLASSES[cls]:
        R = Runner(target)
        data, rej = R.many([(n, text + '\n') for n, text, _, _, _ in cases])
        runs += R.runs
        for n, text, sym, off, form in cases:
            if n in rej:
                out.append((target, text, sym, off, form, rejtext(rej[n])))
                continue
            img, rel = ilparse.data_image(data['$p%d' % n])
            if len(img) != 8 or len(rel) != 1 or rel[0][:3] != (0, 8, '$' + sym) or rel[0][3] != off % (1 << 64):
                out.append((target, text, sym, off, form, 'relocations %r' % ([(o, z, y, a - (1 << 64) if a >> 63 else a) for o, z, y, a in rel],)))
    return len(cases) * len(CLASSES[cls]), runs, out, len(ADDR_FORMS)


# ---------------------------------------------------------------------------------------------------------
# witnesses

# clang refuses floating operands in _Static_assert but folds them in a file-scope array bound, as gcc does
WLINE = 'typedef char w[(%s && _Generic(%s, %s: 1, default: 0)) ? 1 : -1];'

def _witness_lines(args):
    """-> set of indices (into lines) some witness of the class does not accept"""
    cls, lines = args
    src = PRELUDE + ''.join(l.replace('typedef char w[', 'typedef char w%d[' % i, 1) + '\n' for i, l in enumerate(lines))
    first = PRELUDE.count('\n') + 1
    failing = set()
    runs = []
    if cls == 's':
        runs.append(witness.gcc_accepts(src, std='gnu11', pedantic=False))
    for t in CLASSES[cls]:
        runs.append(witness.clang_accepts(src, target=t, std='gnu11', pedantic=False, extra=('-ferror-limit=0',)))
    for ok, err in runs:
        if ok:
            continue
        n = 0
        for m in re.finditer(r'^[^:\n]*:(\d+):(?:\d+:)? (?:fatal )?error', err.decode(errors='replace'), re.M):
            failing.add(int(m.group(1)) - first)
            n += 1
        if n == 0:
            return set(range(len(lines)))
    return failing


def _witness_rejects(args):
    """True iff every witness of the class rejects the unit.  'Is this a constraint violation' is what -std=c11
    -pedantic-errors answers, so that mode is used whenever the unit uses no extension (binary literals, enum EL)."""
    cls, src = args
    body = src[len(PRELUDE):]
    strict = not re.search(r'\b0[bB][01]|\bEL\b|\btEL\b', body)
    if strict:
        src = PRELUDE_STRICT + body
    std = 'c11' if strict else 'gnu11'
    res = []
    if cls == 's':
        res.append(witness.gcc_accepts(src, std=std, pedantic=strict)[0])
    for t in CLASSES[cls]:
        res.append(witness.clang_accepts(src, target=t, std=std, pedantic=strict)[0])
    return not any(res)


def witness_check(lines_by_cls):
    """lines_by_cls: cls -> list of assertion lines; -> cls -> set of failing indices"""
    jobs = []
    for cls, lines in lines_by_cls.items():
        for i in range(0, len(lines), 400):
            jobs.append((cls, i, lines[i:i + 400]))
    out = {cls: set() for cls in lines_by_cls}
    for (cls, base, _), failing in zip(jobs, fs.pmap(_witness_lines, [(c, l) for c, _, l in jobs])):
        out[cls] |= {base + i for i in failing}
    return out


# ---------------------------------------------------------------------------------------------------------

def main(chk):
    q = chk.quick
    n = 5 if q else None
    jobs = []
    for cls in CLASSES:
        if chk.want('bin1'):
            jobs += [('bin1', op, t.kind, n, cls) for op in M.BINOPS for t in M.T13]
        if chk.want('un1'):
            jobs += [('un1', op, cls) for op in M.UNOPS]
        if chk.want('cast'):
            jobs += [('cast', t.kind, None, cls) for t in M.T13]
        if chk.want('cond'):
            jobs += [('cond', p, q, cls) for p in ('int', 'float', 'logic')]
        if chk.want('misc'):
            jobs.append(('misc', cls))
        if chk.want('flit'):
            jobs.append(('flit', cls))
        t3 = ('int', 'ulong', 'double') if q else tuple(t.kind for t in REDUCED)
        if chk.want('depth2'):
            for shape in ('L',) if q else ('L', 'R'):
                jobs += [('depth2', o1, o2, shape, 2 if q else 3, t3, cls) for o1 in M.BINOPS for o2 in M.BINOPS]
    if chk.want('lit'):
        jobs.append(('lit', 's'))
    random.Random(chk.seed).shuffle(jobs)
    jobs.sort(key=lambda j: 0 if j[0] in ('misc', 'cond', 'lit') else 2 if j[0] == 'depth2' else 1)      # long jobs first, depth 2 last
    if not q and not os.environ.get('VERIF_DEADLINE_S'):
        chk.deadline = min(chk.deadline, chk.t0 + 1260)      # leave time for the witnesses inside the 30 minute budget
    chk.log('%d jobs' % len(jobs))

    strata, cells, values, recs, sanity, samples = {}, set(), set(), [], [], []
    tot = {'runs': 0, 'transitions': 0, 'expected_reject': 0, 'undefined_nocrash': 0, 'cases': 0, 'ok': 0, 'pruned': 0, 'unconfirmed_on_replay': 0}
    ctxs = {}
    capped = {}
    done = 0
    for spec, stats, r, c, v, s, sample in fs.pimap(_job, jobs):
        done += 1
        st = strata.setdefault(spec[0], {'cases': 0, 'transitions': 0, 'disagreements': 0, 'cpu_s': 0.0})
        ntg = 1 if (spec[0] == 'depth2' and spec[4] == 2) else len(CLASSES[spec[-1]])
        st['cases'] += stats['cases'] * ntg
        st['transitions'] += stats['transitions']
        st['disagreements'] += stats['disagreements']
        st['cpu_s'] = round(st['cpu_s'] + stats['cpu_s'], 1)
        for k, x in stats['capped'].items():
            capped[k] = capped.get(k, 0) + x
        for k in tot:
            tot[k] += stats.get(k, 0)
        tot['cases'] += stats['cases'] * (ntg - 1)
        for k, x in stats['ctx'].items():
            ctxs[k] = ctxs.get(k, 0) + x
        cells |= c
        values |= v
        recs += r
        sanity += s
        if sample and len(samples) < 6 and sample['stratum'] not in {x['stratum'] for x in samples}:
            samples.append(sample)
        if chk.expired():
            chk.log('deadline: %d of %d jobs done' % (done, len(jobs)))
            break
    chk.log('%d cases, %d observations, %d compiler runs, %d disagreements with R (%d kept for consultation); worker cpu by stratum: %s' % (
        tot['cases'], tot['transitions'], tot['runs'], sum(st['disagreements'] for st in strata.values()), len(recs),
        {k: v['cpu_s'] for k, v in strata.items()}))

    # address constants
    addr_bad = []
    if chk.want('addr'):
        for ncase, runs, out, nforms in fs.pmap(_addr_job, list(CLASSES)):
            strata.setdefault('addr', {'cases': 0, 'transitions': 0, 'disagreements': 0, 'cpu_s': 0.0})
            strata['addr']['cases'] += ncase
            strata['addr']['transitions'] += ncase
            strata['addr']['disagreements'] += len(out)
            tot['cases'] += ncase
            tot['transitions'] += ncase
            tot['runs'] += runs
            ctxs['address'] = ctxs.get('address', 0) + ncase
            addr_bad += out
            cells |= {('addr', i, '-') for i in range(nforms)}

    # non-constant expressions where a constant is required
    nonconst_bad = []
    if chk.want('nonconst'):
        for ncase, runs, out in fs.pmap(_nonconst_job, list(CLASSES)):
            st = strata.setdefault('nonconst', {'cases': 0, 'transitions': 0, 'disagreements': 0, 'cpu_s': 0.0})
            st['cases'] += ncase
            st['transitions'] += ncase
            st['disagreements'] += len(out)
            tot['cases'] += ncase
            tot['transitions'] += ncase
            tot['runs'] += runs
            tot['expected_reject'] += ncase
            ctxs['nonconstant-reject'] = ctxs.get('nonconstant-reject', 0) + ncase
            nonconst_bad += out
        cells |= {('nonconst', e, c) for e in NONCONST for c, _ in NONCONST_CTX}

    # ---- two-witness rule ---------------------------------------------------------------------------------
    ambiguous = 0
    amb_classes = {}
    okrecs = [r for r in recs if r['kind'] == 'ok']
    lines = {}
    index = {}
    for r in okrecs:
        ln = WLINE % (r['eq'], r['src'], r['tname'])
        k = (r['cls'], ln)
        if k not in index:
            index[k] = len(lines.setdefault(r['cls'], []))
            lines[r['cls']].append(ln)
    # sanity sample: cases where cproc agreed with R
    sanity = sorted(set(sanity))[:6000]
    slines = {}
    for cls, ln in sanity:
        slines.setdefault(cls, []).append(ln)
    chk.log('witness consultation: %d disagreeing lines, %d sanity lines' % (sum(map(len, lines.values())), len(sanity)))
    failing = witness_check(lines) if lines else {}
    sfail = witness_check(slines) if slines else {}
    sanity_disagree = sum(len(v) for v in sfail.values())
    for cls, idx in sfail.items():
        for i in sorted(idx)[:5]:
            chk.notes.append('sanity: a witness of class %s does not accept R\'s value: %s' % (cls, slines[cls][i]))

    def amb(r, why):
        nonlocal ambiguous
        ambiguous += 1
        k = '%s/%s/%s: %s' % (r['stratum'], r['opclass'], r['tclass'], why)
        amb_classes[k] = amb_classes.get(k, 0) + 1
        if amb_classes[k] == 1 and len(chk.notes) < 40:
            chk.notes.append('ambiguous (%s): %s -- R: %s; cproc: %s' % (why, r['src'], r['expected'], r['mism'][0][2]))

    rejjobs, rejrecs, perkey, extras = [], [], {}, {}
    recs.sort(key=lambda r: (r['cls'] != 's', len(r['src']), r['src']))      # the simplest case represents its family
    for r in recs:
        key = violation_key(r)
        r['key'] = key
        if key.startswith('crash/'):
            report(chk, r)
            continue
        if r['kind'] == 'ok':
            ln = WLINE % (r['eq'], r['src'], r['tname'])
            if index[(r['cls'], ln)] in failing[r['cls']]:
                amb(r, 'a witness does not accept the value or type R assigns')
                continue
            report(chk, r)
        else:
            # cproc accepted what R wants rejected: every witness must reject it too (at most 25 consultations per family)
            perkey[key] = perkey.get(key, 0) + 1
            if perkey[key] <= 25:
                rejjobs.append((r['cls'], r['input']))
                rejrecs.append(r)
            else:
                extras.setdefault(key, []).append(r)
    verdict = {}
    for r, rejected in zip(rejrecs, fs.pmap(_witness_rejects, rejjobs) if rejjobs else []):
        verdict.setdefault(r['key'], []).append(rejected)
        if rejected:
            report(chk, r)
        else:
            amb(r, 'a witness accepts what R calls invalid')
    for key, rs in extras.items():      # beyond the 25 consulted per family: follow the family's unanimous verdict
        for r in rs:
            if all(verdict.get(key, [False])):
                report(chk, r)
            else:
                amb(r, 'family not unanimously confirmed by the witnesses')
    for target, e, ctx, src, obs in nonconst_bad:
        cls = 's' if target == 'x86_64-sysv' else 'u'
        key = 'crash/%s/nonconst' % obs.replace(' ', '-') if obs.startswith('status') else 'nonconstant-accepted/%s' % ctx
        if not obs.startswith('status') and not _witness_rejects((cls, src)):
            ambiguous += 1
            chk.notes.append('ambiguous: non-constant %s accepted in context %s by cproc and by a witness' % (e, ctx))
            continue
        chk.violation(key, '%s in context %s (%s): expected a diagnostic, compiler gave %s' % (e, ctx, target, obs),
                      files={'input.c': src.encode()}, cmd='$CPROC_QBE -t %s input.c; echo "status=$? -- expected: non-zero"' % target)
    for target, text, sym, off, form, obs in addr_bad:
        rc, asm, _ = witness.clang_asm(PRELUDE + text + '\n', target=target)
        m = re.search(r'\.(?:quad|xword|dword)\s+%s(?:\s*([+-])\s*(\d+))?\s*$' % sym, asm.decode(errors='replace'), re.M)
        woff = None if not m else (int(m.group(2)) * (-1 if m.group(1) == '-' else 1) if m.group(2) else 0)
        if rc != 0 or woff != off:
            ambiguous += 1
            chk.notes.append('ambiguous address constant %s: R %s%+d, clang %s' % (text, sym, off, woff))
            continue
        chk.violation('address-constant/' + re.sub(r'\{[nik]\}', 'N', ADDR_FORMS[form][0].split('= ')[1].rstrip(';')) + ('/rejected' if obs.startswith('rejected') else ''), '%s (%s): expected %s%+d, compiler gave %s' % (text, target, sym, off, obs),
                      files={'input.c': (PRELUDE + text + '\n').encode()}, cmd='$CPROC_QBE -t %s input.c' % target)

    cov = {
        'states': len(cells),
        'transitions': tot['transitions'],
        'traces_validated_against_impl': tot['cases'],
        'evaluations': tot['transitions'],
        'compiler_runs': tot['runs'],
        'distinct_nontrivial': len(values),
        'samples': samples + [{'expression': r['src'], 'class': r['cls'], 'expected': r['expected'],
                               'observed': ['%s on %s: %s' % m for m in r['mism'][:3]], 'key': r.get('key')} for r in recs[:3]],
        'strata': strata,
        'contexts': ctxs,
        'ambiguous': ambiguous,
        'ambiguous_classes': amb_classes,
        'expected_reject': tot['expected_reject'],
        'undefined_operations_checked_for_no_crash': tot['undefined_nocrash'],
        'depth2_cases_pruned_as_judged_at_depth1': tot['pruned'],
        'disagreements_with_R': sum(st['disagreements'] for st in strata.values()),
        'unconfirmed_on_replay': tot['unconfirmed_on_replay'],
        'same_family_cases_not_individually_consulted': capped,
        'witness_sanity_lines': len(sanity),
        'witness_sanity_disagreements': sanity_disagree,
        'rule': 'state = (operator, operand type pair) cell of the folding table; transition = (cell, operand values, folding context, target) '
                'observed in the real compiler and compared with cmodel; every cell x boundary-value pair of the stated sets is enumerated',
    }
    return chk.finish(cov, M.ASSUMPTIONS + [
        'values: V(T) of DESIGN.md section 5 (quick: first 5 per type, thorough: all); depth 2 over {int, unsigned, long, unsigned long, double, char}',
        'oracle D (run-time evaluation of the same expression) is exercised by the C01 check, not here',
        'long double is documented unsupported and excluded; character constants belong to C14',
        'witnesses judge R\'s value and type through a file-scope array bound (clang refuses floating operands in _Static_assert) with -std=gnu11; '
        'whether a construct is a constraint violation is asked with -std=c11 -pedantic-errors unless the unit uses an extension (binary literal, enum EL)',
        'the _Static_assert context compares floating values too, which relies on cproc (like gcc) folding floating operands there; strictly that is not an '
        'integer constant expression',
        'contexts beyond static initialiser / _Static_assert / _Generic type run on x86_64 for every case and on aarch64 for the cases that mention plain char '
        '(the only type whose values differ between the targets); riscv64 gets the first three contexts',
        'per (job, family) at most 25 disagreeing cases are replayed alone and put to the witnesses; the rest of the family is counted under '
        'same_family_cases_not_individually_consulted and not reported',
    ])


def report(chk, r):
    ctx, target, obs = r['mism'][0]
    what = '%s [%s, context %s]: R expects %s, compiler gave %s' % (r['src'], target, ctx, r['expected'], obs)
    if len(r['mism']) > 1:
        what += ' (+%d more contexts/targets: %s)' % (len(r['mism']) - 1, ', '.join(sorted({m[0] for m in r['mism'][1:]})))
    chk.violation(r['key'], what, files={'input.c': r['input'].encode()},
                  cmd='$CPROC_QBE -t %s input.c; echo "status=$? -- expected: %s"' % (r['target'], r['expected'].replace('"', "'")),
                  detail='stratum %s cell %s class %s triggers %s' % (r['stratum'], r['cell'], r['cls'], r['trig']))
