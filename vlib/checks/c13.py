"""C13 — source text is split into tokens by C11 6.4 maximal munch.

K3: complete enumeration of short strings over the punctuator and pp-number alphabets, of all keyword
spellings and their one-character perturbations, of prefix/quote combinations, and of splice/comment
insertions at every position; observation = token dump of the real scanner (fork-server `tokens` mode);
oracle = reference lexer clex (R), clang -dump-tokens consulted on every disagreement (two-witness rule).
"""
import itertools
import os
import re
import subprocess

from .. import clex, fs, ilexec

LEVEL = 'model_checking'

PUNCT = '+-*/%&|^!~<>=.?:;,#()[]{}'
NUMAL = '019aeEpx.+-_'

GROUPS = [
    {'_Alignas', 'alignas'}, {'_Alignof', 'alignof', '__alignof', '__alignof__'}, {'_Bool', 'bool'},
    {'_Static_assert', 'static_assert'}, {'_Thread_local', 'thread_local', '__thread'},
    {'__asm', '__asm__', 'asm'}, {'__attribute__', '__attribute'}, {'inline', '__inline', '__inline__'},
    {'signed', '__signed', '__signed__'}, {'typeof', '__typeof', '__typeof__'}, {'volatile', '__volatile', '__volatile__'},
    {'const', '__const', '__const__'}, {'restrict', '__restrict', '__restrict__'}, {'_Complex', '__complex__'},
]


def group(w):
    for g in GROUPS:
        if w in g:
            return g
    return {w}


def norm(toks):
    """cproc token dump -> [(class, spelling)] in clex vocabulary (keywords keep class 'kw')."""
    return [(c, s.decode('latin-1')) for c, s, *_ in toks]


def same(exp, got):
    """exp from clex (no keywords in these strata except via ident spelling), got from cproc."""
    if len(exp) != len(got):
        return False
    for (ec, es), (gc, gs) in zip(exp, got):
        if gc == 'kw':
            if ec != 'ident' or gs not in group(es):
                return False
        elif (ec, es) != (gc, gs):
            return False
    return True


# ---------------------------------------------------------------------------
# batched line-per-case runs


def run_lines(srv, cases, prefix='; '):
    """Run many one-line cases in one tokens-mode execution; returns list of token lists per case,
    or None if the run did not exit 0 (caller falls back to single runs)."""
    src = ''.join(prefix + c + '\n' for c in cases)
    r = srv.tokens(src.encode('latin-1'))
    if r.status != 0:
        return None
    per = [[] for _ in cases]
    npre = len(clex.tokens(prefix))
    for t in fs.parse_tokens(r.out):
        ln = t[2]
        if 1 <= ln <= len(cases):
            per[ln - 1].append(t)
    return [norm(p)[npre:] for p in per]


def run_single(srv, text):
    r = srv.tokens(text.encode('latin-1'))
    if r.status != 0:
        return ('status', r.status, r.err.decode(errors='replace')[:200])
    return norm(fs.parse_tokens(r.out))


def expected(text):
    try:
        return clex.tokens(text)
    except ValueError as e:
        return ('reject', str(e))


def _job(batch):
    """batch = (stratum, [case text...]); cases are single-line strings (may be isolated when they can swallow lines)."""
    stratum, cases = batch
    srv = fs.server('fs')
    res = []
    safe = [c for c in cases if '/*' not in c and '\n' not in c and '"' not in c and "'" not in c]
    unsafe = [c for c in cases if c not in set(safe)] if len(safe) != len(cases) else []
    got = run_lines(srv, safe) if safe else []
    if got is None:
        unsafe = cases
        safe, got = [], []
    for c, g in zip(safe, got):
        e = expected('; ' + c + '\n')
        e = e[1:] if isinstance(e, list) else e
        res.append((stratum, c, e, g))
    for c in unsafe:
        e = expected('; ' + c + '\n')
        e = e[1:] if isinstance(e, list) else e
        g = run_single(srv, '; ' + c + '\n')
        if isinstance(g, list):
            g = g[1:]
        res.append((stratum, c, e, g))
    return res


SEP = 'zzSEPzz'


def _rt_job(batch):
    """-E round trip: expected = clex tokens of the case; observed = clex tokens of cproc's -E text of the case."""
    srv = fs.server('fs')
    todo = []
    for st, c in batch:
        e = expected('; ' + c + '\n')
        # a '#' that begins a logical line is a directive, not a token of the text
        if isinstance(e, list) and not re.search(r'\n[ \t]*(/\*.*?\*/[ \t]*)*#', c.replace('\\\n', '')):
            todo.append((st, c, e[1:]))
    res = []

    def one(st, c, e):
        r = srv.run(['-E'], ('; ' + c + '\n').encode('latin-1'), 0, 5)
        if r.status != 0:
            return (st, c, e, ('status', r.status, r.err[:100].decode('latin-1')))
        try:
            return (st, c, e, clex.tokens(r.out.decode('latin-1'))[1:])
        except ValueError as x:
            return (st, c, e, ('status', 'unscannable', str(x)))
    src = ''.join('; %s\n%s\n' % (c, SEP) for _, c, _ in todo)
    r = srv.run(['-E'], src.encode('latin-1'), 0, 20)
    per = None
    if r.status == 0:
        try:
            toks = clex.tokens(r.out.decode('latin-1'))
            per, cur = [], []
            for t in toks:
                if t == ('ident', SEP):
                    per.append(cur[1:])
                    cur = []
                else:
                    cur.append(t)
            if len(per) != len(todo) or cur:
                per = None
        except ValueError:
            per = None
    if per is None:
        return [one(*t) for t in todo]
    for (st, c, e), g in zip(todo, per):
        res.append((st, c, e, g) if g == e else one(st, c, e))
    return res


def clang_tokens(text):
    """Token spellings according to clang -dump-tokens, or None if clang diagnoses an error."""
    p = subprocess.run(['clang', '-std=c11', '-fsyntax-only', '-Xclang', '-dump-tokens', '-x', 'c', '-'],
                       input=text.encode('latin-1'), stdout=subprocess.PIPE, stderr=subprocess.PIPE, timeout=60)
    toks = []
    for ln in p.stderr.decode('latin-1').splitlines():
        m = re.match(r"^(\S+) '(.*)'\t", ln)
        if m:
            if m.group(1) == 'eof':
                continue
            toks.append(m.group(2))
        elif 'error:' in ln:
            return None
    return toks


def main(chk):
    q = chk.quick
    strata = {}
    cases = []   # (stratum, text)
    excluded = {'digraph': 0, 'trigraph': 0}

    def add(stratum, text):
        if clex.has_digraph(text):
            excluded['digraph'] += 1
            return
        if clex.has_trigraph(text):
            excluded['trigraph'] += 1
            return
        cases.append((stratum, text))

    # P1: all strings over the punctuator alphabet
    p1 = []
    for n in range(1, (3 if q else 4) + 1):
        for t in itertools.product(PUNCT, repeat=n):
            s = ''.join(t)
            p1.append(s)
            add('P1', s)
    # P2: pp-numbers
    p2 = []
    for n in range(1, (4 if q else 5) + 1):
        for t in itertools.product(NUMAL, repeat=n):
            s = ''.join(t)
            if re.match(r'\.?[019]', s):
                p2.append(s)
                add('P2', s + '+1')
    # P4: prefixes
    for pre in ('L', 'U', 'u', 'u8', 'u8x', 'U8', 'Lu', 'x', 'uL', 'u88', ''):
        for rest in ("'a'", '"a"', " 'a'", ' "a"', 'x', '', "''", '""', "'\\''", '"\\""', "'a'b", '"a"L"b"', "'\\\\'", '"a""b"'):
            add('P4', pre + rest + ' z')
    # P5: splice / comment insertion at every position of short P1/P2 strings and a few words
    base5 = [s for s in p1 if len(s) <= (2 if q else 3)] + [s for s in p2 if len(s) <= (3 if q else 4)] + \
        ['while', 'u8"a"', "L'a'", 'a+++b', 'x<<=y', '1e+5-1', '0xe+1', 'a-->b', 'a---b', '...', '..', '->*']
    for s in base5:
        if clex.has_digraph(s) or clex.has_trigraph(s):
            continue
        for pos in range(0, len(s) + 1):
            cases.append(('P5s', s[:pos] + '\\\n' + s[pos:]))
            if 0 < pos < len(s):
                cases.append(('P5c', s[:pos] + '/**/' + s[pos:]))
                cases.append(('P5l', s[:pos] + '//x\n' + s[pos:]))
    # comments and splices inside each other: a // comment continued by a splice, a splice between the two characters of a
    # comment opener or closer, comment openers inside the other kind of comment and inside literals
    for a in ('a', '+', '1', '"s"'):
        for b in ('b', '-', '2', "'c'"):
            for mid in ('//x\\\ny\n', '//\\\n\\\nz\n', '/\\\n/x\n', '/\\\n*x*/', '/*x*\\\n/', '/*//*/', '//*x\n', '// /*\n', '/*\\\n*/', '//x\\ \n',
                        '/* // */', '/**/', '/***/', '/*/*/', '//\\\n', '/* \\\n */', '"//"', '"/*"', "'/*'", '/* " */', "/* ' */", "// '\n", '// "\n'):
                cases.append(('P5x', a + mid + b))
                cases.append(('P5x', a + ' ' + mid + ' ' + b))
    # P6: every white-space character of 6.4p3 (space, horizontal tab, new-line, vertical tab, form-feed), alone and in pairs, between,
    # before and after tokens of every class: it separates tokens and is no token itself (seeded round 11: isblank() for the whole set)
    for n in (1, 2):
        for ws in itertools.product(' \t\n\v\f', repeat=n):
            w = ''.join(ws)
            for a, b in (('a', 'b'), ('1', '+'), ('+', '+'), ('"s"', 'x'), ('x', "'c'"), ('.', '.'), ('<', '<'), ('-', '>'), ('int', 'x'), ('0x1', 'e'), ('L', '"s"')):
                cases.append(('P6', a + w + b))
            cases.append(('P6', w + 'a;'))
            cases.append(('P6', 'a' + w + ';' + w))
    chk.log('%d cases (P1 %d, P2 %d), excluded %r' % (len(cases), len(p1), len(p2), excluded))

    # batches: multi-line cases (P5) go one per run inside the job
    bystr = {}
    for st, t in cases:
        bystr.setdefault(st, []).append(t)
    batches = []
    for st, ts in bystr.items():
        for i in range(0, len(ts), 1500):
            batches.append((st, ts[i:i + 1500]))
    nrun = 0
    distinct = set()
    bad = []
    trans = set()
    for res in fs.pimap(_job, batches):
        for st, c, e, g in res:
            nrun += 1
            strata[st] = strata.get(st, 0) + 1
            if isinstance(g, list):
                distinct.add(tuple(g))
                for a, b in zip([('bol', '')] + g, g):
                    trans.add((a[0], a[1][-1:] if a[0] == 'punct' else '', b[0], b[1][:3] if b[0] == 'punct' else ''))
            ok = same(e, g) if isinstance(e, list) and isinstance(g, list) else \
                (isinstance(e, tuple) and isinstance(g, tuple) and g[1] == 1)
            if not ok:
                bad.append((st, c, e, g))
        if chk.expired():
            break
    # P7: the -E text of every case, scanned again, is the same token sequence (token spelling table, separation of neighbours)
    rt_cases = [(st, t) for st, t in cases if st != 'P2' or len(t) <= 5]
    rtb = [rt_cases[i:i + 400] for i in range(0, len(rt_cases), 400)]
    nrt = 0
    for res in fs.pimap(_rt_job, rtb):
        for st, c, e, g in res:
            nrt += 1
            if g != e:
                chk.violation('P7/%s' % ('rejected-status-%s' % g[1] if isinstance(g, tuple) else 'round-trip-differs'),
                              '%r: tokens %r, tokens of the -E text %r' % (c, e, g), files={'input.c': ('; ' + c + '\n').encode('latin-1')},
                              cmd='$CPROC_QBE -E input.c')
        if chk.expired():
            break
    nrun += nrt
    strata['P7'] = nrt
    # P3: keywords and perturbations
    kwres = p3_keywords(chk, q)
    nrun += kwres['evaluations']
    np6 = p6_semantic(chk)
    nrun += np6
    strata['P6'] = np6
    # two-witness rule on every disagreement
    amb = 0
    for st, c, e, g in bad:
        text = '; ' + c + '\n'
        if isinstance(e, list):
            ct = clang_tokens(text)
            agrees = ct is not None and ct[1:] == [s for _, s in e]
        else:
            ct = clang_tokens(text)
            agrees = ct is None
        if not agrees:
            amb += 1
            if len(chk.notes) < 20:
                chk.notes.append('ambiguous %s %r: clex %r clang %r cproc %r' % (st, c, e, ct, g))
            continue
        fam = classify(st, c, e, g)
        chk.violation(fam, '%r: expected tokens %r, scanner gave %r' % (c, e, g), files={'input.c': text.encode('latin-1')},
                      cmd='$CPROC_QBE -E input.c; echo "expected tokens: %s"' % (' '.join(s for _, s in e) if isinstance(e, list) else 'rejection'))
    cov = {
        'states': len({(a, b) for a, b, _, _ in trans}) + 1,
        'transitions': len(trans),
        'traces_validated_against_impl': nrun,
        'evaluations': nrun,
        'distinct_nontrivial': len(distinct),
        'samples': [{'input': '; ' + c, 'expected': expected('; ' + c + '\n')[1:]} for _, c in (cases[40], cases[len(cases) // 2], cases[-5])],
        'strata': strata,
        'excluded_documented_unsupported': excluded,
        'ambiguous': amb,
        'keywords': kwres,
        'rule': 'state = (class, last character) of the previous token, transition = (state, class and first characters of the next token) as observed '
                'in the real scanner output; every string of the stated alphabets up to the length bound is one trace run through the real scanner',
    }
    return chk.finish(cov, [
        'clex implements C11 6.4 without digraphs (documented unsupported) and trigraphs (excluded, counted)',
        'clang -dump-tokens is consulted for every disagreement; disagreement between clex and clang makes the case ambiguous',
    ])


P6 = open(os.path.join(os.path.dirname(os.path.dirname(os.path.dirname(os.path.abspath(__file__)))), 'corpus', 'c13', 'p6.c')).read()


def p6_semantic(chk):
    """the split is observable in the value: executed through il2c and compared with gcc and clang"""
    import shutil
    d = ilexec.workdir('c13.')
    try:
        try:
            got = ilexec.exec_program(P6, d)[:2]
        except ilexec.CompileError as e:
            chk.violation('P6/rejects-valid-program', 'the semantic probe program is rejected: %s' % e, files={'input.c': P6.encode()}, cmd='$CPROC_QBE input.c > /dev/null')
            return 0
        r1 = ilexec.exec_reference(P6, d, compiler='gcc')[:2]
        r2 = ilexec.exec_reference(P6, d, compiler='clang')[:2]
        if r1 != r2 or r1[0] != 0:
            chk.notes.append('P6 ambiguous: gcc %r clang %r' % (r1, r2))
            return 0
        # 0xe+1 is ONE preprocessing number (6.4.8) and therefore an invalid constant: must be rejected
        r = fs.server('fs').compile(b'int v = 0xe+1;\n')
        if r.status != 1:
            chk.violation('P6/0xe+1-accepted', '`int v = 0xe+1;` gives status %d: the pp-number 0xe+1 was split' % r.status, files={'input.c': b'int v = 0xe+1;\n'}, cmd='$CPROC_QBE input.c')
        if got != r1:
            g, r = got[1].split(), r1[1].split()
            idx = next((i for i, (x, y) in enumerate(zip(g, r)) if x != y), -1)
            chk.violation('P6/value-%d-differs' % idx, 'semantic probes: cproc+il2c prints %r, gcc and clang print %r' % (got, r1), files={'input.c': P6.encode()},
                          cmd='$CPROC_QBE input.c | head -3')
        return len(r1[1].split())
    finally:
        shutil.rmtree(d, ignore_errors=True)


def classify(st, c, e, g):
    if isinstance(g, tuple):
        return '%s/rejected-or-crashed-status-%s' % (st, g[1])
    if isinstance(e, tuple):
        return '%s/accepted-unterminated' % st
    if st == 'P2' or (st.startswith('P5') and any(cl == 'number' for cl, _ in e)):
        # which expected token was mis-split?
        for (ec, es), (gc, gs) in zip(e, g):
            if (ec, es) != (gc, gs):
                if ec == 'number' and gc == 'number' and gs.startswith(es) and re.search(r'[eEpP][+-]$', es):
                    return 'P2/pp-number-absorbs-second-sign-after-exponent'
                break
        return st + '/pp-number-split'
    exp_sp = [s for _, s in e]
    got_sp = [s for _, s in g]
    return '%s/punctuator-split expected=%s got=%s' % (st, '_'.join(exp_sp)[:24], '_'.join(got_sp)[:24]) if st == 'P1' else st + '/token-split'


def _kw_job(words):
    srv = fs.server('fs')
    out = []
    got = run_lines(srv, words, prefix='; ')
    for w, g in zip(words, got):
        r = srv.compile(('int %s = 1;\n' % w).encode())
        out.append((w, g, r.status))
    return out


def p3_keywords(chk, quick):
    must = set(clex.C11_KEYWORDS) | {'typeof', 'typeof_unqual', '__asm__'}
    may = set(clex.MAY_KEYWORDS) - must
    alpha = 'aeilnotu_1' if quick else 'abcdefghilmnoprstuwxy_01'
    words = set(must) | may
    for k in sorted(must | may):
        for i in range(len(k)):
            words.add(k[:i] + k[i + 1:])
            words.add(k[:i] + k[i].swapcase() + k[i + 1:])
            for a in alpha:
                words.add(k[:i] + a + k[i + 1:])
        for i in range(len(k) + 1):
            for a in alpha:
                words.add(k[:i] + a + k[i:])
    words = sorted(w for w in words if re.fullmatch(r'[A-Za-z_][A-Za-z0-9_]*', w) and not re.fullmatch(r'(u8|u|U|L)', w))
    batches = [words[i:i + 800] for i in range(0, len(words), 800)]
    n = nkw = 0
    kinds = {}
    for res in fs.pimap(_kw_job, batches):
        for w, g, st in res:
            n += 1
            iskw = len(g) == 1 and g[0][0] == 'kw'
            isid = len(g) == 1 and g[0] == ('ident', w)
            if not (iskw or isid):
                chk.violation('P3/word-not-one-token', 'word %r scanned as %r' % (w, g), files={'input.c': ('; %s\n' % w).encode()})
                continue
            nkw += iskw
            if iskw:
                kinds.setdefault(g[0][1], set()).add(w)
            if w in must:
                if not iskw:
                    chk.violation('P3/keyword-not-recognised', 'keyword %r is scanned as an identifier' % w,
                                  files={'input.c': ('int x; %s y;\n' % w).encode()}, cmd='$CPROC_QBE -E input.c')
                elif g[0][1] not in group(w):
                    chk.violation('P3/keyword-recognised-as-another', 'keyword %r is scanned as keyword %r' % (w, g[0][1]),
                                  files={'input.c': ('%s\n' % w).encode()})
            elif w in may:
                if iskw and g[0][1] not in group(w) and g[0][1] != w:
                    chk.violation('P3/alternate-spelling-denotes-wrong-keyword', 'spelling %r is scanned as keyword %r' % (w, g[0][1]),
                                  files={'input.c': ('%s\n' % w).encode()})
            elif iskw:
                chk.violation('P3/non-keyword-recognised-as-keyword', 'word %r (not a keyword spelling) is scanned as keyword %r' % (w, g[0][1]),
                              files={'input.c': ('int %s;\n' % w).encode()}, cmd='$CPROC_QBE input.c')
            # D: the parser agrees with the token dump
            if w.startswith('__builtin_'):
                continue  # predeclared names (types/functions), not plain identifiers
            if iskw and st == 0:
                chk.violation('P3/parser-accepts-keyword-as-identifier', '`int %s = 1;` accepted although %r is a keyword' % (w, w),
                              files={'input.c': ('int %s = 1;\n' % w).encode()}, cmd='$CPROC_QBE input.c')
            if isid and st != 0:
                chk.violation('P3/parser-rejects-identifier', '`int %s = 1;` rejected (status %d) although %r is an identifier' % (w, st, w),
                              files={'input.c': ('int %s;\n' % w).encode()}, cmd='$CPROC_QBE input.c')
    # keywords that reach phase 7 through a macro: used twice, stringified through a nested macro (the spelling as written),
    # identically redefined after a use, and as the body of a function-like macro
    srv = fs.server('fs')
    for w in sorted(must | may):
        kind = next((sp for sp, ws in kinds.items() if w in ws), None)
        if kind is None:
            continue
        src = ('#define S(x) #x\n#define XS(x) S(x)\n#define K %s\n#define F(a) a %s\n; K K ; XS(K) ; F(1) F(2) ; XS(F(3)) ;\n'
               '#define K %s\n#define F(a) a %s\n; K ; XS(K) F(4) ;\n' % (w, w, w, w))
        g = run_single(srv, src)
        n += 1
        K = ('kw', kind)
        want = [('punct', ';'), K, K, ('punct', ';'), ('string', '"%s"' % w), ('punct', ';'), ('number', '1'), K, ('number', '2'), K, ('punct', ';'),
                ('string', '"3 %s"' % w), ('punct', ';'), ('punct', ';'), K, ('punct', ';'), ('string', '"%s"' % w), ('number', '4'), K, ('punct', ';')]
        if g != want:
            chk.violation('P3/keyword-through-macro', 'keyword %r through macros: expected %r, got %r' % (w, want, g), files={'input.c': src.encode()}, cmd='$CPROC_QBE -E input.c')
    # distinct C11 keywords must be distinct kinds (beyond the synonym groups)
    for sp, ws in kinds.items():
        c11 = [w for w in ws if w in clex.C11_KEYWORDS]
        if len({frozenset(group(w)) for w in c11}) > 1:
            chk.violation('P3/two-keywords-share-a-kind', 'keywords %r are scanned as the same keyword %r' % (sorted(c11), sp))
    return {'evaluations': n, 'recognised_as_keyword': nkw, 'must_keywords': len(must), 'may_keywords': len(may), 'distinct_keyword_kinds': len(kinds)}
