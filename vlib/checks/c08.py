"""C08 — calls interoperate with code built by the platform compiler.

K3: every aggregate shape of a complete family (all structs with <= 3 fields over 9 field types, unions,
bit-field structs), every register-exhaustion ladder and every short variadic signature is compiled on one
side by cproc (IL -> il2c with the aggregate types rebuilt from the emitted `type` descriptors) and on the
other by gcc, linked into one executable in both directions and run: every value must arrive intact
(reference = the all-gcc build).  Structural half for all three targets: the emitted type descriptors,
flattened to (offset, size, int|float) leaves, must describe the C layout.
"""
import itertools
import os
import re
import shutil

from .. import fs, ilexec, ilparse

LEVEL = 'exploration'
TARGETS = ('x86_64-sysv', 'aarch64', 'riscv64')

# field types: (C declarator suffix-free spelling, leaves [(size, kind)] in order, alignment)
FT = {
    'c': ('char %s', [(1, 'i')], 1),
    'h': ('short %s', [(2, 'i')], 2),
    'i': ('int %s', [(4, 'i')], 4),
    'l': ('long %s', [(8, 'i')], 8),
    'f': ('float %s', [(4, 'f')], 4),
    'd': ('double %s', [(8, 'f')], 8),
    'C': ('char %s[3]', [(1, 'i')] * 3, 1),
    'F': ('float %s[2]', [(4, 'f')] * 2, 4),
    'N': ('struct { int x; float y; } %s', [(4, 'i'), (4, 'f')], 4),
}
ORDER = 'chilfdCFN'


def shapes(quick):
    out = []
    for n in (1, 2, 3):
        for t in itertools.product(ORDER, repeat=n):
            out.append(('s', ''.join(t)))
    for a, b in itertools.combinations_with_replacement(ORDER, 2):
        out.append(('u', a + b))
    return out


def layout(kind, sig):
    """(size, align, leaves[(offset, size, 'i'|'f')]) of the shape under natural alignment (all three targets agree)"""
    off, al, leaves = 0, 1, []
    size = 0
    for ch in sig:
        _, lv, a = FT[ch]
        al = max(al, a)
        if kind == 's':
            off = (off + a - 1) // a * a
            o = off
        else:
            o = 0
        for s, k in lv:
            leaves.append((o, s, k))
            o += s
        if kind == 's':
            off = o
            size = off
        else:
            size = max(size, o)
    size = (size + al - 1) // al * al
    return size, al, leaves


def accessors(kind, sig):
    """list of (lvalue suffix, 'i'|'f') for every scalar leaf"""
    if kind == 'x':
        return CUSTOM[sig][1]
    acc = []
    for i, ch in enumerate(sig):
        m = 'm%d' % i
        if ch in 'chil':
            acc.append(('.' + m, 'i'))
        elif ch in 'fd':
            acc.append(('.' + m, 'f'))
        elif ch == 'C':
            acc += [('.%s[%d]' % (m, j), 'i') for j in range(3)]
        elif ch == 'F':
            acc += [('.%s[%d]' % (m, j), 'f') for j in range(2)]
        else:
            acc += [('.%s.x' % m, 'i'), ('.%s.y' % m, 'f')]
    return acc


CUSTOM = {
    # name: (member declarations, scalar accessors)
    'bf35': ('int m0 : 3; int m1 : 5;', [('.m0', 'i'), ('.m1', 'i')]),
    'bfmix': ('char m0; int m1 : 7; short m2;', [('.m0', 'i'), ('.m1', 'i'), ('.m2', 'i')]),
    'bflong': ('long m0 : 33; int m1 : 2;', [('.m0', 'i'), ('.m1', 'i')]),
    'bfzero': ('unsigned m0 : 1; unsigned : 0; unsigned m1 : 1;', [('.m0', 'i'), ('.m1', 'i')]),
    'bftail': ('char m0; char : 0; char m1; int : 0;', [('.m0', 'i'), ('.m1', 'i')]),
    'bffloat': ('float m0; int m1 : 9; float m2;', [('.m0', 'f'), ('.m1', 'i'), ('.m2', 'f')]),
    'bfdouble': ('unsigned m0 : 31; double m1;', [('.m0', 'i'), ('.m1', 'f')]),
    'al8': ('char m0; _Alignas(8) char m1;', [('.m0', 'i'), ('.m1', 'i')]),
    'al16': ('_Alignas(16) int m0; float m1;', [('.m0', 'i'), ('.m1', 'f')]),
    'al16d': ('double m0; _Alignas(16) double m1;', [('.m0', 'f'), ('.m1', 'f')]),
    'ptr': ('int *m0; char m1;', [('.m1', 'i')]),
    'arr2d': ('short m0[2][2]; char m1;', [('.m0[0][1]', 'i'), ('.m0[1][0]', 'i'), ('.m1', 'i')]),
    'nest2': ('struct { struct { char c; double d; } in; float f; } m0; char m1;', [('.m0.in.c', 'i'), ('.m0.in.d', 'f'), ('.m0.f', 'f'), ('.m1', 'i')]),
    'un_in': ('union { float f; int i; } m0; double m1;', [('.m0.f', 'f'), ('.m1', 'f')]),
    'big': ('long m0[5]; double m1[3];', [('.m0[0]', 'i'), ('.m0[4]', 'i'), ('.m1[2]', 'f')]),
    'f3': ('float m0[3];', [('.m0[0]', 'f'), ('.m0[1]', 'f'), ('.m0[2]', 'f')]),
    'f4': ('float m0[4];', [('.m0[0]', 'f'), ('.m0[3]', 'f')]),
    'd2f': ('double m0[2]; float m1;', [('.m0[1]', 'f'), ('.m1', 'f')]),
    'c17': ('char m0[17];', [('.m0[0]', 'i'), ('.m0[16]', 'i')]),
    'c16': ('char m0[16];', [('.m0[0]', 'i'), ('.m0[15]', 'i')]),
}


def typedef(idx, kind, sig):
    if kind == 'x':
        return 'struct S%d { %s };' % (idx, CUSTOM[sig][0]), 'struct S%d' % idx
    body = ' '.join((FT[ch][0] % ('m%d' % i)) + ';' for i, ch in enumerate(sig))
    return '%s S%d { %s };' % ('struct' if kind == 's' else 'union', idx, body), '%s S%d' % ('struct' if kind == 's' else 'union', idx)


def side_source(me, other, shp, base):
    """C source of one side: definitions me_* and a test function me_run calling other_*"""
    src = ['int printf(const char *, ...);\n']
    run = []
    for k, (kind, sig) in enumerate(shp):
        idx = base + k
        td, T = typedef(idx, kind, sig)
        acc = accessors(kind, sig)
        if kind == 'u':
            acc = accessors('s', sig[0])  # a union holds one member at a time: use the first
        src.append(td + '\n')
        fill = ' '.join('s%s = %s;' % (a, ('(k + %d) * 3' % j) if t == 'i' else ('(k + %d) * 0.5' % j)) for j, (a, t) in enumerate(acc))
        summ = ' + '.join('(double)s%s * %d' % (a, j + 1) for j, (a, t) in enumerate(acc))
        src.append('%s %s_mk%d(int k) { %s s; %s return s; }\n' % (T, me, idx, T, fill))
        src.append('double %s_sum%d(%s s) { return %s; }\n' % (me, idx, T, summ))
        src.append('%s %s_pass%d(long a, double d, %s s, int t, %s u) { s%s += t; (void)a; (void)d; (void)u; return s; }\n' % (T, me, idx, T, T, acc[0][0]))
        src.append('%s %s_mk%d(int k); double %s_sum%d(%s s); %s %s_pass%d(long a, double d, %s s, int t, %s u);\n' % (
            T, other, idx, other, idx, T, T, other, idx, T, T))
        run.append('printf("%%d %%g %%g %%g\\n", %d, %s_sum%d(%s_mk%d(3)), %s_sum%d(%s_mk%d(5)), %s_sum%d(%s_pass%d(7, 1.5, %s_mk%d(2), 4, %s_mk%d(9))));' % (
            idx, other, idx, me, idx, me, idx, other, idx, me, idx, other, idx, me, idx, other, idx))
    src.append('void %s_run(void) {\n%s\n}\n' % (me, '\n'.join(run)))
    return ''.join(src)


def ladder_source(me, other, shp, base):
    """register-exhaustion ladders: k leading longs and j leading doubles before the aggregate"""
    src = ['int printf(const char *, ...);\n']
    run = []
    for k, (kind, sig) in enumerate(shp):
        idx = base + k
        td, T = typedef(idx, kind, sig)
        acc = accessors(kind if kind != 'u' else 's', sig if kind != 'u' else sig[0])
        src.append(td + '\n')
        fill = ' '.join('s%s = %s;' % (a, '(k + %d) * 3' % j if t == 'i' else '(k + %d) * 0.25' % j) for j, (a, t) in enumerate(acc))
        summ = ' + '.join('(double)s%s * %d' % (a, j + 1) for j, (a, t) in enumerate(acc))
        src.append('static %s %s_lmk%d(int k) { %s s; %s return s; }\n' % (T, me, idx, T, fill))
        for nl in range(0, 8):
            for nd in (0, 3, 7, 8, 9):
                if nd and nl not in (0, 5, 6, 7):
                    continue
                params = ['long x%d' % i for i in range(nl)] + ['double y%d' % i for i in range(nd)] + ['%s s' % T, 'int tail']
                body = 'return %s + tail%s%s;' % (summ, ''.join(' + x%d * %d' % (i, i + 2) for i in range(nl)), ''.join(' + y%d * %d' % (i, i + 3) for i in range(nd)))
                name = 'lad%d_%d_%d' % (idx, nl, nd)
                src.append('double %s_%s(%s) { %s }\n' % (me, name, ', '.join(params), body))
                src.append('double %s_%s(%s);\n' % (other, name, ', '.join(params)))
                args = ['%dL' % (i + 11) for i in range(nl)] + ['%d.5' % (i + 1) for i in range(nd)] + ['%s_lmk%d(%d)' % (me, idx, nl + nd), '42']
                run.append('printf("%s %%g\\n", %s_%s(%s));' % (name, other, name, ', '.join(args)))
    src.append('void %s_run(void) {\n%s\n}\n' % (me, '\n'.join(run)))
    return ''.join(src)


def variadic_source(me, other):
    """variadic definitions on both sides; calls with every type string of length <= 3 over {i,l,d,p} and position ladders"""
    src = ['int printf(const char *, ...);\ntypedef __builtin_va_list va_list;\n',
           'double %s_vsum(const char *fmt, ...) { va_list ap; double r = 0; int n = 1; __builtin_va_start(ap, fmt);\n'
           ' for (; *fmt; ++fmt, ++n) { switch (*fmt) { case \'i\': r += n * __builtin_va_arg(ap, int); break; case \'l\': r += n * (double)__builtin_va_arg(ap, long); break;\n'
           ' case \'d\': r += n * __builtin_va_arg(ap, double); break; case \'p\': r += n * (double)*__builtin_va_arg(ap, int *); break; case \'u\': r += n * (double)__builtin_va_arg(ap, unsigned); break; } }\n'
           ' __builtin_va_end(ap); return r; }\n' % me,
           'double %s_vsum2(int a, double b, const char *fmt, ...) { va_list ap, aq; double r = a + b; __builtin_va_start(ap, fmt); __builtin_va_copy(aq, ap);\n'
           ' for (; *fmt; ++fmt) { if (*fmt == \'i\') r += __builtin_va_arg(aq, int); else r += __builtin_va_arg(aq, double); } __builtin_va_end(aq); __builtin_va_end(ap); return r; }\n' % me,
           'double %s_vsum(const char *fmt, ...); double %s_vsum2(int a, double b, const char *fmt, ...);\nstatic int pv = 17;\n' % (other, other)]
    vals = {'i': '-7', 'l': '4294967301L', 'd': '2.25', 'p': '&pv', 'u': '4000000000u'}
    run = []
    for n in range(0, 4):
        for t in itertools.product('ildpu', repeat=n):
            run.append('printf("%s %%g\\n", %s_vsum("%s"%s));' % (''.join(t) or '-', other, ''.join(t), ''.join(', ' + vals[c] for c in t)))
    for pos in range(0, 10):
        for c in 'ld':
            t = ['i'] * pos + [c] + ['i'] * 2
            run.append('printf("lad%d%s %%g\\n", %s_vsum("%s"%s));' % (pos, c, other, ''.join(t), ''.join(', ' + vals[x] for x in t)))
            t2 = ['d'] * pos + [c] + ['d']
            run.append('printf("ladd%d%s %%g\\n", %s_vsum("%s"%s));' % (pos, c, other, ''.join(t2), ''.join(', ' + vals[x] for x in t2)))
    for n in range(0, 4):
        for t in itertools.product('id', repeat=n):
            run.append('printf("v2%s %%g\\n", %s_vsum2(3, 0.5, "%s"%s));' % (''.join(t) or '-', other, ''.join(t), ''.join(', ' + vals[c] for c in t)))
    src.append('void %s_run(void) {\n%s\n}\n' % (me, '\n'.join(run)))
    return ''.join(src)


MAIN = 'void a_run(void); void b_run(void); int main(void) { a_run(); b_run(); return 0; }\n'


def _job(a):
    """Build the three executables (cproc/gcc, gcc/cproc, gcc/gcc) of one unit and compare outputs."""
    name, gen, args = a
    d = ilexec.workdir('c08.')
    try:
        srcs = {'a': gen('a', 'b', *args), 'b': gen('b', 'a', *args)}
        objs = {}
        diag = None
        for side in 'ab':
            cfile = os.path.join(d, side + '.c')
            open(cfile, 'w').write(srcs[side])
            ok, out = ilexec.cc_obj(cfile, os.path.join(d, side + '.gcc.o'))
            if not ok:
                return (name, 'infra', 'gcc rejects generated unit: ' + out[-500:], srcs)
            try:
                il = ilexec.cproc_il(srcs[side].encode())
            except ilexec.CompileError as e:
                return (name, 'cproc-rejects', str(e), srcs)
            syms = re.findall(r'\b([ab]_\w+)\b', srcs[side])
            same = {s: s for s in set(syms)}
            c = ilexec.il_to_c(il, prefix=side + 'l_', export_map=same, extern_map=same)
            ilc = os.path.join(d, side + '.il.c')
            open(ilc, 'w').write(c)
            ok, out = ilexec.cc_obj(ilc, os.path.join(d, side + '.cproc.o'), sanitize=True)
            if not ok:
                return (name, 'infra', 'il2c output does not compile: ' + out[-800:], srcs)
        mainc = os.path.join(d, 'main.c')
        open(mainc, 'w').write(MAIN)
        outs = {}
        for combo in (('gcc', 'gcc'), ('cproc', 'gcc'), ('gcc', 'cproc'), ('cproc', 'cproc')):
            exe = os.path.join(d, 'x_%s_%s' % combo)
            ok, out = ilexec.cc([mainc, os.path.join(d, 'a.%s.o' % combo[0]), os.path.join(d, 'b.%s.o' % combo[1])], exe, sanitize=True)
            if not ok:
                return (name, 'infra', 'link failed: ' + out[-500:], srcs)
            outs[combo] = ilexec.run(exe)[:2]
        ref = outs[('gcc', 'gcc')]
        bad = [(c, o) for c, o in outs.items() if o != ref]
        return (name, 'ok' if not bad else 'diff', (ref, bad), srcs)
    finally:
        shutil.rmtree(d, ignore_errors=True)


def first_diff(ref, got):
    if ref[0] != got[0] or not isinstance(got[1], bytes):
        return 'status %r vs %r' % (ref[0], got[0])
    for a, b in zip(ref[1].split(b'\n'), got[1].split(b'\n')):
        if a != b:
            return 'reference line %r, observed %r' % (a.decode(), b.decode())
    return 'different length'


def structural(chk, shp):
    """type descriptors vs C layout, all targets"""
    n = 0
    src = []
    for idx, (kind, sig) in enumerate(shp):
        td, T = typedef(idx, kind, sig)
        src.append('%s\n%s st_mk%d(%s s) { return s; }\n' % (td, T, idx, T))
    unit = ''.join(src)
    srv = fs.server('fs')
    for t in TARGETS:
        r = srv.compile(unit, target=t, cpu_s=30)
        if r.status != 0:
            chk.violation('structural/unit-rejected', 'descriptor unit rejected for %s: %s' % (t, r.err[:200]), files={'input.c': unit.encode()})
            continue
        m = ilparse.parse(r.out)
        fty = {f.name: f.retty for f in m.funcs}
        for idx, (kind, sig) in enumerate(shp):
            ty = fty.get('$st_mk%d' % idx)
            n += 1
            size, al, leaves = layout(kind, sig)
            if ty is None or not ty.startswith(':'):
                chk.violation('structural/no-aggregate-type', 'shape %s%s on %s: return type is %r' % (kind, sig, t, ty), files={'input.c': unit.encode()})
                continue
            gs, ga, gl = ilparse.type_layout(m, ty)
            want_f = sorted((o, s) for o, s, k in leaves if k == 'f')
            got_f = sorted((o, s) for o, s, k in gl if k == 'f')
            cover_want = set()
            for o, s, k in leaves:
                if k == 'i':
                    cover_want |= set(range(o, o + s))
            cover_got = set()
            for o, s, k in gl:
                if k != 'f':
                    cover_got |= set(range(o, o + s))
            problem = None
            if gs != size:
                problem = 'size %d, sizeof is %d' % (gs, size)
            elif ga != al:
                problem = 'alignment %d, _Alignof is %d' % (ga, al)
            elif kind == 's' and got_f != want_f:
                problem = 'float leaves %r, C layout has %r' % (got_f, want_f)
            elif kind == 's' and not cover_want <= cover_got:
                problem = 'integer leaves do not cover bytes %r' % sorted(cover_want - cover_got)
            elif kind == 's' and any(b in cover_got for o, s in want_f for b in range(o, o + s)):
                problem = 'an integer leaf overlaps a float member'
            if problem:
                td, T = typedef(idx, kind, sig)
                chk.violation('structural/%s/%s' % ('struct' if kind == 's' else 'union', problem.split(',')[0].split(' ')[0]),
                              'shape %s on %s: descriptor has %s' % (td, t, problem),
                              files={'input.c': ('%s\n%s f(%s s) { return s; }\n' % (td, T, T)).encode()}, cmd='$CPROC_QBE -t %s input.c | grep ^type' % t)
    # the same shapes as UNNAMED parameters of function definitions, each type seen there for the first time in its unit
    src = []
    for idx, (kind, sig) in enumerate(shp):
        td, T = typedef(idx, kind, sig)
        src.append('%s\nint st_un%d(long a, %s, int x) { return x + (int)a; }\n' % (td, idx, T))
    unit = ''.join(src)
    for t in TARGETS:
        r = srv.compile(unit, target=t, cpu_s=30)
        if r.status != 0:
            chk.violation('structural/unit-rejected', 'unnamed-parameter unit rejected for %s: %s' % (t, r.err[:200]), files={'input.c': unit.encode()})
            continue
        m = ilparse.parse(r.out)
        fn = {f.name: f for f in m.funcs}
        for idx, (kind, sig) in enumerate(shp):
            f = fn.get('$st_un%d' % idx)
            n += 1
            cls = [p[0] for p in f.params] if f else None
            size, al, leaves = layout(kind, sig)
            problem = None
            if not cls or len(cls) != 3 or cls[0] != 'l' or cls[2] != 'w' or not cls[1].startswith(':'):
                problem = 'parameter classes %r, expected [l, :aggregate, w]' % (cls,)
            else:
                gs, ga, gl = ilparse.type_layout(m, cls[1])
                if gs != size or ga != al:
                    problem = 'descriptor of the unnamed parameter has size %d alignment %d, C layout %d / %d' % (gs, ga, size, al)
            if problem:
                td, T = typedef(idx, kind, sig)
                chk.violation('structural/unnamed-parameter/%s' % problem.split(' ')[0], 'shape %s on %s as an unnamed parameter: %s' % (td, t, problem),
                              files={'input.c': ('%s\nint f(long a, %s, int x) { return x; }\n' % (td, T)).encode()}, cmd='$CPROC_QBE -t %s input.c | grep -E "^type|^function"' % t)
    return n


SPECIAL = [
    ('fam-int', 'int n; int a[];'), ('fam-char-after-long', 'long l; char c; char d[];'), ('fam-struct-elems', 'short h; struct { char a; short b; } e[];'),
    ('fam-only-after-char', 'char c; double d[];'),
    ('array2d', 'float m[2][2];'), ('array3d', 'char c[2][3][2]; short t;'), ('array-of-struct-2d', 'struct { char a; int b; } p[2][3]; char z;'),
    ('nested-union-array', 'union { double d[1][2]; long l; } u; float f;'), ('bitfield-then-array', 'int b : 5; char a[3];'),
    ('bool-enum-ptr', '_Bool b; enum { SPQ } e; void *p; void (*f)(void);'), ('anonymous-members', 'char c; union { int i; float f; }; struct { short a, b; }; char z;'),
    # unnamed bit-fields leave gaps the descriptor must account for; packed and zero-length members (GNU); judged on x86_64-sysv only (-x86)
    ('gap-zero-width-bitfield-x86', 'char a; int : 0; char b;'), ('gap-unnamed-bitfield-16-x86', 'char a; int : 16; char b;'), ('gap-unnamed-bitfield-then-int-x86', 'char a; int : 3; int i;'),
    ('gap-long-unnamed-bitfield-x86', 'char a; long : 40; char b;'), ('gap-zero-width-then-short-x86', 'short s; char c; int : 0; short t;'),
    ('zero-length-array-x86', 'int n; int a[0];'), ('zero-length-array-middle-x86', 'char c; long z[0]; char d;'),
    ('packed-char-int-x86', 'char c; int i;'), ('packed-int-char-x86', 'int i; char c;'), ('packed-char-double-short-x86', 'char c; double d; short s;'), ('packed-only-chars-x86', 'char a, b, c;'),
    ('tail-padding', 'long l; char c;'), ('nested-tail-padding', 'struct { long l; char c; } in; char z;'), ('char-array-17', 'char c[17];'), ('three-floats-and-double', 'float a, b, c; double d;'),
]


def special_descriptors(chk):
    """type descriptors of shapes outside the generated alphabet (flexible array members, multi-dimensional arrays, anonymous
    members, ...): size and alignment of the descriptor against sizeof/_Alignof as gcc computes them (the host ABI equals the
    natural-alignment layout of all three targets for these member types)."""
    d = ilexec.workdir('c08s.')
    n = 0
    try:
        prog = ['#include <stdio.h>\n']
        for i, (name, body) in enumerate(SPECIAL):
            prog.append('struct %ssp%d { %s };\n' % ('__attribute__((packed)) ' if name.startswith('packed-') else '', i, body))
        prog.append('int main(void) {\n' + ''.join('printf("%%zu %%zu\\n", sizeof(struct sp%d), _Alignof(struct sp%d));\n' % (i, i) for i in range(len(SPECIAL))) + 'return 0; }\n')
        c = os.path.join(d, 'w.c')
        open(c, 'w').write(''.join(prog))
        ok, out = ilexec.cc([c], os.path.join(d, 'w'), sanitize=False)
        if not ok:
            raise RuntimeError('gcc rejects the special-shape unit: ' + out[-400:])
        want = [tuple(map(int, l.split())) for l in ilexec.run(os.path.join(d, 'w'))[1].decode().split('\n') if l]
    finally:
        shutil.rmtree(d, ignore_errors=True)
    srv = fs.server('fs')
    for i, (name, body) in enumerate(SPECIAL):
        unit = 'struct %ssp%d { %s };\nstruct sp%d sp_f%d(long a, struct sp%d s) { (void)a; return s; }\n' % ('__attribute__((packed)) ' if name.startswith('packed-') else '', i, body, i, i, i)
        for t in TARGETS:
            if name.endswith('-x86') and t != 'x86_64-sysv':
                continue
            n += 1
            r = srv.compile(unit, target=t, cpu_s=30)
            if r.status != 0:
                chk.violation('structural/special/%s/rejected' % name, 'shape %s rejected on %s: %s' % (name, t, r.err[:200]), files={'input.c': unit.encode()})
                continue
            m = ilparse.parse(r.out)
            f = [x for x in m.funcs if x.name == '$sp_f%d' % i]
            ty = f[0].retty if f else None
            if not ty or not ty.startswith(':'):
                chk.violation('structural/special/%s/no-aggregate-type' % name, 'shape %s on %s: return type %r' % (name, t, ty), files={'input.c': unit.encode()})
                continue
            gs, ga, gl = ilparse.type_layout(m, ty)
            if (gs, ga) != want[i]:
                chk.violation('structural/special/%s/size-or-alignment' % name, 'struct { %s } on %s: descriptor has size %d alignment %d, sizeof/_Alignof are %d/%d' % (
                    body, t, gs, ga, want[i][0], want[i][1]), files={'input.c': unit.encode()}, cmd='$CPROC_QBE -t %s input.c | grep ^type' % t)
    return n


# aggregates passed in the VARIABLE part of a variadic call, where the call is the first use of the type in the unit (no definition
# or prototype has described it before): the argument must still be passed as the aggregate type, defined before the call
# (seeded round 10: the types of a call taken from the prototype only)
VARIADIC_AGGREGATES = [
    ('two-doubles', 'struct va%d { double x, y; }'), ('int-float', 'struct va%d { int i; float f; }'), ('union-long-double', 'union va%d { long l; double d; }'),
    ('char-array-3', 'struct va%d { char c[3]; }'), ('large', 'struct va%d { long a[5]; }'), ('nested', 'struct va%d { struct { short s; char c; } in; double d; }'),
    ('bit-fields', 'struct va%d { int a : 3; unsigned b : 9; }'), ('float-only', 'struct va%d { float f; }'), ('pointer-pair', 'struct va%d { void *p; char *q; }'),
    ('union-of-structs', 'union va%d { struct { float a, b; } f; struct { int i, j; } n; }'),
]


def variadic_aggregates(chk):
    srv = fs.server('fs')
    n = 0
    forms = (('direct', 'int vf(int, ...);\nint user(%(t)s *p) { return vf(1, *p); }\n'),
             ('direct-second-variable-argument', 'int vf(int, ...);\nint user(%(t)s *p) { return vf(1, 2.5, *p); }\n'),
             ('through-member-pointer', 'struct ops { int (*log)(const char *, ...); } o;\nint user(%(t)s *p) { return o.log("x", *p); }\n'),
             ('no-named-parameter', 'int v0(...);\nint user(%(t)s *p) { return v0(*p); }\n'),
             ('two-aggregates', 'int vf(int, ...);\nint user(%(t)s *p, %(t)s *q) { return vf(2, *p, *q); }\n'),
             ('object-not-dereference', 'int vf(int, ...);\nint user(void) { %(t)s v = {0}; return vf(1, v); }\n'))
    for i, (name, decl) in enumerate(VARIADIC_AGGREGATES):
        tag = (decl % i).split('{')[0].strip()
        for fname, form in forms:
            unit = decl % i + ';\n' + form % dict(t=tag)
            for t in TARGETS:
                n += 1
                r = srv.compile(unit, target=t, cpu_s=30)
                if r.status != 0:
                    chk.violation('structural/variadic-aggregate/rejected', '%s/%s rejected on %s: %s' % (name, fname, t, r.err[:200]), files={'input.c': unit.encode()})
                    continue
                m = ilparse.parse(r.out)
                f = [x for x in m.funcs if x.name == '$user']
                calls = [ins for b in f[0].blocks for ins in b.insts if ins.op == 'call'] if f else []
                if len(calls) != 1:
                    chk.violation('structural/variadic-aggregate/no-call', '%s/%s on %s: %d calls' % (name, fname, t, len(calls)), files={'input.c': unit.encode()})
                    continue
                tys = [a[0] for a in calls[0].callargs]
                want = 2 if fname == 'two-aggregates' else 1
                agg = [x for x in tys if x.startswith(':')]
                if len(agg) != want or any(ilparse.type_layout(m, x) is None for x in agg):
                    chk.violation('structural/variadic-aggregate/not-passed-as-aggregate', '%s (%s) as variable argument, %s, on %s: the call passes %r' % (tag, name, fname, t, tys),
                                  files={'input.c': unit.encode()}, cmd='$CPROC_QBE -t %s input.c | grep "call\\|^type"' % t)
    return n


# scalar parameter and return classes: definitions, prototyped calls, calls through pointers, unprototyped-style (variadic) calls.
# (type spelling, class in a signature, class after the default argument promotions, value expression)
SCALARS = [
    ('char', 'w', 'w'), ('signed char', 'w', 'w'), ('unsigned char', 'w', 'w'), ('short', 'w', 'w'), ('unsigned short', 'w', 'w'), ('_Bool', 'w', 'w'),
    ('int', 'w', 'w'), ('unsigned', 'w', 'w'), ('enum se', 'w', 'w'), ('enum sel', 'l', 'l'), ('long', 'l', 'l'), ('unsigned long', 'l', 'l'), ('long long', 'l', 'l'),
    ('unsigned long long', 'l', 'l'), ('float', 's', 'd'), ('double', 'd', 'd'), ('int *', 'l', 'l'), ('void *', 'l', 'l'), ('const char *const', 'l', 'l'),
    ('sfn *', 'l', 'l'), ('sfn', 'l', 'l'), ('sarr', 'l', 'l'), ('struct sinc *', 'l', 'l'), ('int (*)[3]', 'l', 'l'), ('sarr *', 'l', 'l'), ('__builtin_va_list *', 'l', 'l'),
]
SCALAR_PRE = ('enum se { SE0, SE1 }; enum sel { SEL0 = 0x100000000 }; typedef int sfn(int); typedef int sarr[3]; struct sinc;\nint sv(int, ...);\n'
              'int sv0(...); struct svo { int (*log)(...); int (*fmt)(int, ...); };\n')


def scalar_signatures(chk):
    """The class of every scalar parameter, argument and result in the IL equals the class the C type has after adjustment
    (6.7.6.3p7-8) resp. after the default argument promotions (6.5.2.2p6-7), in definitions, calls and calls through pointers."""
    src = [SCALAR_PRE]
    for i, (t, cls, pcls) in enumerate(SCALARS):
        src.append('typedef typeof(%s) sty%d;\n' % (t, i))
        ty = 'sty%d' % i
        ret = ty if t not in ('sfn', 'sarr') else 'long'      # functions cannot return functions or arrays
        src.append('%s sd%d(%s);\n' % (ret, i, ty))                                                    # prototype only
        src.append('%s sk%d(long pad, %s a) { (void)a; return sd%d(a); }\n' % (ret, i, ty, i))         # definition + prototyped call
        src.append('%s sp%d(%s (*fp)(%s), %s a) { return fp(a); }\n' % (ret, i, ret, ty, ty))          # call through a pointer
        src.append('int sq%d(%s a) { return sv(1, a); }\n' % (i, ty))                                  # variable argument: promoted class
        src.append('int sz%d(%s a, struct svo *o, int (**pp)(...)) { return sv0(a) + sv0() + o->log(a, 2) + (**pp)(a) + o->fmt(3, a); }\n' % (i, ty))   # no named parameter at all
    unit = ''.join(src)
    n = 0
    srv = fs.server('fs')
    for t in TARGETS:
        r = srv.compile(unit, target=t, cpu_s=30)
        if r.status != 0:
            chk.violation('signature/unit-rejected', 'scalar signature unit rejected for %s: %s' % (t, r.err[:200]), files={'input.c': unit.encode()})
            continue
        m = ilparse.parse(r.out)
        fn = {f.name: f for f in m.funcs}

        def calls(f):
            return [i for b in f.blocks for i in b.insts if i.op == 'call']
        for i, (ty, cls, pcls) in enumerate(SCALARS):
            rcls = cls if ty not in ('sfn', 'sarr') else 'l'
            probs = []
            k = fn.get('$sk%d' % i)
            if k is None:
                probs.append('definition sk%d missing' % i)
            else:
                n += 4
                if k.retty != rcls:
                    probs.append('definition returns class %s, expected %s' % (k.retty, rcls))
                if [p[0] for p in k.params] != ['l', cls]:
                    probs.append('definition has parameter classes %r, expected %r' % ([p[0] for p in k.params], ['l', cls]))
                c = calls(k)
                if len(c) != 1 or c[0].cls != rcls or [a[0] for a in c[0].callargs] != [cls]:
                    probs.append('prototyped call is %r -> %r, expected [%r] -> %r' % ([a[0] for a in c[0].callargs] if c else None, c[0].cls if c else None, cls, rcls))
            p = fn.get('$sp%d' % i)
            if p is not None:
                n += 2
                c = calls(p)
                if [x[0] for x in p.params] != ['l', cls] or len(c) != 1 or c[0].cls != rcls or [a[0] for a in c[0].callargs] != [cls]:
                    probs.append('call through pointer: parameters %r, call %r -> %r; expected argument %r, result %r' % (
                        [x[0] for x in p.params], [a[0] for a in c[0].callargs] if c else None, c[0].cls if c else None, cls, rcls))
            q = fn.get('$sq%d' % i)
            if q is not None:
                n += 1
                c = calls(q)
                if len(c) != 1 or [a[0] for a in c[0].callargs] != ['w', pcls] or c[0].vararg_at != 1:
                    probs.append('variable argument passed as %r (marker at %r), expected [w, %s] with the marker after the first' % (
                        [a[0] for a in c[0].callargs] if c else None, c[0].vararg_at if c else None, pcls))
            z = fn.get('$sz%d' % i)
            if z is not None:
                n += 1
                c = calls(z)
                shape = [([a[0] for a in x.callargs], x.vararg_at) for x in c]
                want = [([pcls], 0), ([], 0), ([pcls, 'w'], 0), ([pcls], 0), (['w', pcls], 1)]
                if shape != want:
                    probs.append('calls of functions without named parameters are %r, expected %r (argument classes, position of the variadic marker)' % (shape, want))
            else:
                probs.append('definition sz%d missing' % i)
            for pr in probs:
                chk.violation('signature/scalar-class/%s' % ty.replace(' ', '-'), 'type %s on %s: %s' % (ty, t, pr), files={'input.c': unit.encode()},
                              cmd='$CPROC_QBE -t %s input.c | grep -n "s[kpq]%d"' % (t, i))
    return n


def main(chk):
    shp = shapes(chk.quick)
    dyn = list(shp) + [('x', k) for k in CUSTOM]
    if not chk.quick:
        # 4-field structs over the classification-relevant types
        dyn += [('s', ''.join(t)) for t in itertools.product('cilfd', repeat=4)]
    jobs = []
    per = 45
    for i in range(0, len(dyn), per):
        jobs.append(('shapes_%d' % i, side_source, (dyn[i:i + per], i)))
    lad = [('s', x) for x in ('c', 'i', 'l', 'd', 'ff', 'ld', 'dl', 'fif', 'ill', 'lld', 'dd', 'CC', 'N', 'lll', 'ddd', 'id', 'cdc')] + [('x', 'bfmix'), ('x', 'big'), ('x', 'f3')]
    if chk.quick:
        lad = lad[:8] + lad[-3:]
    for i in range(0, len(lad), 3):
        jobs.append(('ladder_%d' % i, ladder_source, (lad[i:i + 3], 5000 + i)))
    jobs.append(('variadic', variadic_source, ()))
    nlines = 0
    nfun = 0
    outs = set()
    args_of = {j[0]: j for j in jobs}
    retry = []

    def report(name, verdict, info, srcs, single):
        nonlocal nlines, nfun
        if verdict == 'infra':
            if info.startswith('gcc rejects generated unit'):
                raise RuntimeError('%s: %s' % (name, info))
            from ..runner import SubjectFailure
            raise SubjectFailure('il-untranslatable/' + name.split(':')[0], '%s: %s' % (name, info[:800]), files={'a.c': srcs['a'].encode(), 'b.c': srcs['b'].encode()}, cmd='$CPROC_QBE a.c')
        if verdict == 'cproc-rejects':
            if not single and name in args_of and len(args_of[name][2]) == 2 and len(args_of[name][2][0]) > 1:
                retry.append(name)
                return
            chk.violation('rejects-valid/' + name, '%s: %s' % (name, info), files={'input.c': srcs['a'].encode()}, cmd='$CPROC_QBE input.c > /dev/null')
            return
        ref, bad = info
        if not single:
            nlines += len(ref[1].split(b'\n'))
            nfun += srcs['a'].count('\n')
            outs.add(ref[1])
        if ref[0] != 0:
            chk.notes.append('reference build of %s exits with %r' % (name, ref[0]))
            return
        if bad and not single and name in args_of and len(args_of[name][2]) == 2 and len(args_of[name][2][0]) > 1:
            retry.append(name)
            return
        for combo, o in bad:
            fam = 'both-sides-cproc' if combo == ('cproc', 'cproc') else 'a-%s-b-%s' % combo
            chk.violation('%s/%s' % (name, fam), '%s with a=%s b=%s: %s' % (name, combo[0], combo[1], first_diff(ref, o)),
                          files={'a.c': srcs['a'].encode(), 'b.c': srcs['b'].encode(), 'main.c': MAIN.encode()},
                          cmd='echo "build a.c with %s and b.c with %s (cproc side through il2c), link with main.c, compare with the all-gcc build"' % combo)

    for name, verdict, info, srcs in fs.pimap(_job, jobs):
        report(name, verdict, info, srcs, False)
        if chk.expired():
            break
    # units that differ are split into one unit per shape so that the violation names the shape
    jobs2 = []
    for name in retry:
        _, gen, (lst, base) = args_of[name]
        for k, s in enumerate(lst):
            jobs2.append(('%s:%s%s' % (name.split('_')[0], s[0], s[1]), gen, ([s], base + k)))
    for name, verdict, info, srcs in fs.pimap(_job, jobs2):
        report(name, verdict, info, srcs, True)
    nstruct = structural(chk, shp)
    nscalar = scalar_signatures(chk)
    nstruct += special_descriptors(chk)
    nstruct += variadic_aggregates(chk)
    cov = {
        'evaluations': nlines + nstruct + nscalar,
        'scalar_signature_checks': nscalar,
        'distinct_nontrivial': len(shp),
        'rule': 'all structs with <= 3 fields over {char, short, int, long, float, double, char[3], float[2], struct{int;float}} and all 2-member unions: '
                'make/sum/pass functions defined on both sides and called across the compiler boundary in both directions; ladders of 0-7 long and 0-9 double parameters before the aggregate; '
                'variadic calls with every type string of length <= 3 over {int, long, double, pointer, unsigned} and position ladders; distinct = aggregate shapes',
        'samples': [{'shape': dyn[40], 'side_source_excerpt': side_source('a', 'b', dyn[40:41], 40)[:700]}],
        'shapes_dynamic': len(dyn),
        'shapes_structural': len(shp),
        'units': len(jobs),
        'result_lines_compared': nlines,
        'source_lines_per_side': nfun,
        'descriptor_checks': nstruct,
        'distinct_outputs': len(outs),
    }
    return chk.finish(cov, [
        'dynamic check on x86_64 SysV only (no aarch64/riscv64 execution possible); IL executed under il2c, aggregate types rebuilt from the emitted descriptors',
        'structural check: natural-alignment layout of the enumerated shapes is the same on all three targets',
        'scalar classes: this cproc passes every sub-word integer as w (the callee narrows on entry, the caller extends the result); the table is '
        'w for integers up to int, l for 64-bit integers and pointers (also adjusted array and function parameters), s and d; promoted float is d',
    ])
