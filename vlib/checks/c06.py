"""C06 — object layout equals the platform ABI.

The layout of a struct is the run of a small state machine (bit position, alignment, flexible flag) over its
member list, so all of its transitions are reached by SHORT member sequences, which are enumerated completely:

  L1  every member sequence up to a length bound over the member alphabet (scalars, pointer, bit-fields (B, w)
      incl. zero-width and unnamed), as struct and as union
  L2  modifiers: packed, _Alignas(n) / _Alignas(type) / __attribute__((aligned(n))) on one member, flexible array
      member appended, array members
  L3  nesting to depth 4 with named, anonymous and array-of-record members; offsetof with nested designators
  L4  enums: enumerator lists over boundary values, with and without fixed underlying type

Observation: per struct Si  `unsigned long vi[] = {sizeof, _Alignof, offsetof...}`  and for every probed member m
`struct Si qi_j = {.m = -1};` whose data image shows offset AND bit position; thousands per unit, per target.
Oracle: vlib/layout.py (R) per target; witnesses clang --target x3 and gcc (host x86_64) compiling the same unit
to assembly.  A violation is reported only where cproc != R and every witness of that target == R.

Keys: a difference that a triaged known-defect hypothesis (explain(): a variant of R describing ONE root cause) reproduces
exactly is filed under that root cause; every other difference gets <stratum>/<feature of the type>-<what differs>.
States / transitions of the layout machine are counted inside layout.layout() while R runs.
"""
import itertools
import struct

from .. import fs, witness
from .. import layout as L

LEVEL = 'model_checking'

TARGETS = L.TARGETS

# ---------------------------------------------------------------------------
# member alphabet

ORD = [L.CHAR, L.SHORT, L.INT, L.LONG, L.UCHAR, L.UINT, L.ULONG, L.DOUBLE, L.FLOAT, L.PTR]
WIDTHS = (1, 3, 7, 8, 9, 15, 16, 17, 31, 32, 33, 63, 64)
BFBASE = [(L.CHAR, 8), (L.USHORT, 16), (L.INT, 32), (L.UINT, 32), (L.LONG, 64), (L.ULONG, 64), (L.BOOL, 1)]


def _alphabet():
    syms = [(t, None, True) for t in ORD]
    for b, mx in BFBASE:
        for w in WIDTHS:
            if w <= mx:
                syms.append((b, w, True))
    for b in (L.CHAR, L.USHORT, L.INT, L.LONG, L.BOOL):
        syms.append((b, 0, False))
    for b, w in ((L.CHAR, 3), (L.USHORT, 9), (L.INT, 3), (L.INT, 17), (L.UINT, 32), (L.LONG, 3), (L.LONG, 33), (L.ULONG, 63)):
        syms.append((b, w, False))
    return syms


ALPHA = _alphabet()


def _sub():
    want = [(L.CHAR, None, True), (L.SHORT, None, True), (L.INT, None, True), (L.LONG, None, True), (L.DOUBLE, None, True),
            (L.PTR, None, True),
            (L.CHAR, 3, True), (L.CHAR, 8, True), (L.USHORT, 9, True), (L.USHORT, 16, True), (L.INT, 1, True), (L.INT, 7, True),
            (L.INT, 17, True), (L.INT, 32, True), (L.UINT, 15, True), (L.UINT, 31, True), (L.LONG, 3, True), (L.LONG, 33, True),
            (L.LONG, 63, True), (L.ULONG, 64, True), (L.BOOL, 1, True),
            (L.CHAR, 0, False), (L.INT, 0, False), (L.LONG, 0, False), (L.INT, 3, False), (L.LONG, 33, False)]
    return [ALPHA.index(s) for s in want]


SUB = _sub()            # indices into ALPHA
SUB4 = [ALPHA.index(s) for s in [(L.CHAR, None, True), (L.INT, None, True), (L.LONG, None, True), (L.CHAR, 3, True), (L.USHORT, 9, True),
                                 (L.INT, 7, True), (L.INT, 17, True), (L.UINT, 31, True), (L.LONG, 33, True), (L.ULONG, 64, True),
                                 (L.BOOL, 1, True), (L.CHAR, 0, False), (L.INT, 0, False), (L.LONG, 0, False), (L.INT, 3, False),
                                 (L.LONG, 33, False)]]
ORDIDX = list(range(len(ORD)))
ALIGNS = (1, 2, 4, 8, 16, 32, 64)
class _AT:
    """operand of _Alignas(type-name) whose size differs from its alignment"""

    def __init__(self, cname, align):
        self.cname, self.align = cname, align


ALIGNTYPES = [L.CHAR, L.SHORT, L.INT, L.LONG, L.DOUBLE, L.LDOUBLE,
              _AT('struct { int a, b; }', 4), _AT('short[4]', 2), _AT('char[16]', 1), _AT('struct { char c[3]; }', 1), _AT('struct { double d; char c; }', 8), _AT('int[3]', 4),
              _AT('union { char c[5]; short h; }', 2), _AT('long[2]', 8)]

# ---------------------------------------------------------------------------
# case construction.  A case descriptor is a small picklable tuple; build() turns it into a Case.


class Case:
    """one type definition with its probes.  expect: 'valid' | 'reject' (constraint violation) |
    'unsupported' (documented / extension cproc may refuse; if accepted the layout is still judged)"""

    def __init__(self, desc, defs, T, expect='valid', feature=''):
        self.desc, self.defs, self.T, self.expect, self.feature = desc, defs, T, expect, feature


def mk_members(idxs, prefix='m', alignas=None):
    """members for symbol indices; alignas = (position, n, spelling) or None"""
    ms = []
    for i, si in enumerate(idxs):
        t, w, named = ALPHA[si] if isinstance(si, int) else si
        m = L.Member('%s%d' % (prefix, i) if named else None, t, w)
        if alignas and alignas[0] == i:
            m.alignas, m.alignas_spelling = alignas[1], alignas[2]
        ms.append(m)
    return ms


def features(rec):
    f = set()
    for m in rec.members:
        if m.width is not None:
            f.add('bitfield')
            if m.width == 0:
                f.add('zero-width-bitfield')
            elif m.name is None:
                f.add('unnamed-bitfield')
        if m.alignas and m.width is None and m.alignas > L.size_align(m.type)[1]:
            f.add('alignas')
        if isinstance(m.type, L.Array) and m.type.n is None:
            f.add('flexible')
        if isinstance(m.type, L.Record):
            f.add('nested')
            f |= {x for x in features(m.type) if x.endswith('bitfield')}
        if isinstance(m.type, L.Array) and isinstance(m.type.elem, L.Record):
            f.add('nested')
    if rec.packed:
        f.add('packed')
    if rec.kind == 'union':
        f.add('union')
    return f


def build(desc, n):
    """descriptor -> Case; n is the serial number used for names in the unit"""
    st = desc[0]
    tag = 'S%d' % n
    if st == 'L1':
        _, kind, idxs = desc
        rec = L.Record(kind, tag, mk_members(idxs))
        # 6.7.2.1p8: no named member => undefined behaviour (cproc diagnoses it, gcc/clang lay it out): never judged
        return Case(desc, [rec.definition()], rec, 'valid' if any(m.name for m in rec.members) else 'undefined')
    if st == 'L2align':      # (_, kind, idxs, pos, n, how)   how: 'n' _Alignas(n) | 'attr' | ('type', i)
        _, kind, idxs, pos, al, how = desc
        t, w, named = ALPHA[idxs[pos]]
        if how == 'n':
            sp = '_Alignas(%d)' % al
        elif how == 'attr':
            sp = '__attribute__((aligned(%d)))' % al
        else:
            at = ALIGNTYPES[how[1]]
            al = at.align
            sp = '_Alignas(%s)' % at.cname
        rec = L.Record(kind, tag, mk_members(idxs, alignas=(pos, al, sp)))
        if not any(m.name for m in rec.members):
            exp = 'undefined'
        elif w is not None:
            exp = 'reject'          # 6.7.5p2: an alignment specifier shall not be given for a bit-field
        elif how == 'attr':
            exp = 'unsupported'     # GNU attribute on a member: not among cproc's documented extensions
        elif al and al < t.align:
            exp = 'reject'          # 6.7.5p4: less strict than the type requires
        else:
            exp = 'valid'
        if al == 0:
            rec.members[pos].alignas = None
        return Case(desc, [rec.definition()], rec, exp)
    if st == 'L2packed':     # (_, idxs, alignas or None)
        _, idxs, al = desc
        aa = None
        if al:
            aa = (al[0], al[1], '_Alignas(%d)' % al[1])
        rec = L.Record('struct', tag, mk_members(idxs, alignas=aa), packed=True)
        exp = 'valid'
        if any(ALPHA[i][1] is not None for i in idxs):
            exp = 'unsupported'     # documented: bit-fields in packed structs are not supported
        return Case(desc, [rec.definition()], rec, exp)
    if st == 'L2flex':       # (_, idxs, elem index)
        _, idxs, ei = desc
        ms = mk_members(idxs)
        ms.append(L.Member('fam', L.Array(ORD[ei], None)))
        rec = L.Record('struct', tag, ms)
        exp = 'valid'
        if not any(m.name for m in ms[:-1]):
            exp = 'reject'          # 6.7.2.1p18: "a structure with more than one named member"
        return Case(desc, [rec.definition()], rec, exp)
    if st == 'L2array':      # (_, kind, ((ordidx, len or 0)...))
        _, kind, items = desc
        ms = []
        for i, (oi, ln) in enumerate(items):
            t = ORD[oi]
            ms.append(L.Member('m%d' % i, L.Array(t, ln) if ln else t))
        rec = L.Record(kind, tag, ms)
        return Case(desc, [rec.definition()], rec)
    if st == 'L3':
        rec = build_nested(desc[1], tag, [0])
        return Case(desc, [rec.definition()], rec)
    raise ValueError(desc)


# L3: a nested descriptor is (kind, (item...)) with item = ('s', symbol index) | ('n', sub) named member of record type
#     | ('a', sub) anonymous member | ('v', sub, len) array of records


def build_nested(nd, tag, ctr):
    kind, items = nd
    ms = []
    for it in items:
        ctr[0] += 1
        nm = 'f%d' % ctr[0]
        if it[0] == 's':
            t, w, named = ALPHA[it[1]]
            ms.append(L.Member(nm if named else None, t, w))
        elif it[0] == 'n':
            ms.append(L.Member(nm, build_nested(it[1], None, ctr)))
        elif it[0] == 'a':
            ms.append(L.Member(None, build_nested(it[1], None, ctr)))
        else:
            ms.append(L.Member(nm, L.Array(build_nested(it[1], None, ctr), it[2])))
    return L.Record(kind, tag, ms, inline=tag is None)


def probes(T, target, base=0, txt=''):
    """[(designator text, bit offset, bits, scalar type, is bit-field)] for the scalar leaves of T; of an array only
    the first and the last element; names of anonymous members' members are used directly (they are unique per case)"""
    out = []
    if isinstance(T, L.Scalar):
        return [(txt, base, 8 * T.size, T, False)]
    if isinstance(T, L.Array):
        s, _ = L.size_align(T.elem, target)
        for i in sorted({0, (T.n or 1) - 1}) if T.n else ():
            out += probes(T.elem, target, base + 8 * s * i, txt + '[%d]' % i)
        return out
    for f in L.layout(T, target).fields:
        m = f.member
        if m.width is not None:
            out.append((txt + '.' + m.name, base + f.bitoff, f.bits, m.type, True))
        elif m.name is None:
            out += probes(m.type, target, base + f.bitoff, txt)
        else:
            out += probes(m.type, target, base + f.bitoff, txt + '.' + m.name)
    return out


def init_value(t):
    if isinstance(t, L.Scalar) and t.cls == 'ptr':
        return '(void *)-1'
    return '-1'


def expected_obs(case, target, trace=None):
    """R's observation: (size, align, (offsets...), (images...)) and the probe list"""
    T = case.T
    lay = L.layout(T, target, trace)
    pr = probes(T, target)
    offs = tuple(off // 8 for _, off, _, _, bf in pr if not bf)
    if lay.flexible or any(isinstance(m.type, L.Array) and m.type.n is None for m in T.members):
        fam = [f for f in lay.fields if isinstance(f.member.type, L.Array) and f.member.type.n is None]
        offs = offs + tuple(f.offset for f in fam)
    imgs = []
    for _, off, bits, t, bf in pr:
        img = bytearray(lay.size)
        if bf:
            v = 1 if t.cls == 'bool' else (1 << bits) - 1
        else:
            v = int.from_bytes(t.minus_one(), 'little')
        L.set_bits(img, off, bits, v)
        imgs.append(bytes(img))
    return (lay.size, lay.align, offs, tuple(imgs)), pr, lay


# Known-defect hypotheses: variants of R that describe ONE triaged root cause each.  When cproc's observation equals
# such a variant exactly, the finding is filed under that root cause's key; any other difference gets a generic key
# built from the features of the type, so a new defect can never hide under an old key.


def _drop_unnamed_in_unions(t):
    if isinstance(t, L.Array):
        return L.Array(_drop_unnamed_in_unions(t.elem), t.n)
    if not isinstance(t, L.Record):
        return t
    ms = []
    for m in t.members:
        if t.kind == 'union' and m.width is not None and m.name is None:
            continue
        m2 = L.Member(m.name, _drop_unnamed_in_unions(m.type), m.width, m.alignas, m.alignas_spelling)
        ms.append(m2)
    return L.Record(t.kind, t.tag, ms, t.packed, t.inline)


def _packed_unrounded(c, target):
    if not (isinstance(c.T, L.Record) and c.T.packed):
        return None
    e, pr, lay = expected_obs(c, target)
    end = max(((f.bitoff + f.bits + 7) // 8 for f in lay.fields), default=0)
    return (end, e[1], e[2], tuple(i[:end] for i in e[3]))


def explain(c, target, got):
    if got is None:
        return None
    if target == 'aarch64' and expected_obs(c, 'x86_64-sysv')[0] == got:
        # AAPCS64: the container type of unnamed / zero-width bit-fields contributes to the alignment; cproc applies
        # the x86-64 rule on every target
        return 'L1/aarch64-unnamed-bitfield-alignment'
    if 'unnamed-bitfield' in features(c.T):
        c2 = Case(c.desc, c.defs, _drop_unnamed_in_unions(c.T))
        if any(m.name for m in c2.T.members):
            for tg in ((target, 'x86_64-sysv') if target == 'aarch64' else (target,)):
                if expected_obs(c2, tg)[0] == got:
                    return 'L1/union-unnamed-bitfield-size'
    if _packed_unrounded(c, target) == got:
        return 'L2/packed-size-not-rounded-to-alignas'
    return None


def unit_text(case, n, pr, fam_names):
    """C text observing the case (after its definitions)"""
    T = case.T
    spec = T.spec()
    items = ['sizeof(%s)' % spec, '_Alignof(%s)' % spec]
    items += ['__builtin_offsetof(%s, %s)' % (spec, d[1:]) for d, _, _, _, bf in pr if not bf]
    items += ['__builtin_offsetof(%s, %s)' % (spec, f) for f in fam_names]
    out = ['unsigned long v%d[] = {%s};' % (n, ', '.join(items))]
    for j, (d, _, _, t, _) in enumerate(pr):
        out.append('%s q%d_%d = {%s = %s};' % (spec, n, j, d, init_value(t)))
    return out


def read_obs(objs, n, npr, noffs):
    """observation of case n out of parsed data objects, or None if incomplete"""
    v = objs.get('v%d' % n)
    if v is None or v.relocs or len(v.image) != 8 * (2 + noffs):
        return None
    vals = struct.unpack('<%dQ' % (2 + noffs), v.image)
    imgs = []
    for j in range(npr):
        o = objs.get('q%d_%d' % (n, j))
        if o is None or o.relocs:
            return None
        imgs.append(o.image)
    return (vals[0], vals[1], tuple(vals[2:]), tuple(imgs))


def diff_kind(exp, got):
    if got is None:
        return 'unreadable'
    if exp[1] != got[1]:
        return 'alignment'
    if exp[0] != got[0]:
        return 'size'
    if exp[2] != got[2]:
        return 'offset'
    if exp[3] != got[3]:
        return 'bit-position'
    return None


# ---------------------------------------------------------------------------
# worker


def witness_obs(texts, cases, target, meta):
    """{n: obs} per witness name for the given cases of one unit; witnesses: clang --target (+ gcc on x86_64)"""
    res = {}
    src = '\n'.join(texts) + '\n'
    runs = [('clang', lambda s: witness.clang_asm(s, target))]
    if target == 'x86_64-sysv':
        runs.append(('gcc', lambda s: witness.gcc_asm(s)))
    for name, fn in runs:
        rc, out, err = fn(src)
        if rc != 0:
            res[name] = None
            continue
        try:
            objs = L.parse_asm(out)
        except L.AsmError:
            res[name] = None
            continue
        res[name] = {n: read_obs(objs, n, meta[n][0], meta[n][1]) for n in cases}
    return res


def witness_accepts_single(text, target):
    """do the witnesses of the target accept this unit?  -> list of booleans"""
    out = [witness.clang_accepts(text, target, std='gnu11', pedantic=False)[0]]
    if target == 'x86_64-sysv':
        out.append(witness.gcc_accepts(text, std='gnu11', pedantic=False)[0])
    return out


def job(batch):
    """batch = (stratum, [descriptors], full_witness).  Returns a dict of counts, state sets and findings."""
    stratum, descs, full = batch
    srv = fs.server('fs')
    states, trans = set(), set()
    out = {'stratum': stratum, 'evals': 0, 'cases': 0, 'expected_reject': 0, 'unsupported_rejected': 0, 'accepts_invalid': 0,
           'ambiguous': 0, 'witness_runs': 0, 'model_vs_witness': [], 'viol': [], 'ambig_samples': [], 'distinct': set(), 'sample': None,
           'unsupported_accepted': 0, 'undefined_not_judged': 0}

    def tr(s, sym):
        states.add(s)
        trans.add((s, sym))

    cases = [build(d, i) for i, d in enumerate(descs)]
    out['cases'] = len(cases)
    for target in TARGETS:
        exp, meta, texts, valid = {}, {}, {}, []
        for n, c in enumerate(cases):
            e, pr, lay = expected_obs(c, target, tr)
            fam = [f.member.name for f in lay.fields if isinstance(f.member.type, L.Array) and f.member.type.n is None]
            exp[n] = e
            meta[n] = (len(pr), len(e[2]))
            texts[n] = c.defs + unit_text(c, n, pr, fam)
            out['distinct'].add(hash((e[0], e[1], e[2], e[3])))
            if c.expect == 'valid':
                valid.append(n)
        got = {}
        status = {}
        if valid:
            r = srv.compile('\n'.join(l for n in valid for l in texts[n]) + '\n', target=target, cpu_s=20)
            if r.status == 0:
                try:
                    objs = L.parse_qbe_data(r.out)
                    for n in valid:
                        got[n] = read_obs(objs, n, *meta[n])
                        status[n] = 0
                except L.AsmError:
                    got = {}
        for n, c in enumerate(cases):
            if n in status:
                continue
            r = srv.compile('\n'.join(texts[n]) + '\n', target=target, cpu_s=10)
            status[n] = r.status
            if r.status == 0:
                try:
                    got[n] = read_obs(L.parse_qbe_data(r.out), n, *meta[n])
                except L.AsmError:
                    got[n] = None
        out['evals'] += len(cases)
        # judge
        need_w = []
        for n, c in enumerate(cases):
            st = status[n]
            if st not in (0, 1):
                out['viol'].append(('crash/status-%d-on-%s' % (st, c.feature or stratum), c.desc, target, '\n'.join(texts[n]),
                                    'compiler status %d' % st, None, None))
                continue
            if c.expect == 'undefined':
                out['undefined_not_judged'] += 1
                continue
            if c.expect == 'reject':
                if st == 1:
                    out['expected_reject'] += 1
                else:
                    out['accepts_invalid'] += 1
                continue
            if c.expect == 'unsupported' and st == 1:
                out['unsupported_rejected'] += 1
                continue
            if c.expect == 'unsupported' and 'packed' in features(c.T) and 'bitfield' in features(c.T):
                out['unsupported_accepted'] += 1     # property C10's business
                continue
            if st == 1 or diff_kind(exp[n], got.get(n)) or full:
                need_w.append(n)
        if need_w:
            out['witness_runs'] += 1
            w = witness_obs([l for n in need_w for l in texts[n]], need_w, target, meta)
            for n in need_w:
                c = cases[n]
                wobs = {}
                for name, m in w.items():
                    if m is None:
                        # the unit as a whole failed in this witness: judge the case alone
                        m1 = witness_obs(texts[n], [n], target, meta).get(name)
                        wobs[name] = m1[n] if m1 else 'rejected'
                    else:
                        wobs[name] = m[n]
                agree = all(o == exp[n] for o in wobs.values())
                dk = 'rejected' if status[n] == 1 else diff_kind(exp[n], got.get(n))
                if not agree:
                    if dk is None:
                        out['model_vs_witness'].append((c.desc, target, '\n'.join(texts[n]), _short(exp[n]), {k: _short(v) for k, v in wobs.items()}))
                    else:
                        out['ambiguous'] += 1
                        if len(out['ambig_samples']) < 3:
                            out['ambig_samples'].append((target, '\n'.join(c.defs), _short(exp[n]), _short(got.get(n)), {k: _short(v) for k, v in wobs.items()}))
                    continue
                if dk is None:
                    continue
                if dk != 'rejected':
                    h = explain(c, target, got.get(n))
                    if h:
                        dk = 'H:' + h
                out['viol'].append((None, c.desc, target, '\n'.join(texts[n]), dk, _short(exp[n]), _short(got.get(n))))
        if out['sample'] is None and cases:
            n = len(cases) // 2
            out['sample'] = {'stratum': stratum, 'target': target, 'definition': ' '.join(cases[n].defs), 'expected(size,align,offsets)': exp[n][:3],
                             'observed': got[n][:3] if got.get(n) else status[n]}
    out['states'], out['trans'] = states, trans
    return out


def _short(o):
    if o is None or isinstance(o, str):
        return o
    return (o[0], o[1], o[2], tuple(i.hex() for i in o[3]))


# ---------------------------------------------------------------------------
# enumeration of the strata


def seqs(alpha, maxlen, minlen=1):
    for n in range(minlen, maxlen + 1):
        yield from itertools.product(alpha, repeat=n)


def gen_L1(quick):
    full = list(range(len(ALPHA)))
    for kind in ('struct', 'union'):
        for s in seqs(full, 2):
            yield ('L1-len2', True), ('L1', kind, s)
        if quick:
            for s in seqs(SUB, 3, 3):
                yield ('L1-len3', False), ('L1', kind, s)
        else:
            for s in seqs(full, 3, 3):
                yield ('L1-len3', False), ('L1', kind, s)
            for s in seqs(SUB if kind == 'struct' else SUB4, 4, 4):
                yield ('L1-len4', False), ('L1', kind, s)


def gen_L2(quick):
    ordsub = [i for i in SUB if ALPHA[i][1] is None]
    bfsub = [i for i in SUB if ALPHA[i][1] is not None]
    base = list(seqs(SUB, 2))
    # alignment specifiers on one member
    for kind in ('struct', 'union'):
        for s in base:
            for pos in range(len(s)):
                isbf = ALPHA[s[pos]][1] is not None
                if isbf:
                    if s[pos] in bfsub[:3] and len(s) == 1:
                        yield ('L2-alignas', True), ('L2align', kind, s, pos, 8, 'n')
                    continue
                for al in ALIGNS + (0,):
                    yield ('L2-alignas', True), ('L2align', kind, s, pos, al, 'n')
                for ti in range(len(ALIGNTYPES)):
                    yield ('L2-alignas', True), ('L2align', kind, s, pos, 0, ('type', ti))
    for s in seqs(ordsub, 1):
        for al in ALIGNS:
            yield ('L2-aligned-attr', True), ('L2align', 'struct', s, 0, al, 'attr')
    # packed
    for s in seqs(ORDIDX, 3):
        yield ('L2-packed', True), ('L2packed', s, None)
    for s in seqs(ORDIDX, 2, 2):
        for pos in range(2):
            for al in ALIGNS:
                if al >= ALPHA[s[pos]][0].align:
                    yield ('L2-packed-alignas', True), ('L2packed', s, (pos, al))
    for s in seqs(ORDIDX[:4] + bfsub[:6], 2):
        if any(ALPHA[i][1] is not None for i in s):
            yield ('L2-packed-bitfield', True), ('L2packed', s, None)
    # flexible array member
    for s in seqs(SUB if quick else list(range(len(ALPHA))), 2):
        for ei in range(len(ORD)):
            yield ('L2-flexible', True), ('L2flex', s, ei)
    # array members
    items = [(oi, ln) for oi in ORDIDX for ln in (0, 1, 3)]
    for kind in ('struct', 'union'):
        for s in seqs(items, 2):
            if any(ln for _, ln in s):
                yield ('L2-arrays', True), ('L2array', kind, s)


def inner_pool():
    """the 12 most distinct inner layouts of L1 (distinct (kind, size, align, tail padding) on x86_64) in enumeration order"""
    seen, pool = set(), []
    for kind in ('struct', 'union'):
        for s in seqs(SUB, 2):
            rec = L.Record(kind, None, mk_members(s))
            if not any(m.name for m in rec.members):
                continue
            lay = L.layout(rec, 'x86_64-sysv')
            used = max((f.bitoff + f.bits for f in lay.fields), default=0)
            k = (lay.size, lay.align, lay.size * 8 - used)
            if k in seen or lay.size > 24:
                continue
            seen.add(k)
            pool.append((kind, tuple(('s', i) for i in s)))
    # keep a spread: sort by (align, size) and take 12 evenly
    pool.sort(key=lambda nd: (L.layout(build_nested(nd, None, [0]), 'x86_64-sysv').align, L.layout(build_nested(nd, None, [0]), 'x86_64-sysv').size))
    step = max(1, len(pool) // 12)
    return pool[::step][:12]


def gen_L3(quick):
    scal = [('s', ALPHA.index(x)) for x in [(L.CHAR, None, True), (L.LONG, None, True), (L.INT, 3, True), (L.INT, 0, False)]]
    level = inner_pool()
    for depth in (2, 3, 4):
        nxt = []
        pool = level if depth == 2 else level[:6 if quick else 12]
        wraps = []
        for nd in pool:
            wraps += [('n', nd), ('a', nd), ('v', nd, 2)]
        items = scal + wraps
        for kind in ('struct', 'union'):
            for s in seqs(items, 2 if (depth == 2 or not quick) else 2):
                if not any(it[0] != 's' for it in s):
                    continue
                nd = (kind, s)
                yield ('L3-depth%d' % depth, True), ('L3', nd)
                nxt.append(nd)
        if depth == 2:
            # an anonymous member that does not start at offset 0, followed by further members (named, or members of a second anonymous
            # member): looking such a member up walks past the first anonymous member (seeded round 9: its offset stayed in the accumulator)
            anon = [w for w in wraps if w[0] == 'a']
            for kind in ('struct', 'union'):
                for first in scal[:2] + anon[:2]:
                    for mid in anon:
                        for last in scal[:3] + anon[::3] + [w for w in wraps if w[0] == 'n'][::4]:
                            yield ('L3-after-anonymous', True), ('L3', (kind, (first, mid, last)))
        # next level is built from the 12 most distinct layouts of this level
        seen, lv = set(), []
        for nd in nxt:
            lay = L.layout(build_nested(nd, None, [0]), 'x86_64-sysv')
            used = max((o + b for _, o, b, _, _ in L.leaves(build_nested(nd, None, [0]))), default=0)
            k = (lay.size, lay.align, lay.size * 8 - used)
            if k not in seen and lay.size <= 96:
                seen.add(k)
                lv.append(nd)
        step = max(1, len(lv) // 12)
        level = lv[::step][:12]


# ---------------------------------------------------------------------------
# L4 enums

# (expression text, value, C type of the expression)
EVALS = [
    ('0', 0, L.INT), ('1', 1, L.INT), ('-1', -1, L.INT), ('2147483647', L.INT_MAX, L.INT), ('2147483648', L.INT_MAX + 1, L.LONG),
    ('4294967295', L.UINT_MAX, L.LONG), ('4294967296', L.UINT_MAX + 1, L.LONG), ('(-2147483647-1)', L.INT_MIN, L.INT),
    ('-2147483649', L.INT_MIN - 1, L.LONG), ('9223372036854775807', L.LONG_MAX, L.LONG), ('(-9223372036854775807-1)', L.LONG_MIN, L.LONG),
    ('18446744073709551615u', L.ULONG_MAX, L.ULONG), ('0x80000000', L.INT_MAX + 1, L.UINT), ('4294967295u', L.UINT_MAX, L.UINT),
]
FIXED = [L.UCHAR, L.SCHAR, L.SHORT, L.USHORT, L.INT, L.UINT, L.LONG, L.ULONG]
GEN_TYPES = [L.INT, L.UINT, L.LONG, L.ULONG, L.LLONG, L.ULLONG, L.SCHAR, L.UCHAR, L.SHORT, L.USHORT, L.CHAR]


def generic(expr):
    return '_Generic(%s, %s, default: 0)' % (expr, ', '.join('%s: %d' % (t.cname, i + 1) for i, t in enumerate(GEN_TYPES)))


def compat_class(t):
    """index reported by generic() for an expression whose type is compatible with scalar t"""
    return GEN_TYPES.index(t) + 1


def enum_model(items, fixed):
    """items: tuple of EVALS indices or None (implicit).  Returns dict describing R's view, or ('reject', why)."""
    vals, during = [], []
    prev, prevt = None, None
    for it in items:
        if it is None:
            if prev is None:
                v, t = 0, (fixed or L.INT)
            else:
                v = prev + 1
                t = prevt
                if fixed:
                    if not L.fits(fixed, v):
                        return ('reject', 'implicit value not representable in fixed type')
                elif not L.fits(t, v):
                    cands = [L.INT, L.LONG, L.LLONG] if t.signed else [L.UINT, L.ULONG, L.ULLONG]
                    t = next((c for c in cands if L.fits(c, v)), None)
                    if t is None:
                        return ('reject', 'no type for implicit value')
        else:
            _, v, et = EVALS[it]
            if fixed:
                if not L.fits(fixed, v):
                    return ('reject', 'value not representable in fixed type')
                t = fixed
            else:
                t = L.INT if L.fits(L.INT, v) else et
        vals.append(v)
        during.append(t)
        prev, prevt = v, t
    if fixed:
        under = fixed
        after = fixed
    else:
        under = L.enum_underlying(vals)
        if under is None:
            return ('reject', 'no integer type holds all enumerators')
        after = L.INT if all(L.fits(L.INT, v) for v in vals) else under
    return {'values': vals, 'during': during, 'under': under, 'after': after}


def enum_unit(n, items, fixed, fwd=False):
    names = ['E%d_%d' % (n, i) for i in range(len(items))]
    body = []
    for i, it in enumerate(items):
        body.append(names[i] if it is None else '%s = %s' % (names[i], EVALS[it][0]))
    for i, it in enumerate(items):      # the type an enumerator has INSIDE the definition, seen by later enumerators
        body.append('T%d_%d = %s' % (n, i, generic(names[i])))
    if fwd:     # declared first without enumerators (C23: complete from there on), then defined with the same underlying type
        head = 'enum N%d : %s; enum N%d : %s { %s };' % (n, fixed.cname, n, fixed.cname, ', '.join(body))
    else:
        head = 'enum N%d%s { %s };' % (n, (' : ' + fixed.cname) if fixed else '', ', '.join(body))
    obs = ['sizeof(enum N%d)' % n, '_Alignof(enum N%d)' % n, '(enum N%d)-1 < 0' % n, generic('(enum N%d)0' % n)]
    for i in range(len(items)):
        obs += ['(unsigned long)%s' % names[i], generic(names[i]), 'T%d_%d' % (n, i), 'sizeof(%s)' % names[i]]
    return [head, 'unsigned long e%d[] = {%s};' % (n, ', '.join(obs))]


def enum_expected(items, fixed):
    m = enum_model(items, fixed)
    if isinstance(m, tuple):
        return m
    u = m['under']
    # the T enumerators (values 0..11) are part of the enum: they never change the choice except making
    # "has a non-negative value" true, which no rule depends on
    obs = [u.size, u.align, 1 if u.signed else 0, compat_class(u)]
    for v, d in zip(m['values'], m['during']):
        obs += [v % 2**64, compat_class(m['after']), compat_class(d), m['after'].size]
    return tuple(obs)


def gen_L4(quick):
    forms = [None] + list(range(len(EVALS)))
    for s in seqs(forms, 2 if quick else 3):
        yield ('L4-enum', ('L4', s, None))
    for fi in range(len(FIXED)):
        for s in seqs(forms, 2):
            yield ('L4-enum-fixed', ('L4', s, fi))
        for s in seqs(forms, 1 if quick else 2):
            yield ('L4-enum-fixed', ('L4', s, ('fwd', fi)))


def enum_witness(texts, ns, target, nobs, fixed=False):
    """{witness: {n: tuple or None}}; clang only for fixed underlying types (gcc 12 has none in C)"""
    res = {}
    src = '\n'.join(texts) + '\n'
    runs = [('clang', lambda s: witness.clang_asm(s, target))]
    if target == 'x86_64-sysv' and not fixed:
        runs.append(('gcc', lambda s: witness.gcc_asm(s)))
    for name, fn in runs:
        rc, out, err = fn(src)
        if rc != 0:
            res[name] = None
            continue
        try:
            objs = L.parse_asm(out)
        except L.AsmError:
            res[name] = None
            continue
        res[name] = {}
        for n in ns:
            o = objs.get('e%d' % n)
            res[name][n] = struct.unpack('<%dQ' % nobs[n], o.image) if o is not None and len(o.image) == 8 * nobs[n] else None
    return res


def enum_job(batch):
    stratum, descs = batch
    srv = fs.server('fs')
    out = {'stratum': stratum, 'evals': 0, 'cases': len(descs), 'expected_reject': 0, 'accepts_invalid': 0, 'ambiguous': 0, 'viol': [],
           'ambig_samples': [], 'distinct': set(), 'sample': None, 'states': set(), 'trans': set(), 'witness_runs': 0,
           'model_vs_witness': [], 'unsupported_rejected': 0, 'unsupported_accepted': 0, 'undefined_not_judged': 0}

    def core(o):
        return None if not isinstance(o, tuple) else tuple(o[:4]) + tuple(o[4::4])

    for target in TARGETS:
        exp, got, status, texts, nobs, judge = {}, {}, {}, {}, {}, []
        for n, (_, items, fi) in enumerate(descs):
            fwd = isinstance(fi, tuple)
            fixed = FIXED[fi[1]] if fwd else FIXED[fi] if fi is not None else None
            exp[n] = enum_expected(items, fixed)
            texts[n] = enum_unit(n, items, fixed, fwd)
            nobs[n] = 4 + 4 * len(items)
            r = srv.compile('\n'.join(texts[n]) + '\n', target=target)
            out['evals'] += 1
            status[n] = r.status
            # the enumerator machine: state = (fixed type, what the previous enumerator was), symbol = enumerator form
            st = 'start'
            for it in items:
                out['states'].add(('enum', st, fi))
                out['trans'].add((('enum', st, fi), it))
                st = 'after:%s' % (it,)
            got[n] = None
            if r.status == 0:
                try:
                    o = L.parse_qbe_data(r.out).get('e%d' % n)
                    got[n] = struct.unpack('<%dQ' % nobs[n], o.image) if o is not None and len(o.image) == 8 * nobs[n] else None
                except L.AsmError:
                    pass
            elif r.status != 1:
                out['viol'].append(('crash/status-%d-on-enum' % r.status, descs[n], target, '\n'.join(texts[n]), 'status %d' % r.status, None, None))
                continue
            if exp[n] and exp[n][0] == 'reject':
                if r.status == 1:
                    out['expected_reject'] += 1
                else:
                    out['accepts_invalid'] += 1
                continue
            out['distinct'].add(hash(exp[n]))
            judge.append(n)         # every valid enum is also shown to the witnesses (validates R)
        if not judge:
            continue
        out['witness_runs'] += 1
        w = enum_witness([l for n in judge for l in texts[n]], judge, target, nobs, stratum.endswith('fixed'))
        for n in judge:
            wv = {}
            for name, m in w.items():
                if m is None:
                    m1 = enum_witness(texts[n], [n], target, nobs, stratum.endswith('fixed')).get(name)
                    wv[name] = m1[n] if m1 else 'rejected'
                else:
                    wv[name] = m[n]
            differs = status[n] == 1 or got[n] != exp[n]
            what = 'rejected' if status[n] == 1 else enum_diff(exp[n], got[n])
            if all(v == exp[n] for v in wv.values()):
                if differs:
                    out['viol'].append((None, descs[n], target, '\n'.join(texts[n]), what, exp[n], got[n]))
            elif all(core(v) == core(exp[n]) for v in wv.values()):
                # the witnesses agree with R on the ABI part (size, alignment, signedness, compatible type, values) and differ
                # only in enumerator TYPES, a C23 (N3029) matter they predate: judge the ABI part, count the rest
                if status[n] == 1 or core(got[n]) != core(exp[n]):
                    out['viol'].append((None, descs[n], target, '\n'.join(texts[n]),
                                        what if status[n] == 1 else enum_diff(core(exp[n]), core(got[n]), True), exp[n], got[n]))
                elif differs:
                    out['ambiguous'] += 1
                    if len(out['ambig_samples']) < 2:
                        out['ambig_samples'].append((target, texts[n][0], exp[n], got[n], wv))
                else:
                    out['enum_types_unwitnessed'] = out.get('enum_types_unwitnessed', 0) + 1
            else:
                if differs:
                    out['ambiguous'] += 1
                    if len(out['ambig_samples']) < 2:
                        out['ambig_samples'].append((target, texts[n][0], exp[n], got[n], wv))
                else:
                    out['model_vs_witness'].append((descs[n], target, texts[n][0], exp[n], wv))
        if out['sample'] is None:
            n = judge[len(judge) // 2]
            out['sample'] = {'stratum': stratum, 'target': target, 'definition': texts[n][0][:160] + ' ...', 'expected': exp[n], 'observed': got[n]}
    return out


def enum_diff(exp, got, core=False):
    if got is None:
        return 'unreadable'
    if exp[0] != got[0] or exp[1] != got[1]:
        return 'enum-size'
    if exp[2] != got[2] or exp[3] != got[3]:
        return 'enum-underlying-type'
    if core:
        return 'enumerator-value'
    for i in range(4, len(exp), 4):
        if exp[i] != got[i]:
            return 'enumerator-value'
    for i in range(4, len(exp), 4):
        if exp[i + 1] != got[i + 1] or exp[i + 3] != got[i + 3]:
            return 'enumerator-type-after-definition'
    return 'enumerator-type-inside-definition'


# ---------------------------------------------------------------------------
# classification of a finding into a root-cause family


def family(stratum, desc, what, targets):
    """key for a layout finding.  `targets` = set of targets on which this case differs in this way."""
    top = stratum.split('-')[0]
    if desc[0] == 'L4':
        fixed = 'forward-fixed-' if isinstance(desc[2], tuple) else 'fixed-' if desc[2] is not None else ''
        return '%s/%senum-%s' % (top, fixed, what.replace('enum-', ''))
    c = build(desc, 0)
    f = features(c.T)
    if what == 'rejected':
        feat = '-'.join(sorted(f - {'union'})) or 'plain'
        return '%s/rejects-valid-%s' % (top, feat)
    if what.startswith('H:'):
        return what[2:]
    if 'union' in f:
        order = ('packed', 'alignas', 'zero-width-bitfield', 'unnamed-bitfield', 'bitfield', 'nested')
    else:
        order = ('packed', 'alignas', 'flexible', 'zero-width-bitfield', 'unnamed-bitfield', 'bitfield', 'nested')
    pri = [x for x in order if x in f]
    feat = pri[0] if pri else 'plain'
    if 'union' in f:
        feat = 'union-' + feat
    tg = ''
    if len(targets) == 1 and expected_obs(c, 'aarch64')[0] == expected_obs(c, 'x86_64-sysv')[0]:
        tg = sorted(targets)[0] + '-only-'      # the ABIs agree on this case, cproc is wrong for one target only
    return '%s/%s%s-%s' % (top, tg, feat, what)


# ---------------------------------------------------------------------------


def batches_of(gen, size):
    cur = {}
    for (stratum, full), desc in gen:
        b = cur.setdefault((stratum, full), [])
        b.append(desc)
        if len(b) >= size:
            yield (stratum, b, full)
            cur[(stratum, full)] = []
    for (stratum, full), b in cur.items():
        if b:
            yield (stratum, b, full)


def main(chk):
    quick = chk.quick
    tot = {'evals': 0, 'cases': 0, 'expected_reject': 0, 'unsupported_rejected': 0, 'accepts_invalid': 0, 'ambiguous': 0, 'witness_runs': 0,
           'unsupported_accepted': 0, 'undefined_not_judged': 0}
    states, trans, distinct = set(), set(), set()
    strata = {}
    samples, ambig_samples, mvw = [], [], []
    extra = {}
    finds = {}      # (stratum, desc) -> {target: (what, text, exp, got, key)}

    def absorb(res):
        st = res['stratum']
        s = strata.setdefault(st, {'cases': 0, 'evaluations': 0, 'violations': 0, 'ambiguous': 0})
        s['cases'] += res['cases']
        s['evaluations'] += res['evals']
        s['ambiguous'] += res['ambiguous']
        for k in tot:
            tot[k] += res.get(k, 0) if k != 'cases' else res['cases']
        extra['enum_types_unwitnessed'] = extra.get('enum_types_unwitnessed', 0) + res.get('enum_types_unwitnessed', 0)
        states.update(res['states'])
        trans.update(res['trans'])
        distinct.update(res['distinct'])
        if res['sample'] and len(samples) < 12 and not any(x['stratum'] == st for x in samples):
            samples.append(res['sample'])
        for a in res['ambig_samples']:
            if len(ambig_samples) < 8:
                ambig_samples.append(a)
        mvw.extend(res['model_vs_witness'][:5])
        for key, desc, target, text, what, exp, got in res['viol']:
            finds.setdefault((st, desc), {})[target] = (what, text, exp, got, key)

    def run(name, jobfn, gen, size):
        if not chk.want(name):
            return
        n = 0
        bs = list(gen)
        chk.log('%s: %d batches' % (name, len(bs)))
        for res in fs.pimap(jobfn, bs):
            absorb(res)
            n += 1
            if chk.expired():
                chk.log('%s: deadline reached after %d of %d batches' % (name, n, len(bs)))
                break

    run('L1', job, batches_of(gen_L1(quick), 250), 250)
    chk.log('L1 done: %d cases' % tot['cases'])
    run('L2', job, batches_of(gen_L2(quick), 250), 250)
    chk.log('L2 done: %d cases' % tot['cases'])
    run('L3', job, batches_of(gen_L3(quick), 150), 150)
    chk.log('L3 done: %d cases' % tot['cases'])
    if chk.want('L4'):
        cur = {}
        bl = []
        for st, d in gen_L4(quick):
            cur.setdefault(st, []).append(d)
        for st, ds in cur.items():
            bl += [(st, ds[i:i + 100]) for i in range(0, len(ds), 100)]
        run('L4', enum_job, bl, 100)
    chk.log('L4 done: %d cases' % tot['cases'])

    # report: one violation per (case, family); a case alone was already replayed when its unit failed; replay the
    # first case of every family alone once more here
    srv = fs.server('fs')
    fam_seen = {}
    for (st, desc), per in sorted(finds.items(), key=lambda kv: (len(repr(kv[0])), repr(kv[0]))):
        bywhat = {}
        for target, (what, text, exp, got, key) in per.items():
            bywhat.setdefault((what, key), set()).add(target)
        for (what, key), tgs in bywhat.items():
            k = key or family(st, desc, what, tgs)
            target = sorted(tgs, key=lambda t: TARGETS.index(t))[0]
            what_, text, exp, got, _ = per[target]
            strata[st]['violations'] += 1
            if k not in fam_seen:
                r = srv.compile(text + '\n', target=target)
                fam_seen[k] = True
                if desc[0] != 'L4' and r.status == 0 and what != 'rejected':
                    # replay alone: the difference must persist
                    c = build(desc, 0)
                    e, pr, lay = expected_obs(c, target)
                    g = read_obs(L.parse_qbe_data(r.out), int(text.split('unsigned long v')[1].split('[')[0]), len(pr), len(e[2]))
                    if g == e:
                        chk.notes.append('not reproducible alone (dropped): ' + text)
                        fam_seen[k] = False
            if not fam_seen[k]:
                continue
            chk.violation(k, '%s on %s: %s; expected (sizeof, _Alignof, offsets, images) %s, cproc gives %s' % (
                text.split('\n')[0][:300], '/'.join(sorted(tgs)), ('explained by known-defect hypothesis ' + what[2:]) if what.startswith('H:') else what + ' differs', exp, got),
                files={'input.c': text.encode() + b'\n'},
                cmd='$CPROC_QBE -t %s input.c   # compare the emitted data with: expected %s' % (target, exp))
    for a in mvw[:10]:
        chk.notes.append('reference model and witness disagree where cproc == R (not judged): %r' % (a,))
    for a in ambig_samples:
        chk.notes.append('ambiguous (a witness disagrees with R): %r' % (a,))
    tot['ambiguous'] += len(mvw)
    for s in strata:
        chk.strata[s] = strata[s]
    cov = {
        'states': len(states),
        'transitions': len(trans),
        'layout_machine_states': sum(1 for x in states if x[0] != 'enum'),
        'layout_machine_transitions': sum(1 for x in trans if x[0][0] != 'enum'),
        'enumerator_machine_states': sum(1 for x in states if x[0] == 'enum'),
        'traces_validated_against_impl': tot['evals'],
        'samples': samples or [{'none': True}],
        'evaluations': tot['evals'],
        'cases': tot['cases'],
        'distinct_nontrivial': len(distinct),
        'ambiguous': tot['ambiguous'],
        'model_vs_witness_disagreements': len(mvw),
        'expected_reject': tot['expected_reject'],
        'unsupported_rejected': tot['unsupported_rejected'],
        'undefined_not_judged': tot['undefined_not_judged'],
        'unsupported_accepted_left_to_C10': tot['unsupported_accepted'],
        'accepts_invalid_left_to_C10': tot['accepts_invalid'],
        'witness_units_compiled': tot['witness_runs'],
        'enum_cases_where_witnesses_predate_N3029_enumerator_types': extra.get('enum_types_unwitnessed', 0),
        'alphabet_symbols': len(ALPHA),
        'sub_alphabet_symbols': len(SUB),
        'rule': 'every member sequence up to the length bound over the member alphabet as struct and union, x modifiers, nesting and enums; '
                'each case compiled by cproc for 3 targets; sizeof/_Alignof/offsetof and the data image of {.m = -1} per member compared '
                'with vlib/layout.py; witnesses clang --target (3) and gcc (x86_64) on every disagreement and on all cases of the small strata',
    }
    return chk.finish(cov, [
        'layout.py implements the psABI rules as the platform compilers apply them (DESIGN E.2); it is cross-checked against clang/gcc on '
        'every case of the strata L1-len2, L2, L3, L4',
        'gcc 12 has no fixed underlying enum types in C: clang is the only witness there; enumerator TYPES follow N3029, which both '
        'witnesses predate: where they differ from N3029 the case is ambiguous unless the ABI part (size, signedness, values) differs',
        'bit-fields in packed structs and __attribute__((aligned)) on members are documented / extension territory: rejection is accepted',
    ])
