"""C01 — compiled programs behave as the C abstract machine prescribes.

Every case is a C function (or a small program).  A unit of a few hundred cases with a generated, table-driven
main is (1) compiled by the real cproc (fork-server), translated by il2c, built with gcc+ASan and run;
(2) compiled directly by gcc and by clang with UBSan+ASan and run.  The three output streams are cut into
per-case segments (marker lines) and compared.  cproc is blamed only where both references agree with each
other and are sanitizer-clean (two-witness rule); anything else is counted as ambiguous.

Strata: S1 binary operators, S2 unary/conversions/assignment/pointer arithmetic, S3 bit-fields,
S4 control-flow statement trees, S5 aggregate copy/pass/return, S6 hand-written feature corpus.
"""
import glob
import os
import re
import shutil
import subprocess

from .. import build, c01gen as G, fs, il2c, ilexec, ilparse

LEVEL = 'exploration'

REF_FLAGS = ['-std=gnu11', '-O0', '-w', '-fno-builtin', '-fsanitize=undefined,float-cast-overflow,address', '-fno-sanitize-recover=all']
CORPUS = os.path.join(build.VERIF, 'corpus', 'c01')
RUN_TIMEOUT = 60


# ---------------------------------------------------------------------------
# running one unit three ways

class Stream:
    """outcome of one build+run: kind in ok / compile-fail / abnormal"""
    __slots__ = ('kind', 'status', 'segs', 'complete', 'diag')

    def __init__(self, kind, status=None, out=b'', diag=''):
        self.kind, self.status, self.diag = kind, status, diag
        self.segs, self.complete = {}, set()
        cur = None
        for ln in out.split(b'\n'):
            if ln.startswith(b'#'):
                if cur is not None:
                    self.complete.add(cur)
                cur = None if ln == b'#end' else int(ln[1:]) if ln[1:].isdigit() else None
                if cur is not None:
                    self.segs[cur] = []
            elif cur is not None and ln:
                self.segs[cur].append(ln)
        if kind == 'ok' and not out.rstrip().endswith(b'#end'):
            self.kind = 'abnormal'


def _write(p, data):
    with open(p, 'wb' if isinstance(data, bytes) else 'w') as f:
        f.write(data)


def run_cproc(src, d, target, name='u'):
    """-> Stream; kind 'cproc-fail' (status, stderr) when the compiler does not exit 0"""
    r = fs.server('fs').compile(src, target=target, cpu_s=60)
    if r.status != 0:
        return Stream('cproc-fail', r.status, diag=r.err.decode(errors='replace')[:600])
    try:
        c = il2c.translate(r.out, export_map={'main': 'main'})
    except il2c.Unsupported as e:
        return Stream('il2c-unsupported', diag=str(e)[:300])
    except (il2c.TranslateError, ilparse.ParseError) as e:
        return Stream('il-malformed', diag=str(e)[:300])
    cf = os.path.join(d, name + '.il.c')
    _write(cf, c)
    exe = os.path.join(d, name + '.cproc.exe')
    ok, diag = ilexec.cc([cf], exe)
    if not ok:
        return Stream('il2c-output-rejected', diag=diag[-600:])
    st, out, err = ilexec.run(exe, timeout=RUN_TIMEOUT)
    return Stream('ok' if st not in ('timeout',) and isinstance(st, int) and 0 <= st < 64 else 'abnormal', st, out,
                  err.decode(errors='replace')[:600])


def run_ref(src, d, compiler, cs, name='u'):
    cf = os.path.join(d, name + '.ref.c')
    if not os.path.exists(cf):
        _write(cf, src)
    exe = os.path.join(d, '%s.%s.exe' % (name, compiler))
    cmd = [compiler] + REF_FLAGS + ([] if cs else ['-funsigned-char']) + ['-o', exe, cf, '-lm']
    p = subprocess.run(cmd, stdout=subprocess.PIPE, stderr=subprocess.STDOUT, timeout=900)
    if p.returncode != 0:
        return Stream('compile-fail', diag=p.stdout.decode(errors='replace')[-600:])
    st, out, err = ilexec.run(exe, timeout=RUN_TIMEOUT)
    return Stream('ok' if isinstance(st, int) and 0 <= st < 64 else 'abnormal', st, out, err.decode(errors='replace')[:600])


class Verdict:
    """per-case result: kind in ok / mismatch / ambiguous / cproc-fail / harness"""
    __slots__ = ('kind', 'detail', 'lines', 'got', 'want')

    def __init__(self, kind, detail='', lines=None, got=None, want=None):
        self.kind, self.detail, self.lines, self.got, self.want = kind, detail, lines, got, want


def evaluate(cases, d, target='x86_64-sysv', cs=True, extra_decl='', depth=0):
    """three-way evaluation of a list of cases -> list of Verdict (same order)."""
    n = len(cases)
    verdicts = [None] * n
    if n == 0:
        return verdicts
    src = G.build_unit(cases, extra_decl=extra_decl).encode()
    name = 'u%d_%d' % (depth, n)
    sc = run_cproc(src, d, target, name)

    def split():
        if n == 1:
            return None
        h = n // 2
        return evaluate(cases[:h], d, target, cs, extra_decl, depth + 1) + evaluate(cases[h:], d, target, cs, extra_decl, depth + 1)

    if sc.kind in ('cproc-fail', 'il2c-unsupported', 'il-malformed', 'il2c-output-rejected'):
        r = split()
        if r is not None:
            return r
        # single case: consult the witnesses before blaming cproc
        g, c = run_ref(src, d, 'gcc', cs, name), run_ref(src, d, 'clang', cs, name)
        if g.kind != 'ok' or c.kind != 'ok':
            return [Verdict('ambiguous', 'cproc: %s %s; references: gcc %s, clang %s %s' % (sc.kind, sc.diag, g.kind, c.kind, (g.diag or c.diag)[:200]))]
        return [Verdict(sc.kind, 'status %s: %s' % (sc.status, sc.diag))]
    g, c = run_ref(src, d, 'gcc', cs, name), run_ref(src, d, 'clang', cs, name)
    if g.kind == 'compile-fail' or c.kind == 'compile-fail':
        r = split()
        if r is not None:
            return r
        return [Verdict('ambiguous', 'reference compiler rejects: ' + (g.diag or c.diag)[-300:])]
    rerun = []
    for k in range(n):
        gs, cl, cp = g.segs.get(k), c.segs.get(k), sc.segs.get(k)
        gc, cc_, pc = k in g.complete, k in c.complete, k in sc.complete
        if gs is None and cl is None and cp is None:
            rerun.append(k)          # nobody got that far
            continue
        if not (gc and cc_):
            # a reference stopped here (sanitizer, crash) or never reached it
            if (gs is not None and not gc) or (cl is not None and not cc_):
                verdicts[k] = Verdict('ambiguous', 'reference run stops in this case: gcc status %s %s / clang status %s %s' % (
                    g.status, g.diag[:200], c.status, c.diag[:200]))
            else:
                rerun.append(k)
            continue
        if gs != cl:
            i = next((i for i in range(min(len(gs), len(cl))) if gs[i] != cl[i]), min(len(gs), len(cl)))
            verdicts[k] = Verdict('ambiguous', 'gcc and clang disagree at output line %d: %r vs %r' % (
                i, gs[i:i + 1], cl[i:i + 1]), lines=len(gs))
            continue
        if cp is None:
            rerun.append(k)          # cproc's program died earlier; judge this case in a separate run
            continue
        if not pc:
            verdicts[k] = Verdict('mismatch', 'cproc-compiled program stops in this case after %d of %d lines: status %s %s' % (
                len(cp), len(gs), sc.status, sc.diag[:300]), lines=len(gs), got=cp, want=gs)
            continue
        if cp != gs:
            verdicts[k] = Verdict('mismatch', '', lines=len(gs), got=cp, want=gs)
        else:
            verdicts[k] = Verdict('ok', lines=len(gs), want=gs)
    if rerun:
        if len(rerun) == n:
            if n == 1:
                verdicts[0] = Verdict('harness', 'no stream reached the case: cproc %s %s, gcc %s, clang %s' % (sc.kind, sc.status, g.kind, c.kind))
                return verdicts
            r = split()
            return r
        sub = evaluate([cases[k] for k in rerun], d, target, cs, extra_decl, depth + 1)
        for k, v in zip(rerun, sub):
            verdicts[k] = v
    if all(v is not None and v.kind == 'ok' for v in verdicts) and not (sc.status == g.status == c.status):
        verdicts[0] = Verdict('mismatch', 'exit status differs: cproc %s, gcc %s, clang %s' % (sc.status, g.status, c.status), lines=0, got=[], want=[])
    return verdicts


def replay_cmd(target, cs):
    ref = ' '.join(REF_FLAGS + ([] if cs else ['-funsigned-char']))
    return ('$CPROC_QBE -t %s input.c > input.qbe || { echo "cproc failed: $?"; exit 1; }\n'
            'python3 %s -e main=main -o input.il.c input.qbe || exit 1\n'
            'gcc -O0 -w -fno-builtin -fsanitize=address -o cproc.exe input.il.c -lm || exit 1\n'
            'gcc %s -o ref.exe input.c -lm || exit 2\n'
            'ASAN_OPTIONS=detect_leaks=0 ./cproc.exe > got.txt; echo "status $?" >> got.txt\n'
            'ASAN_OPTIONS=detect_leaks=0 ./ref.exe > want.txt; echo "status $?" >> want.txt\n'
            'if cmp -s got.txt want.txt; then echo "outputs equal"; exit 0; else diff got.txt want.txt; exit 1; fi' % (
                target, os.path.join(build.VERIF, 'vlib', 'il2c.py'), ref))
