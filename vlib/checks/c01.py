"""C01 — compiled programs behave as the C abstract machine prescribes.

Every case is a C function (or a small program).  A unit of a few hundred cases with a generated, table-driven
main is (1) compiled by the real cproc (fork-server), translated by il2c, built with gcc+ASan and run;
(2) compiled directly by gcc and by clang with UBSan+ASan and run.  The three output streams are cut into
per-case segments (marker lines) and compared.  cproc is blamed only where both references agree with each
other and are sanitizer-clean (two-witness rule); anything else is counted as ambiguous.

Strata: S1 binary operators, S2 unary/conversions/assignment/pointer arithmetic, S3 bit-fields,
S4 control-flow statement trees, S5 aggregate copy/pass/return, S6 hand-written feature corpus.
"""
import glob
import os
import re
import shutil
import subprocess

from .. import build, c01gen as G, fs, il2c, ilexec, ilparse

LEVEL = 'exploration'

REF_FLAGS = ['-std=gnu11', '-O0', '-w', '-fno-builtin', '-fsanitize=undefined,float-cast-overflow,address', '-fno-sanitize-recover=all']
CORPUS = os.path.join(build.VERIF, 'corpus', 'c01')
RUN_TIMEOUT = 30


def run_exe(exe, args=(), timeout=RUN_TIMEOUT):
    """(status, stdout, stderr) like ilexec.run, but keeps the output printed before a timeout"""
    env = dict(os.environ, ASAN_OPTIONS='detect_leaks=0:exitcode=99', UBSAN_OPTIONS='halt_on_error=1:exitcode=98')
    p = subprocess.Popen([exe] + list(args), stdin=subprocess.DEVNULL, stdout=subprocess.PIPE, stderr=subprocess.PIPE, env=env)
    try:
        out, err = p.communicate(timeout=timeout)
        return p.returncode, out, err
    except subprocess.TimeoutExpired:
        p.kill()
        out, err = p.communicate()
        return 'timeout', out, b'(killed after %d s) ' % timeout + err


# ---------------------------------------------------------------------------
# running one unit three ways

class Stream:
    """outcome of one build+run: kind in ok / compile-fail / abnormal (the run stopped somewhere; it was restarted behind the
    offending case, see run_all) / cproc-fail ...; segs: case number -> output lines; complete: cases whose end was reached"""
    __slots__ = ('kind', 'status', 'segs', 'complete', 'diag')

    def __init__(self, kind, status=None, out=b'', diag=''):
        self.kind, self.status, self.diag = kind, status, diag
        self.segs, self.complete = {}, set()
        cur = None
        for ln in out.split(b'\n'):
            if ln.startswith(b'#'):
                if cur is not None and ln not in (b'#abort', b'#overflow'):
                    self.complete.add(cur)
                cur = int(ln[1:]) if ln[1:].isdigit() else None
                if cur is not None:
                    self.segs[cur] = []
            elif cur is not None and ln:
                self.segs[cur].append(ln)


def run_all(exe, ncases):
    """run a unit's executable; when it stops inside case k (crash, sanitizer, timeout) restart it behind k.
    -> (kind, status of the first run, concatenated output with '#abort' lines between the runs, stderr of the first run)"""
    outs, first, start = [], None, 0
    for _ in range(ncases + 1):
        st, out, err = run_exe(exe, [str(start)] if start else [])
        if first is None:
            first = (st, err)
        clean = isinstance(st, int) and 0 <= st < 64 and out.rstrip().endswith(b'#end')
        outs.append(out)
        if clean:
            break
        last = None
        for ln in out.split(b'\n'):
            if ln.startswith(b'#') and ln[1:].isdigit():
                last = int(ln[1:])
        outs.append(b'\n#abort\n')
        if last is None or last + 1 >= ncases:
            break
        start = last + 1
    kind = 'ok' if len(outs) == 1 else 'abnormal'
    return kind, first[0], b''.join(outs), first[1].decode(errors='replace')[:600]


def _write(p, data):
    with open(p, 'wb' if isinstance(data, bytes) else 'w') as f:
        f.write(data)


def run_cproc(src, d, target, name='u', ncases=1):
    """-> Stream; kind 'cproc-fail' (status, stderr) when the compiler does not exit 0"""
    r = fs.server('fs').compile(src, target=target, cpu_s=60)
    if r.status != 0:
        return Stream('cproc-fail', r.status, diag=r.err.decode(errors='replace')[:600])
    try:
        c = il2c.translate(r.out, export_map={'main': 'main'})
    except il2c.Unsupported as e:
        return Stream('il2c-unsupported', diag=str(e)[:300])
    except (il2c.TranslateError, ilparse.ParseError) as e:
        return Stream('il-malformed', diag=str(e)[:300])
    cf = os.path.join(d, name + '.il.c')
    _write(cf, c)
    exe = os.path.join(d, name + '.cproc.exe')
    # il2c's output has no block scopes of its own (every alloc is a function-level object), so the use-after-scope
    # instrumentation would only guard il2c's helper temporaries; leaving it out saves 40% of the build time
    ok, diag = ilexec.cc([cf], exe, extra=['-fno-sanitize-address-use-after-scope'])
    if not ok:
        return Stream('il2c-output-rejected', diag=diag[-600:])
    return Stream(*run_all(exe, ncases))


def run_ref(src, d, compiler, cs, name='u', ncases=1):
    cf = os.path.join(d, '%s.%s.ref.c' % (name, compiler))
    _write(cf, src)
    exe = os.path.join(d, '%s.%s.exe' % (name, compiler))
    cmd = [compiler] + REF_FLAGS + ([] if cs else ['-funsigned-char']) + ['-o', exe, cf, '-lm']
    p = subprocess.run(cmd, stdout=subprocess.PIPE, stderr=subprocess.STDOUT, timeout=900)
    if p.returncode != 0:
        return Stream('compile-fail', diag=p.stdout.decode(errors='replace')[-600:])
    return Stream(*run_all(exe, ncases))


class Verdict:
    """per-case result: kind in ok / mismatch / ambiguous / cproc-fail / harness"""
    __slots__ = ('kind', 'detail', 'lines', 'got', 'want')

    def __init__(self, kind, detail='', lines=None, got=None, want=None):
        self.kind, self.detail, self.lines, self.got, self.want = kind, detail, lines, got, want


_seq = [0]


def evaluate(cases, d, target='x86_64-sysv', cs=True, extra_decl='', depth=0):
    """three-way evaluation of a list of cases -> list of Verdict (same order)."""
    n = len(cases)
    verdicts = [None] * n
    if n == 0:
        return verdicts
    src = G.build_unit(cases, extra_decl=extra_decl).encode()
    _seq[0] += 1
    name = 'u%d' % _seq[0]
    sc = run_cproc(src, d, target, name, n)

    def split():
        if n == 1:
            return None
        h = n // 2
        return evaluate(cases[:h], d, target, cs, extra_decl, depth + 1) + evaluate(cases[h:], d, target, cs, extra_decl, depth + 1)

    if sc.kind in ('cproc-fail', 'il2c-unsupported', 'il-malformed', 'il2c-output-rejected'):
        r = split()
        if r is not None:
            return r
        # single case: consult the witnesses before blaming cproc
        g, c = run_ref(src, d, 'gcc', cs, name, n), run_ref(src, d, 'clang', cs, name, n)
        if g.kind != 'ok' or c.kind != 'ok':
            return [Verdict('ambiguous', 'cproc: %s %s; references: gcc %s, clang %s %s' % (sc.kind, sc.diag, g.kind, c.kind, (g.diag or c.diag)[:200]))]
        return [Verdict(sc.kind, 'status %s: %s' % (sc.status, sc.diag))]
    g, c = run_ref(src, d, 'gcc', cs, name, n), run_ref(src, d, 'clang', cs, name, n)
    if g.kind == 'compile-fail' or c.kind == 'compile-fail':
        r = split()
        if r is not None:
            return r
        return [Verdict('ambiguous', 'reference compiler rejects: ' + (g.diag or c.diag)[-300:])]
    rerun = []
    for k in range(n):
        gs, cl, cp = g.segs.get(k), c.segs.get(k), sc.segs.get(k)
        gc, cc_, pc = k in g.complete, k in c.complete, k in sc.complete
        if gs is None and cl is None and cp is None:
            rerun.append(k)          # nobody got that far
            continue
        if not (gc and cc_):
            # a reference stopped here (sanitizer, crash) or never reached it
            if (gs is not None and not gc) or (cl is not None and not cc_):
                verdicts[k] = Verdict('ambiguous', 'reference run stops in this case: gcc status %s %s / clang status %s %s' % (
                    g.status, g.diag[:200], c.status, c.diag[:200]))
            else:
                rerun.append(k)
            continue
        if gs != cl:
            i = next((i for i in range(min(len(gs), len(cl))) if gs[i] != cl[i]), min(len(gs), len(cl)))
            verdicts[k] = Verdict('ambiguous', 'gcc and clang disagree at output line %d: %r vs %r' % (
                i, gs[i:i + 1], cl[i:i + 1]), lines=len(gs))
            continue
        if cp is None:
            rerun.append(k)          # cproc's program died earlier; judge this case in a separate run
            continue
        if not pc:
            verdicts[k] = Verdict('mismatch', 'cproc-compiled program stops in this case after %d of %d lines: status %s %s' % (
                len(cp), len(gs), sc.status, sc.diag[:300]), lines=len(gs), got=cp, want=gs)
            continue
        if cp != gs:
            verdicts[k] = Verdict('mismatch', '', lines=len(gs), got=cp, want=gs)
        else:
            verdicts[k] = Verdict('ok', lines=len(gs), want=gs)
    if rerun:
        if len(rerun) == n:
            if n == 1:
                verdicts[0] = Verdict('harness', 'no stream reached the case: cproc %s %s, gcc %s, clang %s' % (sc.kind, sc.status, g.kind, c.kind))
                return verdicts
            r = split()
            return r
        sub = evaluate([cases[k] for k in rerun], d, target, cs, extra_decl, depth + 1)
        for k, v in zip(rerun, sub):
            verdicts[k] = v
    if all(v is not None and v.kind == 'ok' for v in verdicts) and not (sc.status == g.status == c.status):
        verdicts[0] = Verdict('mismatch', 'exit status differs: cproc %s, gcc %s, clang %s' % (sc.status, g.status, c.status), lines=0, got=[], want=[])
    return verdicts


def replay_cmd(target, cs):
    ref = ' '.join(REF_FLAGS + ([] if cs else ['-funsigned-char']))
    return ('$CPROC_QBE -t %s input.c > input.qbe || { echo "cproc failed: $?"; exit 1; }\n'
            'python3 %s -e main=main -o input.il.c input.qbe || exit 1\n'
            'gcc -O0 -w -fno-builtin -fsanitize=address -fno-sanitize-address-use-after-scope -o cproc.exe input.il.c -lm || exit 1\n'
            'gcc %s -o ref.exe input.c -lm || exit 2\n'
            'ASAN_OPTIONS=detect_leaks=0 ./cproc.exe > got.txt; echo "status $?" >> got.txt\n'
            'ASAN_OPTIONS=detect_leaks=0 ./ref.exe > want.txt; echo "status $?" >> want.txt\n'
            'if cmp -s got.txt want.txt; then echo "outputs equal"; exit 0; else diff got.txt want.txt; exit 1; fi' % (
                target, os.path.join(build.VERIF, 'vlib', 'il2c.py'), ref))


# ---------------------------------------------------------------------------
# worker: a batch of specs of one stratum -> summary

CONFIRM_PER_KEY = 2


def make_cases(stratum, specs, m, nv, extra):
    cases, invalid, filtered = [], 0, 0
    for sp in specs:
        if stratum == 'S1':
            c = G.s1_case(m, sp, nv, extra)
        elif stratum == 'S2':
            c = G.s2_case(m, sp, nv, extra)
        elif stratum == 'S3':
            c = G.s3_case(m, sp, nv, extra)
        elif stratum == 'S4':
            c = G.s4_case(sp)
        else:
            c = G.s5_case(sp)
        if c is None:
            invalid += 1
            continue
        filtered += c.filtered
        if c.key is None:
            continue
        cases.append(c)
    return cases, invalid, filtered


def first_diff(got, want):
    for i in range(min(len(got), len(want))):
        if got[i] != want[i]:
            return i
    return min(len(got), len(want))


def describe(case, v):
    """(input label, got, want) of the first differing output line of a mismatching case"""
    i = first_diff(v.got, v.want)
    if case.lines_per:
        lab = case.inputs[min(i // case.lines_per, len(case.inputs) - 1)] if case.inputs else ''
        if case.lines_per > 1:
            lab += ' (output %d of %d for this tuple)' % (i % case.lines_per + 1, case.lines_per)
    else:
        lab = 'output line %d' % i
    g = v.got[i].decode() if i < len(v.got) else '<missing>'
    w = v.want[i].decode() if i < len(v.want) else '<missing>'
    return lab, g, w


def _job(arg):
    stratum, specs, nv, extra, target, cs = arg
    m = G.Model(cs)
    cases, invalid, filtered = make_cases(stratum, specs, m, nv, extra)
    xd = G.S5_EXTRA if stratum == 'S5' else ''
    res = {'stratum': stratum, 'target': target, 'functions': len(cases), 'invalid': invalid, 'filtered': filtered, 'evals': 0,
           'distinct': set(), 'ambiguous': [], 'viol': [], 'samples': [], 'nonok': 0}
    if not cases:
        return res
    d = ilexec.workdir('c01.')
    try:
        verdicts = evaluate(cases, d, target, cs, xd)
        confirmed = {}
        for idx, (c, v) in enumerate(zip(cases, verdicts)):
            nin = len(c.inputs)
            if v.kind == 'ok':
                res['evals'] += nin
                res['distinct'].update(v.want)
                if len(res['samples']) < 2 and v.want and idx % 37 == 5:
                    res['samples'].append({'function': c.desc.strip(), 'operands': c.inputs[-1], 'target': target,
                                           'output(hex bit pattern)': v.want[-1].decode(), 'agree': 'cproc+il2c = gcc = clang'})
                continue
            res['nonok'] += 1
            if v.kind == 'ambiguous':
                res['ambiguous'].append({'case': c.key, 'function': c.desc.strip()[:300], 'why': v.detail[:400], 'tuples': nin})
                continue
            key = c.key
            files, what = {}, ''
            if v.kind == 'mismatch':
                if v.got is not None and v.want is not None and not v.detail:
                    lab, g, w = describe(c, v)
                    what = '%s with %s: cproc-compiled code gives %s, gcc and clang give %s' % (c.desc.strip(), lab, g, w)
                    nbad = sum(1 for i in range(max(len(v.got), len(v.want))) if v.got[i:i + 1] != v.want[i:i + 1])
                    what += ' (%d of %d output lines differ)' % (nbad, len(v.want))
                else:
                    what = '%s: %s' % (c.desc.strip(), re.sub(r'0x[0-9a-f]+|==\d+==|/tmp/\S+', '..', v.detail))
                    if 'stops in this case' in v.detail:
                        key += '/crash-at-run-time'
            elif v.kind == 'cproc-fail':
                st = int(v.detail.split()[1].rstrip(':')) if v.detail.startswith('status') else -1
                key = ('rejects-valid/' if st == 1 else 'crash/') + key
                what = '%s: cproc %s, gcc and clang accept and run it cleanly' % (c.desc.strip(), v.detail)
            else:
                key = v.kind + '/' + key
                what = '%s: %s' % (c.desc.strip(), v.detail)
            # replay alone before reporting
            if confirmed.get(key, 0) < CONFIRM_PER_KEY:
                sub = os.path.join(d, 'replay%d' % idx)
                os.mkdir(sub)
                v2 = evaluate([c], sub, target, cs, xd)[0]
                shutil.rmtree(sub, ignore_errors=True)
                if v2.kind != v.kind:
                    res['ambiguous'].append({'case': c.key, 'function': c.desc.strip()[:300], 'tuples': nin,
                                             'why': 'not reproducible alone: %s in the unit, %s alone (%s)' % (v.kind, v2.kind, v2.detail[:200])})
                    continue
                confirmed[key] = confirmed.get(key, 0) + 1
                files = {'input.c': G.build_unit([c], extra_decl=xd).encode()}
                if v.got is not None:
                    files['got.cproc.txt'] = b'\n'.join(v2.got or []) + b'\n'
                    files['want.gcc-clang.txt'] = b'\n'.join(v2.want or []) + b'\n'
            res['viol'].append({'key': key, 'what': what[:1500], 'files': files, 'cmd': replay_cmd(target, cs), 'tuples': nin})
    finally:
        shutil.rmtree(d, ignore_errors=True)
    return res


def _corpus_job(path, repotest=False):
    """one hand-written program, three ways (repotest: a file of /repo/test that happens to be a runnable program;
    it is used only when both references build and run it cleanly and agree)"""
    src = open(path, 'rb').read()
    name = ('repo-test/' if repotest else '') + os.path.basename(path)
    res = {'stratum': 'S6', 'target': 'x86_64-sysv', 'functions': 1, 'invalid': 0, 'filtered': 0, 'evals': 0, 'distinct': set(),
           'ambiguous': [], 'viol': [], 'samples': [], 'nonok': 0}
    d = ilexec.workdir('c01.')
    try:
        outs = {}
        for comp in ('gcc', 'clang'):
            outs[comp] = ilexec.exec_reference(src, d, name='p', compiler=comp)
        g, c = outs['gcc'], outs['clang']
        if g[0] != c[0] or g[1] != c[1] or not isinstance(g[0], int) or not 0 <= g[0] < 64:
            if repotest:
                res['functions'] = 0
                res['skipped'] = 1
                return res
            res['nonok'] = 1
            res['ambiguous'].append({'case': 'S6/' + name, 'function': name, 'tuples': 1,
                                     'why': 'references disagree or are not clean: gcc status %s, clang status %s: %s' % (
                                         g[0], c[0], (g[2] or c[2] or g[1])[-300:].decode(errors='replace') if g[0] != 'compile-error' else g[1][-300:].decode(errors='replace'))})
            return res
        want = g[1].split(b'\n')
        sc = run_cproc(src, d, 'x86_64-sysv', 'p')
        key = what = None
        if sc.kind == 'cproc-fail':
            key = ('rejects-valid/' if sc.status == 1 else 'crash/') + 'S6/' + name
            what = '%s: cproc status %s: %s' % (name, sc.status, sc.diag)
        elif sc.kind != 'ok' and sc.kind != 'abnormal':
            key = sc.kind + '/S6/' + name
            what = '%s: %s' % (name, sc.diag)
        else:
            exe = os.path.join(d, 'p.cproc.exe')
            st, out, err = run_exe(exe)
            got = out.split(b'\n')
            if out != g[1] or st != g[0]:
                i = first_diff(got, want)
                lab = (want[i] if i < len(want) else got[i] if i < len(got) else b'').split(b':')[0].decode(errors='replace')[:40]
                key = 'S6/%s/%s' % (name, lab or 'exit-status')
                what = '%s: output line %d: cproc-compiled program prints %r, gcc and clang print %r; exit status %s vs %s %s' % (
                    name, i + 1, got[i][:200] if i < len(got) else None, want[i][:200] if i < len(want) else None, st, g[0],
                    err[-300:].decode(errors='replace'))
        if key:
            res['nonok'] = 1
            res['viol'].append({'key': key, 'what': what[:1500], 'files': {'input.c': src}, 'cmd': replay_cmd('x86_64-sysv', True), 'tuples': 1})
        else:
            lines = [ln for ln in want if ln] + [b'exit status %d' % g[0]]
            res['evals'] = len(lines)
            res['distinct'].update(lines)
            res['samples'].append({'program': name, 'output lines compared': len(lines), 'exit status': g[0], 'last line': lines[-1].decode(errors='replace') if lines else ''})
    finally:
        shutil.rmtree(d, ignore_errors=True)
    return res


def _dispatch(arg):
    if arg[0] == 'S6':
        return _corpus_job(arg[1], arg[2])
    return _job(arg)


# ---------------------------------------------------------------------------

def chunks(lst, n):
    return [lst[i:i + n] for i in range(0, len(lst), n)]


def main(chk):
    quick = chk.quick
    nv, extra = (5, False) if quick else (None, True)
    X86, OTHER = 'x86_64-sysv', ('aarch64', 'riscv64')
    jobs = []
    s4cap = None

    def add(stratum, specs, per, targets=((X86, True),)):
        for target, cs in targets:
            for ch in chunks(specs, per):
                jobs.append((stratum, ch, nv, extra, target, cs))

    uns = tuple((t, False) for t in OTHER)
    if chk.want('S1'):
        add('S1', list(G.s1_specs()), 110)
        add('S1', list(G.s1_specs(True)), 110, uns)
    if chk.want('S2'):
        add('S2', list(G.s2_specs()), 110)
        add('S2', list(G.s2_specs(True)), 110, uns)
    if chk.want('S3'):
        fills = (0, 5) if quick else G.BFFILL

        def keep(sp):       # quick: two fillers, plus the filler that puts the field at the very top of its storage unit
            t = G.BYAB[sp[1]]
            return sp[3] in fills or sp[3] + sp[2] == (8 if t is G.BOOL else t.bits)
        add('S3', [sp for sp in G.s3_specs() if keep(sp)], 110)
        add('S3', [sp for sp in G.s3_specs(True) if keep(sp)], 110, uns)
    if chk.want('S4'):
        trees = []
        maxn = 4 if quick else 5
        cap = int(os.environ.get('C01_S4_CAP', '0')) or 10 ** 9
        total = 0
        for n in range(1, maxn + 1):
            for t in G.trees(n):
                total += 1
                if len(trees) < cap:
                    trees.append(t)
        if total > len(trees):
            s4cap = {'trees_in_bound': total, 'trees_run': len(trees), 'order': 'by node count, then grammar order'}
            chk.notes.append('S4: %d of the %d statement trees with <= %d nodes were run (cap)' % (len(trees), total, maxn))
        add('S4', trees, 150)
    if chk.want('S5'):
        add('S5', list(G.s5_specs()), 100)
    corpus = sorted(glob.glob(os.path.join(CORPUS, '*.c')))
    if chk.want('S6'):
        for p in corpus:
            jobs.append(('S6', p, False))
        for p in sorted(glob.glob(os.path.join(build.repo(), 'test', '*.c'))):
            if '+' not in os.path.basename(p) and re.search(rb'\bmain\s*\(', open(p, 'rb').read()):
                jobs.append(('S6', p, True))
    # big first; VERIF_SEED only rotates the order
    jobs.sort(key=lambda j: -(len(j[1]) if j[0] != 'S6' else 1000))
    if chk.seed and jobs:
        k = chk.seed % len(jobs)
        jobs = jobs[k:] + jobs[:k]
    chk.log('%d jobs' % len(jobs))

    tot = {}
    distinct = set()
    ambiguous, samples = [], []
    done = 0
    # all scratch directories of the workers live under one directory that is removed whatever happens
    rundir = ilexec.workdir('c01run.')
    old_tmp = os.environ.get('VERIF_TMP')
    os.environ['VERIF_TMP'] = rundir
    try:
        done = _collect(chk, jobs, tot, distinct, ambiguous, samples, X86)
    finally:
        if old_tmp is None:
            os.environ.pop('VERIF_TMP', None)
        else:
            os.environ['VERIF_TMP'] = old_tmp
        shutil.rmtree(rundir, ignore_errors=True)
    return _finish(chk, tot, distinct, ambiguous, samples, corpus, quick, s4cap)


def _collect(chk, jobs, tot, distinct, ambiguous, samples, X86):
    done = 0
    for r in fs.pimap(_dispatch, jobs):
        done += 1
        key = r['stratum'] + ('' if r['target'] == X86 else '@unsigned-char-targets')
        t = tot.setdefault(key, {'functions': 0, 'evaluations': 0, 'filtered_undefined': 0, 'constraint_violations_not_generated': 0,
                                 'ambiguous': 0, 'violating_functions': 0})
        t['functions'] += r['functions']
        t['evaluations'] += r['evals']
        t['filtered_undefined'] += r['filtered']
        t['constraint_violations_not_generated'] += r['invalid']
        if r.get('skipped'):
            t['repo_tests_not_usable_as_programs'] = t.get('repo_tests_not_usable_as_programs', 0) + r['skipped']
        t['ambiguous'] += sum(a['tuples'] for a in r['ambiguous'])
        t['violating_functions'] += len(r['viol'])
        distinct |= r['distinct']
        ambiguous += r['ambiguous']
        if len(samples) < 14 and r['samples'] and not any(s.get('stratum') == key for s in samples[-2:]):
            s = dict(r['samples'][0])
            s['stratum'] = key
            samples.append(s)
        for v in r['viol']:
            chk.violation(v['key'], v['what'], files=v['files'], cmd=v['cmd'])
        if done % 20 == 0:
            chk.log('%d/%d jobs, %d evaluations, %d violating functions, %d ambiguous' % (
                done, len(jobs), sum(x['evaluations'] for x in tot.values()), sum(x['violating_functions'] for x in tot.values()), len(ambiguous)))
        if chk.expired():
            chk.notes.append('deadline reached after %d of %d jobs' % (done, len(jobs)))
            break
    return done


def _finish(chk, tot, distinct, ambiguous, samples, corpus, quick, s4cap):
    chk.strata = tot
    chk.log('ambiguous cases: %d' % len(ambiguous))
    for a in ambiguous[:6]:
        chk.log('  ambiguous: %s: %s' % (a['case'], a['why'][:300].replace('\n', ' ')))
    for a in ambiguous[:12]:
        chk.notes.append('ambiguous: %s: %s: %s' % (a['case'], a['function'].replace('\n', ' ')[:160], a['why'][:240]))
    nfun = sum(x['functions'] for x in tot.values())
    cov = {
        'evaluations': sum(x['evaluations'] for x in tot.values()),
        'functions_compiled': nfun,
        'distinct_nontrivial': len(distinct),
        'ambiguous': sum(x['ambiguous'] for x in tot.values()),
        'ambiguous_cases': len(ambiguous),
        'filtered_undefined': sum(x['filtered_undefined'] for x in tot.values()),
        'expected_reject': 0,
        'constraint_violations_not_generated': sum(x['constraint_violations_not_generated'] for x in tot.values()),
        'corpus_programs': len(corpus),
        'samples': samples,
        'rule': 'S1: all 18 binary operators x T14 x T14; S2: unary, ++/--, 5 conversion contexts, 10 compound assignments, ?:, pointer '
                'arithmetic/comparison incl. variably modified element types; S3: bit-fields (base x width x filler x 17 operations); '
                'S4: all statement trees of the control-flow grammar up to the node bound; S5: every (size, alignment) aggregate copy form; '
                'S6: hand-written corpus. Operand sets V(T) (%s values per type), all tuples with defined behaviour enumerated; every '
                'function is run through cproc+il2c+gcc/ASan and through gcc and clang with UBSan+ASan; outputs and exit status compared' % (
                    'first 5' if quick else 'all + thorough extras'),
    }
    if s4cap:
        cov['S4_cap'] = s4cap
        cov['exhaustive'] = False
    return chk.finish(cov, [
        'il2c implements the IL semantics faithfully (it is exercised by ~10^5 agreeing evaluations here; a disagreement is triaged by reading the IL)',
        'gcc 12 and clang 14 on x86_64 are the witnesses: cproc is blamed only where both agree and are sanitizer-clean',
        'aarch64/riscv64: only functions with a plain-char operand or result type are re-run with -t, executed on the host and compared with '
        'gcc/clang -funsigned-char; legitimate because the IL for these functions differs from the x86_64 IL only in the signedness of char',
        'IEEE semantics (Annex F) for floating division by zero and NaN; NaN results are canonicalised before comparison',
        'signed right shift, out-of-range integer narrowing: implementation-defined, all three implementations document two\'s complement wrap / arithmetic shift',
    ])
