"""C15 — a switch transfers control to exactly the matching case.

K1: explicit-state search on /repo's tree.c (harness/treemc.c).
K3: every distinct reachable tree state replayed through the compiler as a switch and executed (switchrun).
"""
import json
import subprocess

from .. import build

LEVEL = 'model_checking'


def run_treemc(exe, args, timeout=1200):
    """A run that dies by a signal or does not finish is a violation of the tree code under the explored histories
    (the harness itself only reads the tree), not an infrastructure error: reported as a VIOL line."""
    try:
        p = subprocess.run([exe] + [str(a) for a in args], stdout=subprocess.PIPE, stderr=subprocess.STDOUT, timeout=timeout)
        out = p.stdout.decode(errors='replace')
        if p.returncode < 0:
            out += '\nVIOL crashed-signal-%d tree.c under harness run %s died by signal %d\n' % (-p.returncode, ' '.join(str(a) for a in args), -p.returncode)
    except subprocess.TimeoutExpired as e:
        class P:
            returncode = -9
        p = P()
        out = (e.stdout or b'').decode(errors='replace') + '\nVIOL no-termination tree.c under harness run %s did not finish within %d s\n' % (' '.join(str(a) for a in args), timeout)
    stats = None
    viols = []
    states = []
    for ln in out.splitlines():
        if ln.startswith('{'):
            stats = json.loads(ln)
        elif ln.startswith('VIOL '):
            viols.append(ln)
        elif ln.startswith('S '):
            states.append(ln[2:])
    return p.returncode, stats, viols, states, out


def main(chk):
    exe = build.harness('treemc', ['treemc.c'], ['tree.c', 'util.c'])
    runs = []
    if chk.quick:
        plan = [('hist', 8, 0), ('hist', 7, 1), ('bfs', 12, 0), ('bfs', 12, 1)]
        bigs = [(n, o) for n in (100, 1000, 5003) for o in range(5)]
    else:
        plan = [('hist', 8, 0), ('hist', 8, 1), ('hist', 10, 0), ('bfs', 12, 1), ('bfs', 16, 0)]
        bigs = [(n, o) for n in (100, 1000, 5003, 50021) for o in range(5)]
    tot = dict(states=0, transitions=0, histories=0, reinsertions=0)
    rot = [0, 0, 0, 0]
    samples = []
    for mode, n, mp in plan:
        if chk.expired():
            break
        rc, st, viols, _, out = run_treemc(exe, [mode, n, mp])
        if st is None and not viols:
            raise RuntimeError('treemc produced no result:\n' + out[-2000:])
        for v in viols:
            what = v.split()[1]
            hist = v.split('history=')[1].split()[0] if 'history=' in v else ''
            chk.violation('K1/' + what, 'tree.c invariant %s violated: %s' % (what, v),
                          files={'history.txt': v + '\n'},
                          cmd='%s replay %d %s' % (exe, mp, hist or '0'),
                          detail=v)
        if st:
            runs.append(st)
            for k in tot:
                tot[k] += st[k]
            for i, k in enumerate(('rot_single_left', 'rot_single_right', 'rot_double_left', 'rot_double_right')):
                rot[i] += st[k]
            chk.log('treemc %s n=%d map=%d: histories=%d states=%d transitions=%d violations=%d' % (
                mode, n, mp, st['histories'], st['states'], st['transitions'], st['violations']))
    if runs and min(rot) == 0:
        chk.violation('K1/vacuous', 'exploration never observed one of the four rotation kinds: %r' % rot)
    nbig = 0
    for n, o in bigs:
        if chk.expired():
            break
        rc, st, viols, _, out = run_treemc(exe, ['big', n, o])
        nbig += 1
        for v in viols:
            chk.violation('K1/big/' + v.split()[1], v, files={'history.txt': v + '\n'},
                          cmd='%s big %d %d' % (exe, n, o))
    # distinct-state dump for the samples (and, later, the compiler replay)
    rc, st, viols, states, out = run_treemc(exe, ['bfs', 6, 0, 'dump'])
    samples = [{'insertion_history': s, 'keys': 'ranks 0..5 of map 0'} for s in states[:3] + states[-3:]] or [{'violating': v} for v in viols[:3]]

    from . import c15_switch
    sw = c15_switch.run(chk, exe)

    cov = {
        'states': tot['states'],
        'transitions': tot['transitions'],
        'traces_validated_against_impl': tot['histories'] + sw.get('functions_executed', 0),
        'samples': samples + sw.get('samples', []),
        'histories': tot['histories'],
        'reinsertions_checked': tot['reinsertions'],
        'rotations_observed': dict(zip(('single_left', 'single_right', 'double_left', 'double_right'), rot)),
        'treemc_runs': runs,
        'large_orders_checked': nbig,
        'switch_replay': sw,
        'rule': 'K1: every insertion history (hist) / every distinct (key,height,shape) state (bfs) of the real treeinsert; '
                'invariants + reference set checked in every state; K3: every distinct state of the n<=6 BFS replayed as a C switch',
        'exhaustive': True,
    }
    return chk.finish(cov, [
        'treemc links the unmodified tree.c/util.c of the repository; canonical key is the exact pre-order (key,height) list',
        'switch replay executes the IL under il2c semantics (DESIGN.md appendix A)',
    ])
