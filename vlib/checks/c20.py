"""C20 — output is a pure function of the input text and the target option.

K3 over environment answers: for every input of the corpus (plus error-path neighbours and the compiler's own
sources) the triple (stdout, stderr, status) of a baseline run is compared with the run under EVERY element of
a finite perturbation set: invocation form, environment, controlled allocator policy (placement order, recycling,
fill patterns), differently built binaries; MSan build for reads of uninitialised memory; import check.
"""
import os
import re
import shutil
import subprocess
import tempfile

from .. import build, fs, ilexec
from ..typegrid import typegrid
from . import c19

LEVEL = 'exploration'
TARGETS = ('x86_64-sysv', 'aarch64', 'riscv64')


def run(exe, args, data=None, env=None, cwd=None, argv0=None, timeout=60):
    cmd = [exe] + args
    try:
        p = subprocess.run(cmd, input=data, stdout=subprocess.PIPE, stderr=subprocess.PIPE, env=env, cwd=cwd, timeout=timeout, preexec_fn=fs.child_limits(30))
    except subprocess.TimeoutExpired:
        return ('timeout', b'', b'')
    return (p.returncode, p.stdout, p.stderr)


def norm_err(err, names):
    """diagnostics modulo the input file name and the program name"""
    for n in names:
        err = err.replace(n.encode(), b'<INPUT>')
    err = re.sub(rb'^[^\s:]*cproc-qbe[^\s:]*:', b'cproc-qbe:', err, flags=re.M)
    return err


def _job(batch):
    """batch = list of (label, data, target, pp); returns list of (label, perturbation, baseline, observed) for differences"""
    plain = build.get('plain')
    alloc = build.get('alloc')
    clangb = build.get('clang')
    asan = build.get('asan')
    work = tempfile.mkdtemp(prefix='c20.')
    out = []
    n = 0
    hist = {}
    try:
        other = os.path.join(work, 'sub', 'dir')
        os.makedirs(other)
        for label, data, targ, pp in batch:
            args = ['-t', targ] + (['-E'] if pp else [])
            p1 = os.path.join(work, 'in.c')
            p2 = os.path.join(other, 'another-name.c')
            for p in (p1, p2):
                with open(p, 'wb') as f:
                    f.write(data)
            base_env = {'PATH': '/usr/bin:/bin'}
            b = run(plain, args, data, env=base_env)
            base = (b[0], b[1], norm_err(b[2], ['<stdin>']))
            hk = ('typegrid' if label.startswith('typegrid/') else 'other', b[0])
            hist[hk] = hist.get(hk, 0) + 1
            if b[0] not in (0, 1, 2):
                continue  # the baseline run crashes: property C19's finding, nothing to compare here
            perts = []
            # invocation
            perts.append(('repeat', lambda: run(plain, args, data, env=base_env), ['<stdin>']))
            perts.append(('input-by-path', lambda: run(plain, args + [p1], env=base_env), [p1]))
            perts.append(('input-by-other-path', lambda: run(plain, args + [p2], env=base_env), [p2]))
            perts.append(('relative-path-other-cwd', lambda: run(plain, args + ['another-name.c'], env=base_env, cwd=other), ['another-name.c']))

            def with_o():
                o = os.path.join(work, 'out')
                if os.path.exists(o):
                    os.unlink(o)
                r = run(plain, args + ['-o', o], data, env=base_env)
                body = open(o, 'rb').read() if os.path.exists(o) else b''
                return (r[0], body + r[1], r[2])
            perts.append(('output-by-o', with_o, ['<stdin>']))
            # environment
            for name, env in (('empty-env', {}), ('LC_ALL=C.UTF-8', dict(base_env, LC_ALL='C.UTF-8')), ('LANG=de_DE.UTF-8', dict(base_env, LANG='de_DE.UTF-8', LC_NUMERIC='de_DE.UTF-8')),
                              ('LC_ALL=POSIX', dict(base_env, LC_ALL='POSIX')), ('TZ', dict(base_env, TZ='Asia/Kolkata')),
                              ('MALLOC_PERTURB_=85', dict(base_env, MALLOC_PERTURB_='85')), ('MALLOC_PERTURB_=255', dict(base_env, MALLOC_PERTURB_='255')),
                              ('MALLOC_PERTURB_=1', dict(base_env, MALLOC_PERTURB_='1')), ('big-env', dict(base_env, **{'V%d' % i: 'x' * 100 for i in range(50)}))):
                perts.append((name, (lambda env=env: run(plain, args, data, env=env)), ['<stdin>']))
            # allocator policies
            for pol in range(7):
                perts.append(('allocator-policy-%d' % pol, (lambda pol=pol: run(alloc, args, data, env=dict(base_env, ALLOCPOL=str(pol)))), ['<stdin>']))
            # differently built binaries
            perts.append(('clang-built', lambda: run(clangb, args, data, env=base_env), ['<stdin>']))
            san_env = dict(base_env)
            san_env.update(fs.SAN_ENV)
            perts.append(('asan-built', lambda: run(asan, args, data, env=san_env), ['<stdin>']))
            perts.append(('no-aslr', lambda: run('/usr/bin/setarch', ['x86_64', '-R', plain] + args, data, env=base_env), ['<stdin>']))
            for name, fn, names in perts:
                r = fn()
                n += 1
                obs = (r[0], r[1], norm_err(r[2], names))
                if obs != base:
                    # replay before report: the same perturbed run once more; a difference that does not come back (a run killed from
                    # outside under memory pressure, for instance) is counted, not reported
                    r2 = fn()
                    obs2 = (r2[0], r2[1], norm_err(r2[2], names))
                    if obs2 == base:
                        hist[('transient-difference-not-reproduced', name)] = hist.get(('transient-difference-not-reproduced', name), 0) + 1
                        continue
                    out.append((label, name, base, obs2, data, args))
    finally:
        shutil.rmtree(work, ignore_errors=True)
    return n, out, hist


def multi_file(chk):
    """several input files on one command line: (status, stdout, stderr) under every allocator/environment/build perturbation"""
    plain, alloc, clangb, asan, msan = (build.get(v) for v in ('plain', 'alloc', 'clang', 'asan', 'msan'))
    work = tempfile.mkdtemp(prefix='c20mf.')
    n = 0
    try:
        texts = {'a.c': b'int a;\n', 'b.c': b'int b = 1;\nint fb(void) { return b; }\n', 'nonl.c': b'int nonl', 'semi.c': b';\n', 'def.c': b'#define M(x) #x x\n',
                 'use.c': b'M(1);\n', 'sp.c': b'  + +\n', 'id.c': b'x\n', 'empty.c': b''}
        for k, v in texts.items():
            open(os.path.join(work, k), 'wb').write(v)
        base_env = {'PATH': '/usr/bin:/bin'}
        san_env = dict(base_env)
        san_env.update(fs.SAN_ENV)
        names = sorted(texts)
        for combo in [(x, y) for x in names for y in names] + [('def.c', 'id.c', 'use.c'), ('a.c', 'empty.c', 'sp.c'), ('id.c', 'id.c', 'id.c')]:
            for pp in ([], ['-E']):
                args = pp + list(combo)
                base = run(plain, args, env=base_env, cwd=work)
                if base[0] not in (0, 1, 2):
                    continue
                perts = [('repeat', plain, base_env)] + [('MALLOC_PERTURB_=%d' % v, plain, dict(base_env, MALLOC_PERTURB_=str(v))) for v in (1, 85, 255)] + \
                    [('allocator-policy-%d' % pol, alloc, dict(base_env, ALLOCPOL=str(pol))) for pol in range(7)] + [('clang-built', clangb, base_env), ('asan-built', asan, san_env)]
                for name, exe, env in perts:
                    r = run(exe, args, env=env, cwd=work)
                    n += 1
                    if (r[0], r[1], norm_err(r[2], [])) != (base[0], base[1], norm_err(base[2], [])):
                        what = 'status' if r[0] != base[0] else 'stdout' if r[1] != base[1] else 'stderr'
                        chk.violation('multi-file/%s/%s-differs' % (name, what), 'command line %s under %s: %s differs' % (' '.join(args), name, what),
                                      files=dict({c: texts[c] for c in combo}, **{'baseline.out': base[1], 'perturbed.out': r[1], 'baseline.err': base[2], 'perturbed.err': r[2]}),
                                      cmd='$CPROC_QBE %s | cmp - baseline.out' % ' '.join(args))
                r = run(msan, args, env={'PATH': '/usr/bin:/bin', 'MSAN_OPTIONS': 'exit_code=97:halt_on_error=1'}, cwd=work)
                n += 1
                if r[0] == 97 or b'MemorySanitizer' in r[2]:
                    m = re.search(rb'#\d+ 0x[0-9a-f]+ in (\w+) .*?/src/(\w+\.c)', r[2])
                    chk.violation('msan/use-of-uninitialized-value/' + (m.group(1).decode() if m else '?'), 'command line %s: MemorySanitizer report' % ' '.join(args),
                                  files=dict({c: texts[c] for c in combo}, **{'msan-report.txt': r[2][-2500:]}), cmd='$CPROC_QBE %s > /dev/null' % ' '.join(args))
    finally:
        shutil.rmtree(work, ignore_errors=True)
    return n


def _msan_job(batch):
    exe = build.get('msan')
    out = []
    for label, data, targ, pp in batch:
        args = ['-t', targ] + (['-E'] if pp else [])
        r = run(exe, args, data, env={'PATH': '/usr/bin:/bin', 'MSAN_OPTIONS': 'exit_code=97:halt_on_error=1'})
        if r[0] == 97 or b'MemorySanitizer' in r[2]:
            out.append((label, r[2][-2500:], data, args))
    return len(batch), out


def inputs(chk):
    files = c19.corpus()
    items = []
    for label, data in typegrid(chk.quick):
        items.append((label, data, 'x86_64-sysv', False))
    # the preprocessor builds strings and token arrays of its own: the stringification and variadic families of C12, printed by -E
    # and (wrapped as an initialiser) compiled, so that bytes behind an unterminated or short-filled buffer reach the output
    from . import c07
    for k, (src, _, (et, st)) in enumerate(c07.string_then_element_units()):
        items.append(('string-then-element/%s/%r' % (et.replace(' ', '-'), st), src.encode(), 'x86_64-sysv', False))
    from . import c12
    pps = list(c12.m3_stringify(False)) + list(c12.m3_stringify_and_plain())
    pps = pps[::3] if chk.quick else pps
    for k, src in enumerate(pps):
        items.append(('pp-stringify/%d' % k, src.encode('latin-1'), 'x86_64-sysv', True))
    for k, src in enumerate(pps[::4]):
        lines = src.split('\n')
        body = [l for l in lines if l and not l.startswith('#')]
        if len(body) == 1 or True:
            defs = '\n'.join(l for l in lines if l.startswith('#'))
            wrapped = defs + '\n#define XS(x) #x\n#define XXS(x) XS(x)\nchar pps%d[] = XXS(%s);\n' % (k, '\n'.join(body))
            items.append(('pp-stringify-twice/%d' % k, wrapped.encode('latin-1'), 'x86_64-sysv', False))
    for name, src, targ, pp in files:
        items.append((name, src, targ, pp))
        if not pp:
            for t in TARGETS:
                if t != targ:
                    items.append((name + '@' + t, src, t, False))
        # error-path neighbours: a few single edits of every file
        sp = c19.spans(src)
        for idx in ([3, len(sp) // 2, len(sp) - 2] if chk.quick else range(1, len(sp), max(1, len(sp) // 12))):
            if 0 <= idx < len(sp):
                a, b = sp[idx]
                items.append(('%s/del@tok%d' % (name, idx), src[:a] + src[b:], targ, pp))
                items.append(('%s/trunc@tok%d' % (name, idx), src[:a], targ, pp))
    # the compiler's own sources
    sd = build.srcdir()
    for n in build.compiler_srcs():
        p = subprocess.run(['cpp'] + ilexec.CPP_FLAGS + [os.path.join(sd, n)], stdout=subprocess.PIPE, stderr=subprocess.PIPE, timeout=120)
        if p.returncode == 0:
            items.append(('own/' + n, p.stdout, 'x86_64-sysv', False))
    return items


def main(chk):
    for v in ('plain', 'alloc', 'clang', 'asan', 'msan'):
        build.get(v)
    items = inputs(chk)
    chk.log('%d inputs' % len(items))
    batches = [items[i:i + 12] for i in range(0, len(items), 12)]
    nrun = 0
    outcomes = set()
    bhist = {}
    for n, diffs, hist in fs.pimap(_job, batches):
        nrun += n
        for k, v in hist.items():
            bhist[k] = bhist.get(k, 0) + v
        for label, pert, base, obs, data, args in diffs:
            what = 'status' if base[0] != obs[0] else 'stdout' if base[1] != obs[1] else 'stderr'
            chk.violation('%s/%s-differs' % (pert, what), 'input %s under %s: %s differs (baseline status %s, perturbed status %s)' % (label, pert, what, base[0], obs[0]),
                          files={'input.c': data, 'baseline.out': base[1], 'perturbed.out': obs[1], 'baseline.err': base[2], 'perturbed.err': obs[2]},
                          cmd='$CPROC_QBE %s < input.c | cmp - baseline.out' % ' '.join(args))
        if chk.expired():
            break
    # reads of uninitialised memory
    nms = 0
    mbatches = [items[i:i + 40] for i in range(0, len(items), 40)]
    for n, bad in fs.pimap(_msan_job, mbatches):
        nms += n
        for label, err, data, args in bad:
            m = re.search(rb'#\d+ 0x[0-9a-f]+ in (\w+) .*?/src/(\w+\.c)', err)
            site = m.group(1).decode() if m else '?'
            chk.violation('msan/use-of-uninitialized-value/' + site, 'input %s: MemorySanitizer report in %s' % (label, site),
                          files={'input.c': data, 'msan-report.txt': err}, cmd='$CPROC_QBE %s < input.c > /dev/null' % ' '.join(args))
    nmf = multi_file(chk)
    nrun += nmf
    # imports that would make the output depend on the environment
    plain = build.get('plain')
    syms = subprocess.run(['nm', '-D', '--undefined-only', plain], stdout=subprocess.PIPE, timeout=60).stdout.decode()
    banned = [s for s in ('setlocale', 'newlocale', 'uselocale', 'time', 'clock_gettime', 'gettimeofday', 'rand', 'random', 'srand', 'getpid', 'getenv', 'secure_getenv', 'localtime')
              if re.search(r'\bU %s(@|$)' % s, syms, re.M)]
    for b in banned:
        chk.violation('imports/' + b, 'the compiler binary imports %s' % b, files={'nm.txt': syms.encode()})
    # valgrind memcheck (thorough): uninitialised-value errors on the plain build for a slice of the corpus
    nvg = 0
    if not chk.quick:
        nvg = valgrind(chk, items)
    cov = {
        'evaluations': nrun + nms + nvg,
        'distinct_nontrivial': len({(i[2], i[3]) for i in items}) + len(items),
        'rule': 'complete product inputs x perturbations; every run is compared byte for byte with the baseline run of the same input '
                '(diagnostics modulo the file name and program name); non-trivial = distinct input texts',
        'samples': [{'input': items[0][0], 'perturbations': ['repeat', 'input-by-path', 'output-by-o', 'empty-env', 'MALLOC_PERTURB_=85', 'allocator-policy-3 (bump down)',
                                                             'allocator-policy-4 (LIFO reuse, poison)', 'clang-built', 'asan-built', 'no-aslr']}],
        'inputs': len(items),
        'baseline_status_histogram': {'%s/status-%s' % k: v for k, v in sorted(bhist.items(), key=str)},
        'perturbed_runs': nrun,
        'multi_file_runs': nmf,
        'msan_runs': nms,
        'valgrind_runs': nvg,
        'banned_imports_found': banned,
    }
    return chk.finish(cov, [
        'allocator policies replace real ASLR by a complete enumeration of placement order / recycling / fill patterns; setarch -R is a spot check',
        'only the C, POSIX and C.UTF-8 locales exist in this image: locale dependence is covered by the import check, not behaviourally',
    ])


def _vg_job(batch):
    exe = build.get('plain')
    bad = []
    for label, data, targ, pp in batch:
        args = ['-t', targ] + (['-E'] if pp else [])
        try:
            p = subprocess.run(['valgrind', '-q', '--error-exitcode=96', '--undef-value-errors=yes', exe] + args, input=data,
                               stdout=subprocess.PIPE, stderr=subprocess.PIPE, timeout=300)
        except subprocess.TimeoutExpired:
            continue
        if p.returncode == 96:
            bad.append((label, p.stderr[-2000:], data, args))
    return len(batch), bad


def valgrind(chk, items):
    sel = [i for i in items if '/' not in i[0] or i[0].startswith('own/')]
    n = 0
    for k, bad in fs.pimap(_vg_job, [sel[i:i + 8] for i in range(0, len(sel), 8)]):
        n += k
        for label, err, data, args in bad:
            m = re.search(rb'(?:at|by) 0x[0-9A-F]+: (\w+) \((\w+\.c):', err)
            chk.violation('valgrind/%s' % (m.group(1).decode() if m else '?'), 'input %s: valgrind memcheck error' % label,
                          files={'input.c': data, 'valgrind.txt': err}, cmd='valgrind $CPROC_QBE %s < input.c > /dev/null' % ' '.join(args))
        if chk.expired():
            break
    return n
