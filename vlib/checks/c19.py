"""C19 — the compiler proper is memory-safe, terminating and exits only 0, 1 or 2.

K3 by deviation bounding: every single-edit neighbour (truncation, token deletion / duplication /
substitution, byte substitution) of a corpus of valid programs, a generated depth/length family and an
I/O fault family are run on the ASan+UBSan fork-server; verdict = terminated by exit with status 0/1/2,
no sanitizer report, CPU time within the limit.  A finding is identified by its crash-site class.
"""
import glob
import os
import re
import resource
import shutil
import signal
import subprocess
import tempfile
import time

from .. import build, fs
from ..typegrid import typegrid

LEVEL = 'fault_enumeration'

TOKRE = re.compile(r'''
    /\*.*?\*/ | //[^\n]*
  | (?:u8|u|U|L)?"(?:[^"\\\n]|\\.)*" | (?:u8|u|U|L)?'(?:[^'\\\n]|\\.)*'
  | \.?[0-9](?:[eEpP][+-]|[0-9A-Za-z_.])*
  | [A-Za-z_][A-Za-z0-9_]*
  | \.\.\. | <<= | >>= | -> | \+\+ | -- | << | >> | <= | >= | == | != | && | \|\| | [-+*/%&|^]= | \#\# | ::
  | [^\s]
''', re.X | re.S)

SUBST = ['(', ')', '{', '}', '[', ']', ';', ',', '.', '->', '*', '&', '+', '-', '=', '==', '<', '?', ':', '...', '#',
         'int', 'char', 'void', 'struct', 'union', 'enum', 'typedef', 'static', 'extern', 'const', 'sizeof', 'return', 'if', 'case',
         '_Alignas', '_Generic', '_Static_assert', 'typeof', '__attribute__', '[[', 'x', 'T', '0', '1.5', "'a'", '"s"', 'goto', 'switch',
         '__builtin_va_arg', '__builtin_offsetof', '__builtin_types_compatible_p', '_Thread_local', 'inline', 'long', 'double', 'while']
QUICK_SUBST = ['(', ')', '{', '}', '[', ';', ',', '*', '=', 'int', 'struct', 'x', '0', '"s"', '__builtin_va_arg', '[[', 'typeof', ':', 'enum', 'void', 'double']
BYTES = [0x00, 0x01, 0x7f, 0x80, 0xc0, 0xe0, 0xf0, 0xff, 0x5c, 0x22, 0x27, 0x0a]


def spans(src):
    text = src.decode('latin-1')
    out = []
    for m in TOKRE.finditer(text):
        s = m.group()
        if s.startswith('/*') or s.startswith('//'):
            continue
        out.append((m.start(), m.end()))
    return out


def corpus():
    files = sorted(glob.glob(os.path.join(build.repo(), 'test', '*.c'))) + sorted(glob.glob(os.path.join(build.VERIF, 'corpus', 'c19', '*.c'))) + sorted(glob.glob(os.path.join(build.VERIF, 'corpus', 'c01', '*.c')))
    out = []
    for f in files:
        base = os.path.basename(f)[:-2]
        targ = base.split('+', 1)[1] if '+' in base else 'x86_64-sysv'
        pp = os.path.exists(f[:-2] + '.pp')
        out.append((os.path.basename(f), open(f, 'rb').read(), targ, pp))
    return out


def mutants(name, src, quick, small):
    """Yield (label, bytes) for every single edit of `src` in this tier."""
    sp = spans(src)
    subst = QUICK_SUBST if quick else SUBST
    stride = 5 if quick and len(src) > 1500 else 1   # quick tier: every 5th token of the large files
    for i, (a, b) in enumerate(sp):
        if i % stride:
            continue
        yield 'trunc@tok%d' % i, src[:a]
        yield 'del@tok%d' % i, src[:a] + src[b:]
        yield 'dup@tok%d' % i, src[:b] + b' ' + src[a:b] + src[b:]
        if not quick or small or len(src) < 420:
            for s in subst:
                if src[a:b].decode('latin-1') != s:
                    yield 'sub@tok%d:%s' % (i, s), src[:a] + s.encode() + src[b:]
    if len(src) <= (512 if quick else 2048):
        for i in range(len(src)):
            if not quick:
                yield 'trunc@byte%d' % i, src[:i]
            for bval in (BYTES[:6] if quick else BYTES):
                if src[i] != bval:
                    yield 'byte@%d:%02x' % (i, bval), src[:i] + bytes([bval]) + src[i + 1:]


# ---------------------------------------------------------------------------
# crash-site classification

_frame = re.compile(r'#\d+ 0x[0-9a-f]+ in (\w+) (\S+?)(?::\d+)*\s*$')


def cproc_frame(err):
    """innermost frame that lies in the compiler's own sources"""
    for ln in err.splitlines():
        m = re.search(r'#\d+ 0x[0-9a-f]+ in (\w+) .*?/src/(\w+\.c):', ln)
        if m:
            return m.group(1)
    return '?'


def classify(status, err):
    """Crash-site class (stable key) or None if the run is fine."""
    if status in (0, 1, 2):
        if b'AddressSanitizer' in err or b'runtime error:' in err:
            pass  # sanitizer output with a legitimate status: still a finding
        else:
            return None
    e = err.decode('latin-1')
    m = re.search(r'(\w+\.c):\d+: (\w+): Assertion `(.*?)\' failed', e)
    if m:
        return 'assert/%s/%s' % (m.group(2), re.sub(r'\s+', ' ', m.group(3))[:60])
    m = re.search(r'runtime error: (.*)', e)
    if m:
        msg = re.sub(r'0x[0-9a-f]+', 'ADDR', m.group(1))
        msg = re.sub(r'-?\d+(\.\d+)?(e[+-]?\d+)?', 'N', msg)
        msg = re.sub(r"type '[^']*'", 'type T', msg)
        return 'ubsan/%s/%s' % (cproc_frame(e), msg[:60])
    m = re.search(r'AddressSanitizer: ([\w-]+)', e)
    if m:
        kind = m.group(1)
        if kind == 'SEGV':
            kind = 'SEGV-null' if re.search(r'address 0x0000000000[0-9a-f]{2}\b', e) else 'SEGV'
        if kind == 'stack-overflow':
            return 'asan/stack-overflow/deep-recursion'   # the innermost frame of an exhausted stack is arbitrary
        return 'asan/%s/%s' % (kind, cproc_frame(e))
    if status == 1000 + signal.SIGXCPU or status == 1000 + signal.SIGKILL:
        return 'timeout'
    if status >= 1000:
        return 'signal-%d' % (status - 1000)
    return 'exit-status-%d' % status


def hang_site(src, args):
    """Where does a non-terminating run spin?  Run the sanitized binary alone and deliver SIGSEGV after
    a while: ASan's handler prints the stack of the interrupted location."""
    exe = build.get('asan')
    env = dict(os.environ)
    env.update(fs.SAN_ENV)
    p = subprocess.Popen([exe] + args, stdin=subprocess.PIPE, stdout=subprocess.DEVNULL, stderr=subprocess.PIPE, env=env)
    try:
        p.stdin.write(src)
        p.stdin.close()
    except BrokenPipeError:
        pass
    p.stdin = None
    t0 = time.time()
    while time.time() - t0 < 20 and p.poll() is None:
        time.sleep(0.1)
    if p.poll() is not None:
        return None  # it terminates when given 20 s: not a hang
    p.send_signal(signal.SIGSEGV)
    try:
        _, err = p.communicate(timeout=20)
    except subprocess.TimeoutExpired:
        p.kill()
        return '?'
    return cproc_frame(err.decode('latin-1'))


def _job(batch):
    srv = fs.server('fs-asan')
    out = []
    for name, label, data, targ, pp in batch:
        args = ['-t', targ] + (['-E'] if pp else [])
        limit = 2 if len(data) < 40000 else 4
        r = srv.run(args, data, 0, limit)
        k = classify(r.status, r.err)
        out.append((name, label, k, r.status, r.err[-3000:] if k else b'', data if k else None, args))
    return out


# ---------------------------------------------------------------------------
# generated depth / length family


def generated(quick):
    ns = [10, 100, 1000] if quick else [10, 100, 1000, 10000]
    fam = []

    def add(label, text):
        fam.append((label, text.encode() if isinstance(text, str) else text))
    # every complete, truncated and malformed UTF-8 sequence at the start, in the middle and at the very end of every kind of literal
    for pre in ('', 'L', 'u', 'U', 'u8'):
        for q, decl in (('"', 'char s[] = '), ("'", 'int c = ')):
            for lead in (0xc2, 0xdf, 0xe0, 0xe1, 0xed, 0xef, 0xf0, 0xf1, 0xf4, 0xf5, 0xf7, 0xf8, 0xfc, 0xfe, 0xff, 0x80, 0xbf, 0xc0, 0xc1):
                for k in range(0, 4):
                    for cont in ((0x80,), (0xbf,)) if k else ((),):
                        seq = bytes([lead]) + bytes(cont) * k
                        for where, body in (('end', b'ab' + seq), ('start', seq + b'ab'), ('alone', seq), ('before-escape', seq + b'\\n')):
                            if q == "'" and where in ('end', 'start'):
                                continue
                            text = (decl.replace('char', {'': 'char', 'L': 'int', 'u': 'unsigned short', 'U': 'unsigned', 'u8': 'unsigned char'}[pre]) + pre + q).encode() + body + (q + ';\n').encode()
                            add('utf8-in-literal/%s%s/%02x+%d*%s/%s' % (pre, 'str' if q == '"' else 'chr', lead, k, '%02x' % cont[0] if cont else '-', where), text)
                            if where == 'alone':
                                add('utf8-in-literal/%s%s/%02x+%d/unterminated' % (pre, 'str' if q == '"' else 'chr', lead, k), text[:-3])
    # inputs reported by reviewers of the unchanged tree (kept so that each stays either repaired or on record)
    for f in sorted(glob.glob(os.path.join(build.VERIF, 'corpus', 'reported', '*.c'))):
        add('reported/' + os.path.basename(f), open(f, 'rb').read())
    # a string initialiser followed by designated elements at every index around its end (C07's units; here for the memory errors of the overlay)
    from . import c07
    for k, (src, _, (et, st)) in enumerate(c07.string_then_element_units()):
        add('string-then-element/%s/%d' % (et.replace(' ', '-'), k), src)
    # type origins x type consumers (most are valid; the invalid combinations must be diagnosed, not crash)
    for label, data in typegrid(quick):
        add(label, data)
    for n in ns:
        add('paren-expr/%d' % n, 'int x = ' + '(' * n + '1' + ')' * n + ';\n')
        add('blocks/%d' % n, 'void f(void) ' + '{' * n + '}' * n + '\n')
        add('unary-minus/%d' % n, 'int x = ' + '- ' * n + '1;\n')
        add('deref-decl/%d' % n, 'int ' + '*' * n + 'p;\n')
        add('paren-decl/%d' % n, 'int ' + '(' * n + 'p' + ')' * n + ';\n')
        add('casts/%d' % n, 'int x = ' + '(int)' * n + '1;\n')
        add('init-braces/%d' % n, 'int x = ' + '{' * n + '1' + '}' * n + ';\n')
        add('array-dims/%d' % n, 'int a' + '[1]' * n + ';\n')
        add('subscripts/%d' % n, 'int a[1]; int f(void) { return a' + '[0]' * 1 + ' + 0' * n + '; }\n')
        add('nested-struct/%d' % n, ''.join('struct s%d { ' % i for i in range(n)) + 'int x; ' + ''.join('} m%d; ' % i for i in range(n)) + '};\n' if n <= 1000 else 'int x;\n')
        add('if-else-chain/%d' % n, 'int f(int x) { ' + 'if (x) x++; else ' * n + 'x--; return x; }\n')
        add('nested-if/%d' % n, 'int f(int x) { ' + 'if (x) ' * n + 'x++; return x; }\n')
        add('nested-switch/%d' % n, 'int f(int x) { ' + 'switch (x) { case 1: ' * n + 'x++;' + '}' * n + ' return x; }\n')
        add('nested-while/%d' % n, 'int f(int x) { ' + 'while (x) ' * n + 'x--; return x; }\n')
        add('macro-nest/%d' % n, '#define f(a) a\nint x = ' + 'f(' * n + '1' + ')' * n + ';\n')
        add('macro-chain/%d' % n, ''.join('#define m%d m%d\n' % (i, i + 1) for i in range(n)) + '#define m%d 7\nint x = m0;\n' % n)
        add('params/%d' % n, 'void f(' + ', '.join('int p%d' % i for i in range(n)) + ');\n')
        add('enumerators/%d' % n, 'enum e { ' + ', '.join('e%d' % i for i in range(n)) + ' };\n')
        add('cases/%d' % n, 'int f(int x) { switch (x) { ' + ' '.join('case %d: return %d;' % (i, i) for i in range(n)) + ' } return 0; }\n')
        add('declarators/%d' % n, 'int ' + ', '.join('v%d' % i for i in range(n)) + ';\n')
        add('members/%d' % n, 'struct s { ' + ' '.join('int m%d;' % i for i in range(n)) + ' } v;\n')
        add('string-concat/%d' % n, 'char s[] = ' + ' '.join('"a"' for i in range(n)) + ';\n')
        add('comma-expr/%d' % n, 'int f(void) { return ' + '1, ' * n + '2; }\n')
        add('ternary/%d' % n, 'int f(int x) { return ' + 'x ? 1 : ' * n + '0; }\n')
        add('call-args/%d' % n, 'int g(); int f(void) { return g(' + ', '.join('1' for i in range(n)) + '); }\n')
        add('generic-assocs/%d' % n, 'int x = _Generic(1, ' + ''.join('struct g%d *: %d, ' % (i, i) for i in range(min(n, 1000))) + 'default: 0);\n')
        add('attr-list/%d' % n, '[[' + ', '.join('a%d' % i for i in range(n)) + ']] int x;\n')
        add('init-list/%d' % n, 'int a[] = { ' + ', '.join(str(i) for i in range(n)) + ' };\n')
    # macro chains of EVERY length (the context-frame array grows at particular numbers of live frames: 11, 22, 43, ...; seeded round 8)
    for n in range(1, 70 if quick else 400):
        f = '#define F0(x) x\n' + ''.join('#define F%d(x) F%d(x)\n' % (k, k - 1) for k in range(1, n + 1))
        add('macro-forward-chain/%d' % n, f + 'int v = F%d(1); int w = F%d(F%d(2)); int z[] = { F%d() };\n' % (n, n, n, n))
        l = '#define L0(p, q) ((p) + (q))\n' + ''.join('#define L%d(p, q) L%d(p, q)\n' % (k, k - 1) for k in range(1, n + 1))
        add('macro-forward2-chain/%d' % n, l + 'int p; int v = L%d(p, 7) + L%d((1, 2), 3);\n' % (n, n))
        v = '#define V0(...) {__VA_ARGS__}\n' + ''.join('#define V%d(a, ...) V%d(__VA_ARGS__, a)\n' % (k, k - 1) for k in range(1, n + 1))
        add('macro-variadic-chain/%d' % n, v + 'int a[] = V%d(1, 2, 3);\n' % n)
        m = '#define O0 1\n#define M0(x) [x]\n' + ''.join('#define O%d O%d\n#define M%d(x) O%d M%d(x)\n' % (k, k - 1, k, k % 3, k - 1) for k in range(1, n + 1))
        add('macro-mixed-chain/%d' % n, m + 'int b = sizeof(int M%d(O%d));\n' % (n, n))
        s2 = '#define S0(x) #x x\n' + ''.join('#define S%d(x) S%d(x)\n' % (k, k - 1) for k in range(1, n + 1))
        add('macro-stringify-chain/%d' % n, s2 + 'char c[] = S%d();\n' % n)
    # arithmetic on address constants in static initialisers: every operand order and nesting of a constant and an address (seeded round 8 report)
    aforms = ('K + (long)&ga[I]', '(long)&ga[I] + K', 'K + &ga[I]', '&ga[I] + K', '&ga[I] - K', 'K + (K + (long)&ga[I])', '(K + (long)&ga[I]) + K', '(long)&ga[I] - K',
              'K - (long)&ga[I]', '(long)&gs.m + K', 'K + (long)&gs.m', 'K + (char *)&gs.m', '(char *)&gs.m + K', 'K + (long)ga', 'K + (long)gf', '(long)gf + K', 'K + (long)"ab"',
              'K + ("ab" + K)', '(long)&ga[I] + (long)&ga[I]', '(long)&ga[I] - (long)&ga[0]', '&ga[I] - &ga[0]', 'K * (long)&ga[I]', '(long)&ga[I] * K', '(long)&ga[I] | K',
              'K + (long)&*&ga[I]', 'K + (long)(&ga[I] + K)', '-(long)&ga[I]', '!(long)&ga[I]', '(long)&ga[I] ? K : 0', 'K ? (long)&ga[I] : 0', '(int)(long)&ga[I] + K', 'K + (unsigned char)(long)&ga[I]')
    for af in aforms:
        for kk in ('0', '1', '4', '-1'):
            for ii in ('0', '1'):
                add('address-constant-arithmetic/' + af.replace(' ', ''), 'int ga[4]; struct { int n, m; } gs; int gf(void);\nlong gv = %s;\nvoid f(void) { static long lv = %s; }\n' % (
                    af.replace('K', kk).replace('I', ii), af.replace('K', kk).replace('I', ii)))
    # case labels in orders that stress the balancing of the case tree and its fixed-size path array (seeded round 10): sorted both ways,
    # alternating between the two ends with a final label at the bottom of the chain, and a fixed pseudo-random permutation
    for n in ((300, 800, 2500) if quick else (300, 800, 2500, 5000, 20000)):
        asc = list(range(10, 10 + n))
        zig = [v for pair in zip(range(10, 10 + n // 2), range(100000, 100000 - n // 2, -1)) for v in pair] + [5, 50000, 99999 - n]
        perm = sorted(asc, key=lambda v: (v * 2654435761) % 1000003)
        for nm, order in (('ascending', asc), ('descending', asc[::-1]), ('zigzag', zig), ('permuted', perm)):
            add('case-order-%s/%d' % (nm, n), 'int f(int x) { switch (x) { ' + ' '.join('case %d: return %d;' % (v, v & 127) for v in order) + ' } return 0; }\n')
        add('case-order-zigzag-long/%d' % n, 'int f(long x) { switch (x) { ' + ' '.join('case %dL: return %d;' % (v * 4294967297, v & 127) for v in zig) + ' } return 0; }\n')
    for n in (31, 32, 33, 64, 100):
        add('designators/%d' % n, 'struct s { ' * 1 + 'int x; };\nint a' + '[2]' * n + ' = { ' + '[0]' * n + ' = 1 };\n')
        add('nested-init-struct/%d' % n, ''.join('struct t%d { ' % i for i in range(n)) + 'int x; ' + ''.join('} m%d; ' % (n - 1 - i) for i in range(n - 1)) + '} v = ' + '{' * n + '1' + '}' * n + ';\n')
        add('member-designators/%d' % n, ''.join('struct u%d { ' % i for i in range(n)) + 'int x; ' + ''.join('} m; ' for i in range(n - 1)) + '} w = { ' + '.m' * (n - 1) + '.x = 1 };\n')
    for ln in ([255, 256, 257, 65536] if quick else [255, 256, 257, 65536, 1000000]):
        add('long-ident/%d' % ln, 'int ' + 'a' * ln + ';\n')
        add('long-string/%d' % ln, 'char s[] = "' + 'a' * ln + '";\n')
        add('long-number/%d' % ln, 'int x = 1' + '0' * ln + ';\n')
        add('long-ppnumber-in-directive/%d' % ln, '#line 1' + '0' * min(ln, 1000) + '\nint x;\n')
        add('long-comment/%d' % ln, '/*' + 'x' * ln + '*/ int x;\n')
        add('long-char/%d' % ln, "int x = '" + 'a' * min(ln, 70000) + "';\n")
        add('long-macro-arg/%d' % ln, '#define f(a) #a\nchar s[] = f(' + 'a ' * (ln // 2) + ');\n')
    # a long token of every class in every consumer context, around every power-of-two buffer threshold
    ctxs = [
        ('decl-name', 'int %s;'), ('init-value', 'long v = %s;'), ('stringized-arg', '#define S(x) #x\nchar s[] = S(%s);'),
        ('stringized-arg-after-text', '#define S(x) #x\nchar s[] = S(abc + %s);'), ('plain-arg', '#define I(x) x\nint q = sizeof(I(%s));'),
        ('both-arg', '#define B(x) #x, sizeof(x)\nvoid g(char *, long); void f(void) { int %s; g(B(%s)); }'),
        ('macro-body', '#define M %s\nint z = sizeof(M);'), ('macro-name', '#define %s 1\nint y = %s;'), ('undef-name', '#undef %s'),
        ('macro-param', '#define P(%s) %s\nint w = P(3);'), ('variadic-arg', '#define V(...) #__VA_ARGS__\nchar t[] = V(1, %s, 2);'),
        ('label', 'void f(void) { %s: ; goto %s; }'), ('member', 'struct m { int %s; } mm = { .%s = 1 };'), ('tag', 'struct %s { int a; } tt;'),
        ('enumerator', 'enum { %s = 3 }; int e = %s;'), ('param', 'int f(int %s) { return %s; }'), ('asm-label', 'int al __asm__("%s");'),
        ('attribute', '[[%s]] int at;'), ('gnu-attribute', '__attribute__((%s)) int ga;'), ('line-file', '#line 5 "%s"\nint lf = ;'),
        ('static-assert-msg', '_Static_assert(0, "%s");'), ('case-expr', 'void f(int c) { switch (c) { case %s: ; } }'),
        ('pragma', '#pragma %s'), ('unknown-directive', '#%s'), ('typedef-name', 'typedef int %s; %s tv;'), ('goto-undefined', 'void f(void) { goto %s; }'),
        ('undeclared-use', 'int u = %s;'), ('call-undeclared', 'int c = %s(1);'), ('redefinition', 'int %s; long %s;'),
    ]
    lens = [63, 64, 65, 255, 256, 257, 511, 512, 513, 1023, 1024, 1025] + ([] if quick else [2047, 2048, 2049, 4095, 4096, 4097, 65535, 65536, 65537])
    for ln in lens:
        toks = {'ident': 'a' * ln, 'number': '1' + '0' * (ln - 1), 'ppnumber': '1' + 'e+' * ((ln - 1) // 2)}
        for tk, tv in toks.items():
            for cn, ct in ctxs:
                if tk != 'ident' and cn in ('decl-name', 'macro-name', 'undef-name', 'macro-param', 'label', 'member', 'tag', 'enumerator', 'param',
                                             'typedef-name', 'redefinition', 'call-undeclared', 'goto-undefined'):
                    continue
                add('long-%s-in-%s/%d' % (tk, cn, ln), ct.replace('%s', tv) + '\n')
        sv = 'b' * ln
        for cn, ct in (('string-init', 'char si[] = "%s";'), ('string-stringized', '#define S(x) #x\nchar ss[] = S("%s");'),
                       ('string-concat', 'char sc[] = "%s" "%s";'), ('wide-string', 'unsigned ws[] = U"%s";'), ('char-const', "int cc = '%s';"),
                       ('string-escapes', 'char se[] = "' + '\\n' * (ln // 2) + '";'), ('string-in-macro-body', '#define SB "%s"\nchar sb[] = SB;')):
            add('long-string-in-%s/%d' % (cn, ln), ct.replace('%s', sv) + '\n')
    # a long token in every diagnostic that formats one (64-byte tokendesc buffers)
    for w in ('a' * 70, '"' + 'b' * 70 + '"', '1' * 70, "'" + 'c' * 70 + "'"):
        for tmpl in ('int x = %s %s;', 'int %s %s;', 'struct %s { int x; } y; struct %s z = { %s };', '#define %s\n#%s', 'void f(void) { goto %s; %s }',
                     'int f(void) { return %s(%s; }', 'enum { %s = %s };', '_Static_assert(%s, %s);', 'int x[%s];'):
            add('long-token-diagnostic', tmpl.replace('%s', w) + '\n')
    return fam


# ---------------------------------------------------------------------------
# I/O faults (plain binary, real descriptors)


def multi_inputs(chk):
    """Several input files on one command line (the scanner chain): every ordered pair and triple over a small set of files,
    including an empty file, a file without a final newline, a file that ends inside a construct, the same file twice and a
    missing file, with and without -E; the sanitized build, the status and the report are examined."""
    exe = build.get('asan')
    env = dict(os.environ)
    env.update(fs.SAN_ENV)
    work = tempfile.mkdtemp(prefix='c19mi.')
    n = 0
    try:
        texts = {'a.c': b'int a;\n', 'b.c': b'int b = 1;\nint fb(void) { return b; }\n', 'empty.c': b'', 'nonl.c': b'int nonl', 'semi.c': b';\n',
                 'open.c': b'int fo(void) {\n', 'close.c': b'return 0; }\n', 'def.c': b'#define M 3\n', 'use.c': b'int u = M;\n', 'comment.c': b'/* open', 'err.c': b'int e = ;\n'}
        for name, t in texts.items():
            open(os.path.join(work, name), 'wb').write(t)
        names = sorted(texts) + ['missing.c']
        combos = [(x, y) for x in names for y in names] + [(x, y, z) for x in ('a.c', 'empty.c', 'open.c', 'def.c') for y in names for z in ('b.c', 'close.c', 'use.c', 'empty.c')]
        for combo in combos:
            for pp in ((), ('-E',)):
                n += 1
                try:
                    p = subprocess.run([exe] + list(pp) + list(combo), cwd=work, stdout=subprocess.PIPE, stderr=subprocess.PIPE, env=env, timeout=20, preexec_fn=fs.child_limits(15))
                    status, err = p.returncode, p.stderr
                except subprocess.TimeoutExpired:
                    status, err = 'timeout', b''
                status = 1000 - status if isinstance(status, int) and status < 0 else status
                k = 'timeout' if status == 'timeout' else classify(status, err)
                if k:
                    chk.violation('multi-input/' + k, 'command line %s %s: %s' % (' '.join(pp), ' '.join(combo), k),
                                  files=dict({c: texts.get(c, b'') for c in combo if c in texts}, **{'sanitizer-report.txt': err}),
                                  cmd='$CPROC_QBE %s %s > /dev/null; echo "status=$? (expected 0, 1 or 2)"' % (' '.join(pp), ' '.join(combo)))
    finally:
        shutil.rmtree(work, ignore_errors=True)
    return n


def io_faults(chk):
    exe = build.get('plain')
    work = tempfile.mkdtemp(prefix='c19io.')
    res = []
    n = 0
    try:
        src = os.path.join(work, 'in.c')
        big = b''.join(b'int v%d = %d;\n' % (i, i) for i in range(4000))
        open(src, 'wb').write(big)
        ref = subprocess.run([exe, src], stdout=subprocess.PIPE, stderr=subprocess.PIPE, timeout=60, preexec_fn=fs.child_limits(30))
        if ref.returncode != 0:
            from ..runner import SubjectFailure
            raise SubjectFailure('io/baseline-rejected', 'a unit of 4000 int definitions is not compiled (status %s): %s' % (ref.returncode, ref.stderr[:300]), files={'input.c': big}, cmd='$CPROC_QBE input.c > /dev/null')

        def run(args, **kw):
            try:
                p = subprocess.run([exe] + args, stdout=kw.pop('stdout', subprocess.PIPE), stderr=subprocess.PIPE, timeout=60, **kw) if 'preexec_fn' in kw else \
                    subprocess.run([exe] + args, stdout=kw.pop('stdout', subprocess.PIPE), stderr=subprocess.PIPE, timeout=60, preexec_fn=fs.child_limits(30), **kw)
                return p.returncode, p
            except subprocess.TimeoutExpired:
                return 'timeout', None

        def expect_fail(label, rc):
            nonlocal n
            n += 1
            if rc == 0:
                chk.violation('io/%s/status-0' % label, 'I/O fault %s: exit status 0' % label, files={'note.txt': label.encode()})
            elif rc not in (1, 2):
                chk.violation('io/%s/status-%s' % (label, rc), 'I/O fault %s: exit status %s' % (label, rc), files={'note.txt': label.encode()})
        expect_fail('input-is-directory', run([work])[0])
        expect_fail('input-missing', run([os.path.join(work, 'nonexistent.c')])[0])
        unread = os.path.join(work, 'unreadable.c')
        open(unread, 'w').write('int x;\n')
        os.chmod(unread, 0)
        if os.geteuid() != 0:
            expect_fail('input-unreadable', run([unread])[0])
        expect_fail('output-in-missing-directory', run(['-o', os.path.join(work, 'nodir', 'out'), src])[0])
        expect_fail('output-is-directory', run(['-o', work, src])[0])
        expect_fail('output-dev-full', run(['-o', '/dev/full', src])[0])
        with open('/dev/full', 'wb') as f:
            expect_fail('stdout-dev-full', run([src], stdout=f)[0])
        expect_fail('unknown-target', run(['-t', 'pdp11', src])[0])
        expect_fail('bad-option', run(['-Z', src])[0])
        # closed stdout
        rc, _ = run([src], stdout=None, preexec_fn=lambda: os.close(1))
        expect_fail('stdout-closed', rc)
        # output truncated by RLIMIT_FSIZE at every 4 KiB step: status 0 only with complete output
        size = len(ref.stdout)
        for k in range(0, size // 4096 + 2):
            out = os.path.join(work, 'out.%d' % k)
            lim = k * 4096

            def pre(lim=lim):
                signal.signal(signal.SIGXFSZ, signal.SIG_IGN)
                resource.setrlimit(resource.RLIMIT_FSIZE, (lim, lim))
            for how in ('-o', 'stdout'):
                if how == '-o':
                    rc, p = run(['-o', out, src], preexec_fn=pre)
                else:
                    with open(out, 'wb') as f:
                        rc, p = run([src], stdout=f, preexec_fn=pre)
                n += 1
                got = open(out, 'rb').read() if os.path.exists(out) else b''
                if rc == 0 and got != ref.stdout:
                    chk.violation('io/short-write/status-0-with-truncated-output',
                                  'output limited to %d bytes via %s: status 0 but output has %d of %d bytes' % (lim, how, len(got), size),
                                  files={'note.txt': ('RLIMIT_FSIZE=%d via %s' % (lim, how)).encode()})
                elif rc not in (0, 1):
                    chk.violation('io/short-write/status-%s' % rc, 'output limited to %d bytes via %s: status %s' % (lim, how, rc),
                                  files={'note.txt': ('RLIMIT_FSIZE=%d via %s' % (lim, how)).encode()})
                if os.path.exists(out):
                    os.unlink(out)
    finally:
        os.chmod(os.path.join(work, 'unreadable.c'), 0o600) if os.path.exists(os.path.join(work, 'unreadable.c')) else None
        import shutil
        shutil.rmtree(work, ignore_errors=True)
    return n


def main(chk):
    files = corpus()
    files.sort(key=lambda f: len(f[1]))
    quickfiles = files
    strata = {}
    batches = []
    cur = []

    def push(item, stratum):
        strata[stratum] = strata.get(stratum, 0) + 1
        cur.append(item)
        if len(cur) >= 400:
            batches.append(list(cur))
            cur.clear()
    # D0
    for name, src, targ, pp in files:
        for t in ('x86_64-sysv', 'aarch64', 'riscv64'):
            push((name, 'D0/' + t, src, t, False), 'D0')
            push((name, 'D0-E/' + t, src, t, True), 'D0')
    # D1
    small = set(f[0] for f in files[:15])
    for name, src, targ, pp in (quickfiles if chk.quick else files):
        for label, data in mutants(name, src, chk.quick, name in small):
            push((name, label, data, targ, pp), 'D1/' + label.split('@')[0])
    # D2: all pairs of single-token edits for the ten smallest corpus files (thorough)
    if not chk.quick:
        for name, src, targ, pp in files[:10]:
            sp = spans(src)
            edits = []
            for i, (a, b) in enumerate(sp):
                edits.append((a, b, b''))
                edits.append((a, b, src[a:b] + b' ' + src[a:b]))
                for s_ in ('(', '{', ';', 'int', 'x', '0', '*'):
                    edits.append((a, b, s_.encode()))
            for x in range(len(edits)):
                for y in range(x + 1, len(edits)):
                    (a1, b1, r1), (a2, b2, r2) = edits[x], edits[y]
                    if b1 > a2:
                        continue
                    push((name, 'D2@%d,%d' % (x, y), src[:a1] + r1 + src[b1:a2] + r2 + src[b2:], targ, pp), 'D2')
    # generated
    for label, data in generated(chk.quick):
        push(('gen', label, data, 'x86_64-sysv', False), 'G')
    if cur:
        batches.append(list(cur))
    total = sum(len(b) for b in batches)
    chk.log('%d runs planned in %d batches: %r' % (total, len(batches), strata))
    nrun = 0
    classes = {}
    statuses = {}
    # the enumeration gets 55% of the time budget: replaying the witnesses, the I/O fault family and the multi-input family run after it
    loop_deadline = chk.t0 + 0.55 * (chk.deadline - chk.t0)
    for res in fs.pimap(_job, batches):
        for name, label, k, status, err, data, args in res:
            nrun += 1
            statuses[status] = statuses.get(status, 0) + 1
            if k:
                if label.startswith('D0'):
                    # an unmodified corpus file is a valid program: a crash on it is never covered by a known crash-site class
                    k = 'valid-input/%s/%s' % (name, k)
                c = classes.setdefault(k, {'n': 0, 'first': None})
                c['n'] += 1
                if c['first'] is None or len(data) < len(c['first'][2]):
                    c['first'] = (name, label, data, err, args, status)
        if chk.expired() or time.time() > loop_deadline:
            chk.deadline_hit = True
            break
    # replay before report: re-run the shortest witness of every class alone (sanitized and plain)
    plain = build.get('plain')
    for k, c in sorted(classes.items()):
        name, label, data, err, args, status = c['first']
        key = k
        if k == 'timeout':
            site = hang_site(data, args)
            if site is None:
                chk.notes.append('slow but terminating: %s %s (%d bytes)' % (name, label, len(data)))
                continue
            key = 'hang/' + site
        else:
            srv = fs.server('fs-asan')
            r = srv.run(args, data, 0, 10)
            if classify(r.status, r.err) != (k.split('/', 2)[2] if k.startswith('valid-input/') else k):
                chk.notes.append('flaky: %s %s first %s then %s' % (name, label, k, classify(r.status, r.err)))
        p = subprocess.run('%s %s < /dev/stdin' % (plain, ' '.join(args)), shell=True, input=data, stdout=subprocess.DEVNULL, stderr=subprocess.PIPE, timeout=60, preexec_fn=fs.child_limits(30)) \
            if k != 'timeout' else None
        chk.violation(key, '%s (%d inputs; shortest: %s %s, %d bytes); plain build: status %s' % (
            k, c['n'], name, label, len(data), p.returncode if p else 'n/a'),
            files={'input.c': data, 'sanitizer-report.txt': err},
            cmd='$CPROC_QBE %s < input.c > /dev/null; echo "status=$? (expected 0, 1 or 2)"' % ' '.join(args))
        # count the remaining members of the class
        if key in chk.viol:
            chk.viol[key]['count'] = c['n']
            chk.nviol += c['n'] - 1
        else:
            ki = chk._match_known(key)
            if ki is not None:
                chk.known_hit[ki] += c['n'] - 1     # a known class covers the recorded number of inputs, see runner.finish
    nio = io_faults(chk) if chk.want('io') else 0
    nio += multi_inputs(chk) if chk.want('multi') else 0
    sample_mut = next(iter(mutants(files[0][0], files[0][1], True, True)))
    cov = {
        'evaluations': nrun + nio,
        'distinct_nontrivial': len(statuses) + len(classes),
        'rule': 'every single edit (truncation at each token, deletion, duplication, substitution by each of %d tokens, byte substitution by each of %d bytes) '
                'of each corpus file + generated depth/length family + I/O fault family; distinct = distinct (exit status | crash-site class) outcomes' % (
                    len(QUICK_SUBST if chk.quick else SUBST), len(BYTES)),
        'samples': [{'file': files[0][0], 'edit': sample_mut[0], 'input': sample_mut[1].decode('latin-1')[:200]},
                    {'generated': 'paren-expr/10', 'input': 'int x = ((((((((((1))))))))));'}],
        'corpus_files': len(files),
        'strata': strata,
        'exit_status_histogram': {str(k): v for k, v in sorted(statuses.items())},
        'crash_site_classes': {k: c['n'] for k, c in classes.items()},
        'io_fault_runs': nio,
    }
    return chk.finish(cov, [
        'executed on a gcc -fsanitize=address,undefined build of the working tree (fork-server), CPU limit 2-4 s per run; leak checking off (cproc leaks by design)',
        'a finding is identified by its crash-site class (kind, innermost compiler function, assertion/UBSan text), not by the input',
    ])
