"""C10 — constraint violations and unsupported features are diagnosed, never accepted.

K3: every template of a catalogue of constraint violations / documented-unsupported features, instantiated at
every compatible position (file scope, block scope, nested block, inside an expression context, produced by a
macro expansion) of fixed host programs, must be rejected: exit status 1 with a diagnostic.  The language-level
part of the catalogue is guarded by gcc and clang -pedantic-errors (a template they accept is dropped).
Machine-derived must-reject cases come from the reference models of C16 (redeclarations, duplicate labels).
"""
import re
import subprocess

from .. import build, c10cat, fs, witness
from . import c16

LEVEL = 'exploration'

FILLER1 = 'static int cfill1 = 1;\n'
FILLER2 = 'static int cfill2(void) { return cfill1; }\n'


def placements(e):
    """Yield (placement name, full program text) for catalogue entry e."""
    t = e['text']
    pre = c10cat.PRELUDE
    oneline = '\n' not in t and not t.lstrip().startswith('#')
    if e['kind'] == 'decl':
        yield 'file-scope', pre + FILLER1 + t + '\n' + FILLER2
        yield 'file-scope-first', t + '\n' + pre + FILLER2 if 'c' + 'obj' not in t and 'cs' not in t and 'cinc' not in t and 'cfn' not in t else pre + t + '\n'
        if e['blockok']:
            yield 'block-start', pre + 'void chost(void) {\n' + t + '\n}\n'
            yield 'block-after-statements', pre + 'void chost(void) {\nint z = 1; z++;\n' + t + '\n}\n'
            yield 'nested-block', pre + 'void chost(void) {\nint z = 1;\n{ { ' + t + ' } }\n}\n'
        if oneline:
            yield 'from-macro', pre + '#define CATM ' + t + '\nCATM\n' + FILLER2
    elif e['kind'] == 'stmt':
        yield 'block-start', pre + 'void chost(void) {\n' + t + '\n}\n'
        yield 'block-after-statements', pre + 'void chost(void) {\nint z = 1; z++;\n' + t + '\nz--;\n}\n'
        yield 'nested-block', pre + 'void chost(void) {\nint z = 1;\n{ { ' + t + ' } }\n}\n'
        yield 'if-body', pre + 'void chost(void) {\nif (cobj) { ' + t + ' } else { cobj = 2; }\n}\n'
        yield 'second-function', pre + FILLER2 + 'void chost(void) {\n' + t + '\n}\nint cafter(void) { return 3; }\n'
        if oneline:
            yield 'from-macro', pre + '#define CATM ' + t + '\nvoid chost(void) {\nCATM\n}\n'
            yield 'from-function-macro', pre + '#define CATF(x) x\nvoid chost(void) {\nCATF(' + t.replace(',', ' ,') + ')\n}\n' if ',' not in t else \
                pre + '#define CATF(...) __VA_ARGS__\nvoid chost(void) {\nCATF(' + t + ')\n}\n'
    elif e['kind'] == 'expr':
        yield 'void-statement', pre + 'void chost(void) {\n(void)(' + t + ');\n}\n'
        yield 'comma-in-condition', pre + 'void chost(void) {\nif ((' + t + '), 1) cobj = 1;\n}\n'
        yield 'assignment-rhs-nested', pre + 'void chost(void) {\ncobj = 1 + ((' + t + '), 2) * 3;\n}\n'
        yield 'loop-condition', pre + 'void chost(void) {\nwhile ((' + t + '), 0) ;\n}\n'
        yield 'from-macro', pre + '#define CATM (' + t + ')\nvoid chost(void) {\n(void)CATM;\n}\n'
        yield 'macro-argument', pre + '#define CATF(x) (x)\nvoid chost(void) {\n(void)CATF((' + t + '));\n}\n'
    else:
        yield 'file-scope', pre + t + '\n' + FILLER2
        yield 'first-line', t + '\n' + pre
        yield 'inside-function', pre + 'void chost(void) {\ncobj = 1;\n' + t + '\ncobj = 2;\n}\n'
        yield 'after-function', pre + FILLER2 + t + '\n'


def _job(batch):
    srv = fs.server('fs')
    out = []
    for eid, place, src in batch:
        r = srv.compile(src)
        out.append((eid, place, r.status, len(r.err), src if r.status != 1 or not r.err else None))
    return out


def witness_rejects(src):
    g, _ = witness.gcc_accepts(src)
    c, _ = witness.clang_accepts(src)
    return (not g), (not c)


def _wjob(batch):
    return [(eid, witness_rejects(src)) for eid, src in batch]


def main(chk):
    entries = c10cat.ENTRIES
    # guard the language-level part of the catalogue with the witnesses (canonical placement)
    wbatch = []
    for e in entries:
        if e['lang']:
            wbatch.append((e['id'], next(iter(placements(e)))[1]))
    dropped = {}
    for res in fs.pimap(_wjob, [wbatch[i:i + 8] for i in range(0, len(wbatch), 8)]):
        for eid, (g, c) in res:
            if not (g and c):
                dropped[eid] = 'gcc %s, clang %s' % ('rejects' if g else 'accepts', 'rejects' if c else 'accepts')
    if dropped:
        chk.log('%d templates dropped because a witness accepts them: %s' % (len(dropped), ', '.join(sorted(dropped))))
    batch, batches = [], []
    byid = {}
    for e in entries:
        if e['id'] in dropped:
            continue
        for place, src in placements(e):
            batch.append((e['id'], place, src.encode()))
            if len(batch) == 100:
                batches.append(batch)
                batch = []
    if batch:
        batches.append(batch)
    n = nrej = 0
    accepted = {}
    for res in fs.pimap(_job, batches):
        for eid, place, status, errlen, src in res:
            n += 1
            if status == 1 and errlen:
                nrej += 1
                continue
            accepted.setdefault(eid, []).append((place, status, src))
    ent = {e['id']: e for e in entries}
    for eid, lst in sorted(accepted.items()):
        lst.sort(key=lambda x: x[0])
        place, status, src = lst[0]
        e = ent[eid]
        if status == 0:
            key = 'cat/%s/accepted' % eid
            what = 'accepted with status 0'
        elif status == 1:
            key = 'cat/%s/no-diagnostic' % eid
            what = 'status 1 without a diagnostic on stderr'
        else:
            key = 'cat/%s/crash-status-%s' % (eid, status)
            what = 'neither accepted nor diagnosed: status %s' % status
        chk.violation(key, 'template %s (%s: %s) placed at %s is %s%s' % (
            eid, e['kind'], e['text'].replace('\n', ' / '), ', '.join(p for p, _, _ in lst), what,
            '' if e['lang'] else ' [documented-unsupported or cproc-specific: no witness]'),
            files={'input.c': src}, cmd='$CPROC_QBE input.c > /dev/null; echo "status=$? (a diagnostic and status 1 are required)"')
        if key in chk.viol:
            chk.viol[key]['count'] = len(lst)
            chk.nviol += len(lst) - 1
    # machine-derived: scoping histories that the C16 reference model calls invalid for redeclaration / duplicate label
    nder, derbad = derived_scoping(chk)
    # completeness metric (not a verdict): which error( call sites does the catalogue reach?
    covnote = coverage_metric(chk, entries, dropped) if chk.want('cov') and not build.COV else None
    cov = {
        'evaluations': n + nder,
        'distinct_nontrivial': len(entries) - len(dropped),
        'rule': 'every catalogue template x every compatible placement (file scope, block start/middle, nested block, if-body, expression contexts, macro expansion) '
                'must be rejected with status 1 and a diagnostic; non-trivial = templates kept after the gcc/clang guard',
        'samples': [{'template': entries[0]['id'], 'placement': p, 'program': s} for p, s in list(placements(entries[0]))[:2]],
        'templates': len(entries),
        'templates_language_level': sum(1 for e in entries if e['lang']),
        'templates_dropped_by_witness_guard': dropped,
        'instances_run': n,
        'instances_rejected': nrej,
        'derived_scoping_cases': nder,
        'derived_scoping_accepted': derbad,
        'error_site_coverage': covnote,
    }
    return chk.finish(cov, [
        'language-level templates are kept only if gcc -std=c11 -pedantic-errors and clang -std=c11 -pedantic-errors both reject them',
        'templates marked documented-unsupported follow README "What\'s missing" / cproc.1; they have no external witness',
    ])


def derived_scoping(chk):
    hs = []
    for h in c16.histories(('a',), 3 if chk.quick else 4):
        lines, expect = c16.model(h)
        if lines is None or not isinstance(expect, frozenset):
            continue
        if expect & {'redecl', 'dup-label'}:
            hs.append((h, c16.render(lines), expect))
    n = 0
    bad = 0
    batches = [hs[i:i + 300] for i in range(0, len(hs), 300)]
    for res in fs.pimap(_dsjob, batches):
        for h, src, why, status in res:
            n += 1
            if status == 1:
                continue
            ok, _ = witness.gcc_accepts(src)
            if ok:
                continue  # the witness accepts it: the model is too strict here
            bad += 1
            key = 'derived/scoping/' + root_cause(h, why) if status == 0 else 'derived/scoping/crash-status-%s' % status
            chk.violation(key, 'history %s (%s) gives status %s' % (' / '.join(' '.join(e) for e in h), '+'.join(sorted(why)), status),
                          files={'input.c': src.encode()}, cmd='$CPROC_QBE input.c > /dev/null; echo "status=$?"')
    return n, bad


def root_cause(h, why):
    """name the colliding pair of declarations of a history that the scope model calls a redeclaration"""
    if 'dup-label' in why and 'redecl' not in why:
        return 'duplicate-label'
    scopes = [{}]
    for e in h:
        if e[0] == '{':
            scopes.append({})
            if len(e) > 1:
                scopes[-1][('ord', e[1])] = 'parameter'
        elif e[0] == '}':
            scopes.pop()
        elif e[0] == 'decl' and e[1] not in ('label', 'proto'):
            ns = 'tag' if e[1] in ('stag', 'utag', 'sfwd', 'ufwd') else 'ord'
            old = scopes[-1].get((ns, e[2]))
            if old and ns == 'tag' and (e[1] in ('sfwd', 'ufwd') or old in ('sfwd', 'ufwd')) and old[0] == e[1][0]:
                # a forward declaration and its completion (same kind of tag) are one entity, not a redeclaration
                scopes[-1][(ns, e[2])] = e[1] if e[1] in ('stag', 'utag') else old
                continue
            if old:
                pair = sorted([old, e[1]])
                if 'parameter' in pair:
                    return 'parameter-redeclared-in-function-body'
                if pair == ['enumconst', 'enumconst']:
                    return 'enumerator-redeclared'
                if 'enumconst' in pair:
                    return 'enumerator-and-other-declaration-of-same-name'
                return 'redeclared/' + '+'.join(pair)
            scopes[-1][(ns, e[2])] = e[1]
    return 'redecl/other'


def _dsjob(batch):
    srv = fs.server('fs')
    return [(h, src, why, srv.compile(src, cpu_s=2).status) for h, src, why in batch]


def coverage_metric(chk, entries, dropped):
    """gcov over the catalogue: error( lines of the compiler sources that no template reaches (report only)."""
    import glob
    import os
    import shutil
    import tempfile
    try:
        exe = build.get('cov')
    except build.BuildError as e:
        return 'coverage build failed: %s' % str(e)[:100]
    covdir = os.path.dirname(exe)
    for f in glob.glob(os.path.join(covdir, '*.gcda')):
        os.unlink(f)
    for e in entries:
        for place, src in placements(e):
            subprocess.run([exe], input=src.encode(), stdout=subprocess.DEVNULL, stderr=subprocess.DEVNULL, timeout=30)
            break
    sd = build.srcdir()
    total = hit = 0
    missed = []
    work = tempfile.mkdtemp(prefix='c10cov.')
    try:
        for name in build.compiler_srcs():
            p = subprocess.run(['gcov', '-o', covdir, os.path.join(sd, name)], cwd=work, stdout=subprocess.DEVNULL, stderr=subprocess.DEVNULL, timeout=120)
            g = os.path.join(work, name + '.gcov')
            if not os.path.exists(g):
                continue
            for ln in open(g, errors='replace'):
                m = re.match(r'\s*([#\d=-]+\*?):\s*(\d+):(.*)', ln)
                if not m or 'error(' not in m.group(3) or m.group(3).strip().startswith(('void error', '*')):
                    continue
                if m.group(1).strip() == '-':
                    continue
                total += 1
                if m.group(1).strip().startswith('#') or m.group(1).strip().startswith('='):
                    missed.append('%s:%s' % (name, m.group(2)))
                else:
                    hit += 1
    finally:
        shutil.rmtree(work, ignore_errors=True)
    return {'error_call_lines': total, 'reached_by_catalogue': hit, 'not_reached': missed[:120]}
