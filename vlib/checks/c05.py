"""C05 — every expression is given the type C11 assigns it.

Bounded-exhaustive enumeration of the typing decision tables (DESIGN.md section 5, C05), for all three targets:

  triples   every (op, L, R): 18 binary operators, ?:, =, +=, <<=  x  operand kinds x operand kinds
            (T13, enum objects with unsigned / int / long / fixed underlying type, an enumeration constant,
            bit-fields (B, w) of 8 base types, pointer to int, pointer to const char, void *, array, function,
            the two null pointer constants, a const lvalue)
  unary     id + - ~ ! sizeof ++x x++ --x x--  x  operand kinds;   cast: (target type) x operand kinds
  lits      integer literals base x suffix x magnitude; floating suffixes; character constants and string
            literals by prefix
  members   member access with inherited qualifiers (object qualifiers x member qualifiers x access path)
  decay     every expression of depth <= 3 over  & * [k] +k .m  on arrays, functions, pointers
  typeof    typeof / typeof_unqual of qualified lvalues and rvalues
  calls     result type of calls through designator, pointer, dereferenced pointer
  ty2       compatibility judgements over all ordered pairs of the type set Ty2 (constructor depth <= 2):
            __builtin_types_compatible_p, _Generic selection, redeclaration accept/reject, pointer assignment

The type is observed as `int k = _Generic((E), <candidate types>: index, default: 99)` and `sizeof(E)` emitted as
data.  Triples the reference model R (vlib/cmodel.py) calls constraint violations must be rejected (one run each).
Witnesses (gcc host, clang --target x3) are consulted on every disagreement and on a sanity sample.
"""
import os
import random
import re
import zlib

from .. import cmodel as M
from .. import fs, ilparse, witness

LEVEL = 'model_checking'
TARGETS = ('x86_64-sysv', 'aarch64', 'riscv64')
CAP = 25

# ---------------------------------------------------------------------------------------------------------
# operand kinds

EU = M.Enum('EU', M.UINT, False)
EI = M.Enum('EI', M.INT, False)
EL = M.Enum('EL', M.LONG, False)
EF = M.Enum('EF', M.SHORT, True)
FN = M.Func(M.INT, (), False)
REC_S = M.Rec('struct', 'S')

BF_BASES = (M.BOOL, M.UCHAR, M.SHORT, M.INT, M.UINT, M.LONG, M.ULONG, M.LLONG)
BF_WIDTHS = (1, 7, 8, 15, 16, 31, 32, 33, 63, 64)


def bf_members():
    out = []
    for b in BF_BASES:
        for w in BF_WIDTHS:
            if w <= M.width(b):
                out.append((b, w, 'f_%s_%d' % (b.kind, w)))
    return out


class Kind:
    __slots__ = ('name', 'o', 'expr', 'cls', 'ext')

    def __init__(self, name, o, expr, cls, ext=''):
        self.name, self.o, self.expr, self.cls, self.ext = name, o, expr, cls, ext


def kinds():
    ks = []
    for t in M.T13:
        cls = {'bool': 'bool', 'char': 'char', 'schar': 'char', 'uchar': 'char', 'short': 'short', 'ushort': 'short', 'int': 'int', 'uint': 'int',
               'long': 'long', 'ulong': 'long', 'llong': 'long', 'ullong': 'long', 'float': 'float', 'double': 'float'}[t.kind]
        ks.append(Kind(t.kind, M.opnd(t, lvalue=True), 'x_' + t.kind, cls))
    for e, n, ext in ((EU, 'eu', ''), (EI, 'ei', ''), (EL, 'el', 'EL'), (EF, 'ef', 'EF')):
        ks.append(Kind(n, M.opnd(e, lvalue=True), 'x_' + n, 'enum', ext))
    ks.append(Kind('econst', M.opnd(M.INT), 'EI_N', 'enum-constant'))
    for b, w, m in bf_members():
        cls = 'bitfield-wide' if w > 32 else 'bitfield-int-width' if w == 32 else 'bitfield-narrow'
        ks.append(Kind(m, M.opnd(b, bf=w, lvalue=True), 'bf.' + m, cls))
    ks.append(Kind('pi', M.opnd(M.Ptr(M.INT), lvalue=True), 'p_i', 'pointer'))
    ks.append(Kind('pcc', M.opnd(M.Ptr(M.Q(M.CHAR, ('const',))), lvalue=True), 'p_cc', 'pointer'))
    ks.append(Kind('pv', M.opnd(M.Ptr(M.VOID), lvalue=True), 'p_v', 'void-pointer'))
    ks.append(Kind('arr', M.opnd(M.Arr(M.INT, 4), lvalue=True), 'arr', 'array'))
    ks.append(Kind('fn', M.opnd(FN), 'fn', 'function'))
    ks.append(Kind('zero', M.opnd(M.INT, npc=True), '0', 'null-constant'))
    ks.append(Kind('nullvp', M.opnd(M.Ptr(M.VOID), npc=True), '((void *)0)', 'null-constant'))
    ks.append(Kind('cint', M.opnd(M.Q(M.INT, ('const',)), lvalue=True), 'c_i', 'const-lvalue'))
    return ks


KINDS = kinds()
KBYNAME = {k.name: k for k in KINDS}

PRE_BASE = (
    'enum EU { EU_A = 1 }; enum EI { EI_N = -1 };\n'
    'typedef enum EU tEU; typedef enum EI tEI;\n'
    'struct BF { ' + ' '.join('%s;' % M.cdecl(b, '%s : %d' % (m, w)) for b, w, m in bf_members()) + ' };\n'
    'extern struct BF bf;\n' +
    ''.join('extern %s;\n' % M.cdecl(t, 'x_' + t.kind) for t in M.T13) +
    'extern enum EU x_eu; extern enum EI x_ei;\n'
    'extern int *p_i; extern const char *p_cc; extern void *p_v; extern int arr[4]; extern int fn(void); extern const int c_i;\n'
    'struct S { int m; const int cm; volatile int vm; int am[3]; int *pm; struct { int z; } in; };\n'
)
PRE_EL = 'enum EL { EL_N = -1, EL_B = 0x100000000 }; typedef enum EL tEL; extern enum EL x_el;\n'
PRE_EF = 'enum EF : short { EF_A = 1 }; typedef enum EF tEF; extern enum EF x_ef;\n'
PRELUDE = PRE_BASE + PRE_EL + PRE_EF

# candidate types of the generic selection (mutually incompatible)
CANDS = list(M.T13) + [M.Ptr(M.INT), M.Ptr(M.Q(M.CHAR, ('const',))), M.Ptr(M.VOID), M.Ptr(M.Q(M.VOID, ('const',))), M.Ptr(FN),
                       M.Ptr(M.CHAR), M.Ptr(M.Q(M.INT, ('const',))), M.LDOUBLE, M.Ptr(M.UINT), M.Ptr(M.USHORT), M.Ptr(M.UCHAR),
                       M.Ptr(M.Arr(M.INT, 4)), M.Ptr(M.Q(M.VOID, ('const', 'volatile'))), M.Ptr(M.Arr(M.CHAR, 1))]
CAND_TEXT = ', '.join('%s: %d' % (M.cname(t), i) for i, t in enumerate(CANDS))


def tname(t):
    t = M.unq(t)[0]
    return 't' + t.tag if isinstance(t, M.Enum) else M.cname(t)


def index_of(t):
    t = M.unq(t)[0]
    if isinstance(t, M.Enum):
        t = t.under
    if t == M.VOID:
        return 99
    return CANDS.index(t)


def generic_decl(i, e):
    return 'int k%d = _Generic(%s, %s, default: 99);\n' % (i, e, CAND_TEXT)


# ---------------------------------------------------------------------------------------------------------
# running

class Runner:
    def __init__(self, target):
        self.srv = fs.server('fs')
        self.target = target
        self.runs = 0

    def compile(self, src):
        self.runs += 1
        return self.srv.compile(src, target=self.target, cpu_s=10)

    def many(self, items, prelude=PRELUDE, unit=2000):
        """compile [(key, text)] in units, bisecting on failure -> (data name -> DataDef, key -> (status, err))"""
        data, rej = {}, {}

        def rec(lo, hi):
            r = self.compile(prelude + ''.join(t for _, t in items[lo:hi]))
            if r.status == 0:
                try:
                    m = ilparse.parse(r.out)
                except ilparse.ParseError as e:
                    if hi - lo == 1:
                        rej[items[lo][0]] = (-1, ('IL not parsable: %s' % e).encode())
                        return
                else:
                    for d in m.data:
                        data[d.name] = d
                    return
            elif hi - lo == 1:
                rej[items[lo][0]] = (r.status, r.err[-160:])
                return
            mid = (lo + hi) // 2
            rec(lo, mid)
            rec(mid, hi)
        for i in range(0, len(items), unit):
            rec(i, min(i + unit, len(items)))
        return data, rej


def rejtext(st_err):
    st, err = st_err
    return 'rejected (status %d: %s)' % (st, err.decode(errors='replace').strip().split('error: ')[-1][:90])


def intval(d):
    img = ilparse.data_image(d)[0]
    return int.from_bytes(img, 'little')


class Case:
    """one typing question: expression text, R's verdict (a type or None = must be rejected)"""
    __slots__ = ('i', 'stratum', 'cell', 'expr', 'type', 'opclass', 'lcls', 'rcls', 'ext', 'family', 'size')

    def __init__(self, stratum, cell, expr, type_, opclass, lcls='-', rcls='-', ext='', family=None, size=True):
        self.stratum, self.cell, self.expr, self.type, self.opclass = stratum, cell, expr, type_, opclass
        self.lcls, self.rcls, self.ext, self.family, self.size = lcls, rcls, ext, family, size


def run_type_cases(cases, target, stats, pre='', rejects=True):
    """-> list of (case, observed text)"""
    R = Runner(target)
    bad = []
    items = []
    for c in cases:
        if c.type is None:
            continue
        items.append(('k%d' % c.i, generic_decl(c.i, c.expr)))
        t = M.unq(c.type)[0]
        if c.size and t != M.VOID:
            items.append(('z%d' % c.i, 'unsigned long z%d = sizeof(%s);\n' % (c.i, c.expr)))
        if isinstance(t, M.Enum):
            items.append(('q%d' % c.i, 'int q%d = __builtin_types_compatible_p(typeof(%s), %s);\n' % (c.i, c.expr, tname(t))))
    data, rej = R.many(items, prelude=PRELUDE + pre)
    byi = {c.i: c for c in cases}
    seen = set()
    for key, _ in items:
        c = byi[int(key[1:])]
        stats['transitions'] += 1
        if c.i in seen:
            continue
        if key in rej:
            seen.add(c.i)
            bad.append((c, rejtext(rej[key])))
            continue
        if '$' + key not in data:
            seen.add(c.i)
            bad.append((c, 'object not emitted'))
            continue
        v = intval(data['$' + key])
        if key[0] == 'k':
            want = index_of(c.type)
            if v != want:
                seen.add(c.i)
                bad.append((c, 'type %s' % ('not among the candidates' if v == 99 else M.cname(CANDS[v]))))
        elif key[0] == 'z':
            if v != M.sizeof(c.type):
                seen.add(c.i)
                bad.append((c, 'sizeof gives %d' % v))
        elif v != 1:
            seen.add(c.i)
            bad.append((c, 'not compatible with %s' % tname(c.type)))
    for c in cases:
        if c.type is not None or not rejects:
            continue
        stats['transitions'] += 1
        stats['expected_reject'] += 1
        r = R.compile(PRELUDE + pre + 'int k = _Generic(%s, default: 0);\n' % c.expr)
        if r.status != 1:
            bad.append((c, 'accepted' if r.status == 0 else 'status %d' % r.status))
    stats['runs'] += R.runs
    return bad


def key_of(c, obs):
    if obs.startswith('status '):
        return 'crash/%s/%s' % (obs.replace(' ', '-'), c.opclass)
    if c.family and (c.type is not None or obs == 'accepted'):
        return c.family
    if c.type is None:
        a, b = sorted((c.lcls, c.rcls)) if c.opclass in ('cond', 'eq', 'rel', 'add', 'mul', 'bit', 'logical') else (c.lcls, c.rcls)
        return 'accepts-invalid/%s/%s/%s-x-%s' % (c.stratum, c.opclass, a, b)
    if obs.startswith('rejected'):
        return 'rejects-valid/%s/%s/%s-x-%s' % (c.stratum, c.opclass, c.lcls, c.rcls)
    return 'type/%s/%s/%s-x-%s' % (c.stratum, c.opclass, c.lcls, c.rcls)


def finish_job(cases, target, stats, pre='', rejects=True):
    """run, replay disagreements alone, cap per family -> records"""
    bad = run_type_cases(cases, target, stats, pre, rejects)
    recs, perkey = [], {}
    for c, obs in bad:
        key = key_of(c, obs)
        perkey[key] = perkey.get(key, 0) + 1
        if perkey[key] > CAP:
            stats['capped'][key] = stats['capped'].get(key, 0) + 1
            continue
        one = Case(c.stratum, c.cell, c.expr, c.type, c.opclass, c.lcls, c.rcls, c.ext, c.family, c.size)
        one.i = 0
        again = run_type_cases([one], target, {'transitions': 0, 'expected_reject': 0, 'runs': 0, 'capped': {}}, pre)
        if not again:
            stats['unconfirmed_on_replay'] += 1
            continue
        obs = again[0][1]
        key = key_of(c, obs)
        src = PRELUDE + pre + (generic_decl(0, c.expr) + 'unsigned long z0 = sizeof(%s);\n' % c.expr if c.type is not None and M.unq(c.type)[0] != M.VOID and c.size
                         else 'int k = _Generic(%s, default: 0);\n' % c.expr)
        recs.append({'stratum': c.stratum, 'cell': c.cell, 'expr': c.expr, 'expected': tname(c.type) if c.type is not None else None,
                     'index': index_of(c.type) if c.type is not None else None, 'observed': obs, 'key': key, 'target': target, 'ext': c.ext,
                     'input': src})
    stats['disagreements'] = len(bad)
    return recs


def newstats():
    return {'transitions': 0, 'expected_reject': 0, 'runs': 0, 'capped': {}, 'unconfirmed_on_replay': 0, 'cases': 0, 'disagreements': 0}


def pack(spec, cases, target, stats, pre='', rejects=True):
    for i, c in enumerate(cases):
        c.i = i
    stats['cases'] = len(cases)
    recs = finish_job(cases, target, stats, pre, rejects)
    cells = {c.cell for c in cases}
    types = {tname(c.type) for c in cases if c.type is not None}
    okc = [c for c in cases if c.type is not None]
    sanity = [(c.expr, tname(c.type), c.ext) for c in cases if c.type is not None and M.unq(c.type)[0] != M.VOID and
              zlib.crc32(c.expr.encode()) % (61 if spec[0] == 'triples' else 5) == 0]
    sample = None
    if okc:
        c = okc[len(okc) // 2]
        sample = {'stratum': c.stratum, 'target': target, 'expression': c.expr, 'expected_type': tname(c.type), 'observed': 'same type and size'}
    return spec, stats, recs, cells, types, sanity, sample


# ---------------------------------------------------------------------------------------------------------
# strata

BINOPS = M.BINOPS + ('?:', '=', '+=', '<<=')
OPCLASS = {'*': 'mul', '/': 'div', '%': 'mod', '+': 'add', '-': 'sub', '<<': 'shift', '>>': 'shift', '<': 'rel', '>': 'rel',
           '<=': 'rel', '>=': 'rel', '==': 'eq', '!=': 'eq', '&': 'bit', '^': 'bit', '|': 'bit', '&&': 'logical', '||': 'logical',
           '?:': 'cond', '=': 'assign', '+=': 'add-assign', '<<=': 'shift-assign'}
COND_FAMILY = 'type/conditional-of-same-narrow-type-operands-not-promoted'
PLUS_FAMILY = 'type/unary-plus-returns-operand-unconverted'
FULLWIDTH_FAMILY = 'accepts-invalid/full-width-bit-field-treated-as-ordinary-member'
PTRFLOAT_FAMILY = 'accepts-invalid/cast-between-pointer-and-floating-type'
BITFLOAT_FAMILY = 'accepts-invalid/bitwise-operator-with-floating-operand'
ASSIGN_FAMILY = 'accepts-invalid/assignment-operator-constraints-not-checked'
EQNULL_FAMILY = 'accepts-invalid/equality-of-null-pointer-constant-and-arithmetic-operand'


def triple_cases(op, lnames, tgt):
    out = []
    for ln in lnames:
        L = KBYNAME[ln]
        for Rk in KINDS:
            fam = None
            try:
                if op == '?:':
                    t = M.expr_cond_type(L.o, Rk.o, tgt)
                    lt, rt = M.value_type(L.o), M.value_type(Rk.o)
                    if lt == rt and M.is_integer(lt) and t != lt:
                        fam = COND_FAMILY       # known family: both operands of one narrow type (incl. narrow bit-fields)
                else:
                    t = M.expr_binary_type(op, L.o, Rk.o, tgt)
            except M.Invalid:
                t = None
            if t is None:
                lt, rt = M.value_type(L.o), M.value_type(Rk.o)
                if op in ('&', '^', '|') and M.is_arith(lt) and M.is_arith(rt):
                    fam = BITFLOAT_FAMILY           # known family: & ^ | do not check for integer operands
                elif op in ('=', '+=', '<<=') and L.o.lvalue and not isinstance(M.unq(L.o.type)[0], (M.Arr, M.Func)):
                    fam = ASSIGN_FAMILY             # known family: the assignment operators check no constraint but lvalue-ness
                elif op in ('==', '!=') and ((L.name == 'nullvp' and M.is_arith(rt)) or (Rk.name == 'nullvp' and M.is_arith(lt))):
                    fam = EQNULL_FAMILY
                elif op == '?:' and {L.name, Rk.name} == {'pv', 'fn'}:
                    fam = 'accepts-invalid/conditional-of-function-pointer-and-void-pointer'
            e = '(x_int ? %s : %s)' % (L.expr, Rk.expr) if op == '?:' else '(%s %s %s)' % (L.expr, op, Rk.expr)
            out.append(Case('triples', (op, L.name, Rk.name), e, t, OPCLASS[op], L.cls, Rk.cls, L.ext + Rk.ext, fam))
    return out


UNOPS = ('id', '+', '-', '~', '!', 'sizeof', '++pre', '++post', '--pre', '--post')
CAST_TARGETS = [(t, '') for t in M.T13] + [(EU, ''), (EI, ''), (EL, 'EL'), (EF, 'EF'), (M.Ptr(M.INT), ''), (M.Ptr(M.Q(M.CHAR, ('const',))), ''),
                                            (M.Ptr(M.VOID), ''), (M.Ptr(FN), ''), (M.VOID, ''), (M.Arr(M.INT, 4), ''), (REC_S, ''), (FN, ''),
                                            (M.Q(M.INT, ('const',)), '')]


def unary_cases(tgt):
    out = []
    for op in UNOPS:
        for X in KINDS:
            try:
                t = M.expr_unary_type(op, X.o, tgt)
            except M.Invalid:
                t = None
            e = {'id': '%s', 'sizeof': 'sizeof(%s)', '++pre': '(++%s)', '++post': '(%s++)', '--pre': '(--%s)', '--post': '(%s--)'}.get(op, '(' + op + '%s)') % X.expr
            oc = {'id': 'lvalue-conversion', 'sizeof': 'sizeof', '+': 'unary-plus', '-': 'unary-minus', '~': 'complement', '!': 'not'}.get(op, 'incdec')
            fam = None
            if op == '+' and X.o.bf is not None and t is not None and t == M.basic_of(X.o.type):
                fam = PLUS_FAMILY       # known family: unary + hands its operand on unchanged when no conversion is needed
            if op == 'sizeof' and X.o.bf is not None and X.o.bf == 8 * M.sizeof(X.o.type):
                fam = FULLWIDTH_FAMILY  # known family: a bit-field as wide as its type is treated as an ordinary member
            out.append(Case('unary', (op, X.name, '-'), e, t, oc, X.cls, '-', X.ext, fam, size=op != 'id'))
    for tt, ext in CAST_TARGETS:
        for X in KINDS:
            try:
                t = M.expr_cast_type(tt, X.o)
            except M.Invalid:
                t = None
            tc = 'void' if tt == M.VOID else 'pointer' if M.is_pointer(tt) else 'float' if M.is_float(tt) else 'integer' if M.is_integer(M.unq(tt)[0]) else 'non-scalar'
            vt = M.value_type(X.o)
            fam = PTRFLOAT_FAMILY if (M.is_pointer(tt) and M.is_float(vt)) or (M.is_float(tt) and M.is_pointer(vt)) else None
            out.append(Case('unary', ('cast', M.cname(tt), X.name), '((%s)%s)' % (M.cname(tt), X.expr), t, 'cast', tc, X.cls, ext + X.ext, fam))
    # _Alignof and sizeof of type names
    for tt, ext in CAST_TARGETS + [(M.Arr(M.INT, None), '')]:
        for op in ('sizeof', '_Alignof'):
            valid = M.is_complete_object(tt)
            out.append(Case('unary', (op + '-type', M.cname(tt), '-'), '%s(%s)' % (op, M.cname(tt)), M.ULONG if valid else None, op + '-type', '-', '-', ext))
    return out


MAGNITUDES = (0, 1, (1 << 31) - 1, 1 << 31, (1 << 32) - 1, 1 << 32, (1 << 63) - 1, 1 << 63, (1 << 64) - 1)


def lit_cases(tgt):
    out = []

    def spell(base, v):
        return {'dec': '%d', 'oct': '0%o', 'hex': '0x%x', 'HEX': '0X%X'}[base] % v if base in ('dec', 'oct', 'hex', 'HEX') else '0b' + bin(v)[2:]
    for base in ('dec', 'oct', 'hex', 'HEX', 'bin'):
        for suf in sorted(M.VALID_SUFFIXES):
            for v in MAGNITUDES:
                text = spell(base, v) + suf
                try:
                    t = M.int_literal(text)[0]
                except M.Invalid:
                    t = None
                out.append(Case('lits', ('int-' + base.lower(), M.VALID_SUFFIXES[suf] or 'none', '-'), text, t, 'integer-literal', base.lower(), M.VALID_SUFFIXES[suf] or 'none'))
    for text in ('1.0', '1.', '.5', '1e3', '0x1p3', '1.0f', '1.F', '.5f', '1e3F', '0x1p3f', '1.0l', '1.L', '0x1p3L'):
        t = M.float_literal(text)[0]
        out.append(Case('lits', ('float', text[-1].lower() if text[-1] in 'fFlL' else 'none', '-'), text, t, 'floating-literal'))
    wch = tgt.wchar
    for pre, t in (('', M.INT), ('L', wch), ('u', M.USHORT), ('U', M.UINT)):
        for body in ('a', '\\n', '\\0', '\\x41', '\\101'):
            out.append(Case('lits', ('char-const', pre or 'none', '-'), "%s'%s'" % (pre, body), t, 'character-constant', pre or 'plain'))
    for pre, t in (('', M.CHAR), ('L', wch), ('u', M.USHORT), ('U', M.UINT)):      # u8: char in C11, char8_t in C23 -- not judged
        for body in ('', 'abc'):
            e = '%s"%s"' % (pre, body)
            out.append(Case('lits', ('string', pre or 'none', '-'), e, M.Ptr(t), 'string-literal', pre or 'plain', size=False))
            # not decayed: sizeof
            n = (len(body) + 1) * M.sizeof(t)
            out.append(Case('lits', ('string-size', pre or 'none', '-'), '(char (*)[sizeof(%s) == %d ? 1 : 2])0' % (e, n), M.Ptr(M.Arr(M.CHAR, 1)), 'string-literal-size', pre or 'plain', size=False))
    return out


# member access with inherited qualifiers: observed through the pointer type of &E
QSETS = ((), ('const',), ('volatile',), ('const', 'volatile'))
MEMBER_PRE = ('extern struct S s_; extern const struct S cs_; extern volatile struct S vs_; extern const volatile struct S cvs_;\n'
              'extern struct S *ps_; extern const struct S *pcs_; extern volatile struct S *pvs_; extern struct S *const cps_; extern struct S as_[2]; extern const struct S cas_[2];\n')


def member_cases():
    objs = [('s_.', ()), ('cs_.', ('const',)), ('vs_.', ('volatile',)), ('cvs_.', ('const', 'volatile')), ('ps_->', ()), ('pcs_->', ('const',)),
            ('pvs_->', ('volatile',)), ('cps_->', ()), ('(*pcs_).', ('const',)), ('as_[1].', ()), ('cas_[1].', ('const',)), ('(&cs_)->', ('const',)),
            ('pcs_[0].', ('const',)), ('(0, ps_)->', ())]
    members = [('m', M.INT, ()), ('cm', M.INT, ('const',)), ('vm', M.INT, ('volatile',)), ('am[1]', M.INT, ()), ('pm', M.Ptr(M.INT), ()), ('in.z', M.INT, ()),
               ('am', 'array', ())]
    out = []
    for o, oq in objs:
        for m, mt, mq in members:
            q = tuple(sorted(set(oq) | set(mq)))
            e = o + m
            if mt == 'array':
                # the array member decays to a pointer to qualified elements
                for j, qs in enumerate(QSETS):
                    t = M.cname(M.Ptr(M.qualify(M.INT, qs)))
                    out.append(('members', ('member-decay', o, m), 'int k%%d = __builtin_types_compatible_p(typeof(%s + 0), %s);' % (e, t), int(qs == q), 'member-qualifiers', e))
                    # the address of the array member points to an array of qualified elements (6.7.3p9: the element type is so-qualified, not the array type)
                    ta = M.cname(M.Ptr(M.Arr(M.qualify(M.INT, qs), 3)))
                    out.append(('members', ('member-array-address', o, m), 'int k%%d = __builtin_types_compatible_p(typeof(&%s), %s);' % (e, ta), int(qs == q), 'member-qualifiers', e))
                    out.append(('members', ('member-array-address-deref', o, m), 'int k%%d = __builtin_types_compatible_p(typeof(&(*&%s)[1]), %s);' % (e, t), int(qs == q), 'member-qualifiers', e))
                continue
            for j, qs in enumerate(QSETS):
                t = M.cname(M.Ptr(M.qualify(mt, qs)))
                out.append(('members', ('member', o, m), 'int k%%d = __builtin_types_compatible_p(typeof(&%s), %s);' % (e, t), int(qs == q), 'member-qualifiers', e))
            # the value of the member expression loses the qualifiers
            out.append(('members', ('member-value', o, m), 'int k%%d = _Generic(%s, %s: 1, default: 0);' % (e, M.cname(mt)), 1, 'member-value', e))
    return out


# decay: all expressions up to depth 3 over & * [k] +k on a few objects, typed by a small evaluator of 6.3.2.1 / 6.5.3.2 / 6.5.2.1
DECAY_PRE = 'extern int m2[2][3]; extern int **pp_i; extern int (*pa_)[4]; extern int (*pf_)(void); extern struct S s_;\n'
DECAY_OBJS = (('arr', M.Arr(M.INT, 4)), ('m2', M.Arr(M.Arr(M.INT, 3), 2)), ('fn', FN), ('p_i', M.Ptr(M.INT)), ('pp_i', M.Ptr(M.Ptr(M.INT))),
              ('pa_', M.Ptr(M.Arr(M.INT, 4))), ('pf_', M.Ptr(FN)), ('s_.am', M.Arr(M.INT, 3)), ('"abc"', M.Arr(M.CHAR, 4)))


def decay_step(op, t, lvalue):
    """(type, lvalue) of op applied to an expression of (undecayed) type t; Invalid if not allowed"""
    t = M.unq(t)[0]
    v = M.Ptr(t.of) if isinstance(t, M.Arr) else M.Ptr(t) if isinstance(t, M.Func) else t
    if op == '&':
        if not (lvalue or isinstance(t, M.Func)):
            raise M.Invalid('& of rvalue')
        return M.Ptr(t), False
    if op == '*':
        if not M.is_pointer(v) or M.unq(v.to)[0] == M.VOID:
            raise M.Invalid('* of non-pointer')
        return M.unq(v.to)[0], True
    if op == '[1]':
        if not M.is_pointer(v) or not M.is_complete_object(v.to):
            raise M.Invalid('[]')
        return M.unq(v.to)[0], True
    if op == '+1':
        if M.is_arith(v):
            return M.usual_arith(v, M.INT, M.TARGETS['x86_64-sysv']), False
        if not M.is_pointer(v) or not M.is_complete_object(v.to):
            raise M.Invalid('+')
        return v, False
    raise ValueError(op)


def decay_cases(maxdepth):
    out = []

    def rec(text, t, lv, depth, path):
        d = M.unq(t)[0]
        vt = M.Ptr(d.of) if isinstance(d, M.Arr) else M.Ptr(d) if isinstance(d, M.Func) else d
        out.append(('decay', ('decay',) + path[:2], text, vt, d))
        if depth == maxdepth:
            return
        for op in ('&', '*', '[1]', '+1'):
            e = {'&': '(&%s)', '*': '(*%s)', '[1]': '%s[1]', '+1': '(%s + 1)'}[op] % text
            try:
                nt, nlv = decay_step(op, t, lv)
            except M.Invalid:
                out.append(('decay', ('decay-invalid', path[0], op), e, None, None))
                continue
            rec(e, nt, nlv, depth + 1, path + (op,))
    for name, t in DECAY_OBJS:
        rec(name, t, True, 0, (name,))
    return out


TYPEOF_PRE = ('extern const int tc_i; extern volatile int tv_i; extern const volatile int tcv_i; extern int *const tc_p; extern const int ta_[3];\n'
              'extern const struct S tc_s;\n')


# typeof_unqual is C23 and unknown to the witnesses (gcc 12, clang 14): for a disagreement about typeof_unqual(X) the witnesses are asked
# about the sibling typeof(X) (the operand has the qualified type the reference model believes); removing the qualifiers is the definition
UNQUAL_SIBLING = {}


def typeof_cases():
    """(text with k%d, expected) for typeof / typeof_unqual"""
    out = []
    objs = [('x_int', M.INT, ()), ('tc_i', M.INT, ('const',)), ('tv_i', M.INT, ('volatile',)), ('tcv_i', M.INT, ('const', 'volatile')),
            ('tc_p', M.Ptr(M.INT), ('const',)), ('tc_s', REC_S, ('const',)), ('c_i', M.INT, ('const',))]
    for name, t, q in objs:
        for kw, keep in (('typeof', True), ('typeof_unqual', False)):
            for qs in QSETS:
                want = int(set(qs) == (set(q) if keep else set()))
                out.append((kw, name, 'int k%%d = __builtin_types_compatible_p(%s(%s) *, %s);' % (kw, name, M.cname(M.Ptr(M.qualify(t, qs)))), want))
                if not keep:
                    UNQUAL_SIBLING[out[-1][2] % 0] = '_Static_assert(__builtin_types_compatible_p(typeof(%s) *, %s), "");' % (name, M.cname(M.Ptr(M.qualify(t, q))))
            # of an rvalue: never qualified
            if t != REC_S:
                rv = '+' + name if M.is_integer(t) else '(0, %s)' % name
                for qs in QSETS:
                    out.append((kw + '-rvalue', name, 'int k%%d = __builtin_types_compatible_p(%s(%s) *, %s);' % (kw, rv, M.cname(M.Ptr(M.qualify(t, qs)))), int(qs == ())))
                    if not keep:
                        UNQUAL_SIBLING[out[-1][2] % 0] = '_Static_assert(__builtin_types_compatible_p(typeof(%s) *, %s), "");' % (rv, M.cname(M.Ptr(t)))
    # arrays and functions are not decayed by typeof
    out.append(('typeof', 'arr', 'int k%d = sizeof(typeof(arr)) == 16 && __builtin_types_compatible_p(typeof(arr), int[4]);', 1))
    out.append(('typeof', 'arr', 'int k%d = __builtin_types_compatible_p(typeof(arr), int *);', 0))
    out.append(('typeof', 'ta_', 'int k%d = __builtin_types_compatible_p(typeof(ta_), const int[3]);', 1))
    out.append(('typeof', 'ta_', 'int k%d = __builtin_types_compatible_p(typeof(ta_) *, int (*)[3]);', 0))
    out.append(('typeof_unqual', 'ta_', 'int k%d = __builtin_types_compatible_p(typeof_unqual(ta_) *, int (*)[3]);', 1))
    UNQUAL_SIBLING[out[-1][2] % 0] = '_Static_assert(__builtin_types_compatible_p(typeof(ta_) *, const int (*)[3]), "");'
    out.append(('typeof', 'fn', 'int k%d = __builtin_types_compatible_p(typeof(fn), int(void));', 1))
    out.append(('typeof', 'fn', 'int k%d = __builtin_types_compatible_p(typeof(fn) *, int (*)(void));', 1))
    out.append(('typeof', 'fn', 'int k%d = __builtin_types_compatible_p(typeof(&fn), int (*)(void));', 1))
    out.append(('typeof', 'type', 'int k%d = __builtin_types_compatible_p(typeof(const int) *, const int *);', 1))
    out.append(('typeof_unqual', 'type', 'int k%d = __builtin_types_compatible_p(typeof_unqual(const int) *, int *);', 1))
    UNQUAL_SIBLING[out[-1][2] % 0] = '_Static_assert(__builtin_types_compatible_p(typeof(const int) *, const int *), "");'
    for tn, un in (('volatile long', 'long'), ('const volatile char', 'char'), ('int *const', 'int *'), ('const int *', 'const int *'), ('const struct S', 'struct S'),
                   ('_Atomic int', 'int'), ('int', 'int'), ('const unsigned short', 'unsigned short')):
        for cmp_, want in ((un, 1), (tn, int(tn == un))):
            if tn.startswith('_Atomic'):
                continue
            out.append(('typeof_unqual', 'type', 'int k%%d = __builtin_types_compatible_p(typeof_unqual(%s) *, %s *);' % (tn, cmp_), want))
            UNQUAL_SIBLING[out[-1][2] % 0] = '_Static_assert(__builtin_types_compatible_p(typeof(%s) *, %s *), "");' % (tn, tn)
    out.append(('typeof', 'expr', 'int k%d = __builtin_types_compatible_p(typeof(x_char + x_char), int);', 1))
    out.append(('typeof', 'expr', 'int k%d = __builtin_types_compatible_p(typeof(x_uint + x_long), long);', 1))
    out.append(('typeof', 'expr', 'int k%d = __builtin_types_compatible_p(typeof(1 ? p_i : p_v), void *);', 1))
    return out


CALL_RET = list(M.T13) + [M.Ptr(M.INT), M.Ptr(M.Q(M.CHAR, ('const',))), M.Ptr(M.VOID), EU, EI, M.VOID]


def call_cases():
    pre = ''
    out = []
    for n, t in enumerate(CALL_RET):
        pre += 'extern %s; extern %s;\n' % (M.cdecl(M.Func(t, (), False), 'cf%d' % n), M.cdecl(M.Ptr(M.Func(t, (M.INT,), False)), 'cp%d' % n))
        for form, e in (('designator', 'cf%d()' % n), ('address', '(&cf%d)()' % n), ('deref', '(*cf%d)()' % n), ('pointer', 'cp%d(1)' % n), ('deref-pointer', '(*cp%d)(x_char)' % n),
                        ('deref-deref', '(**cp%d)(1)' % n)):
            out.append(Case('calls', ('call', form, M.cname(t)), e, t, 'call', form, '-'))
    for bad in ('x_int()', 'p_i()', 'cf0(1)', 'cp0()', 'cp0(1, 2)', 'cp0(p_i)'):
        out.append(Case('calls', ('call-invalid', bad, '-'), bad, None, 'call', 'invalid', '-'))
    return pre, out


# ---------------------------------------------------------------------------------------------------------
# Ty2: compatibility judgements

REC_S2 = M.Rec('struct', 'S2')
TY2_BASES_Q = (M.INT, M.UINT, EU, REC_S)
TY2_BASES_T = (M.INT, M.UINT, M.CHAR, M.LONG, M.LLONG, EU, REC_S, REC_S2)
CTORS = ('P', 'PC', 'CP', 'A2', 'A3', 'A0', 'F0', 'F1', 'FV', 'FP', 'FN')
TY2_PRE = 'enum EU { EU_A = 1 }; typedef enum EU tEU; struct S { int m; }; struct S2 { int m; };\n'


def assoc_name(t):
    """type name for a generic association: 'enum EU: 1' would read as an enum with fixed underlying type"""
    return M.cname(t).replace('enum EU', 'tEU')


def apply_ctor(c, t):
    u, q = M.unq(t)
    if c == 'P':
        return M.Ptr(t)
    if c == 'PC':
        if isinstance(u, M.Func):
            return None
        if isinstance(u, M.Arr):
            return M.Ptr(M.Arr(M.qualify(u.of, ('const',)), u.n))
        return M.Ptr(M.qualify(t, ('const',)))
    if c == 'CP':
        return M.Q(M.Ptr(t), ('const',))
    if c in ('A2', 'A3', 'A0'):
        if isinstance(u, M.Func) or not M.is_complete_object(u) or q:
            return None
        return M.Arr(t, {'A2': 2, 'A3': 3, 'A0': None}[c])
    if isinstance(u, (M.Func, M.Arr)) or q:
        return None
    params = {'F0': (), 'F1': (M.INT,), 'FV': (M.INT,), 'FP': (M.Ptr(M.CHAR),), 'FN': None}[c]
    return M.Func(t, params, c == 'FV')


def ty2(bases, second):
    out = list(bases)
    d1 = [x for x in (apply_ctor(c, b) for b in bases for c in CTORS) if x is not None]
    out += d1
    for t in d1:
        for c in second:
            x = apply_ctor(c, t)
            if x is not None and x not in out:
                out.append(x)
    return out


def ty2_types(quick):
    return ty2(TY2_BASES_Q, ('P', 'PC', 'CP', 'A2', 'F1')) if quick else ty2(TY2_BASES_T, CTORS)


def uses_noproto(t):
    t = M.unq(t)[0]
    if isinstance(t, M.Func):
        return t.params is None or uses_noproto(t.ret)
    if isinstance(t, M.Ptr):
        return uses_noproto(t.to)
    if isinstance(t, M.Arr):
        return uses_noproto(t.of)
    return False


def lvalue_converted(t):
    u = M.unq(t)[0]
    if isinstance(u, M.Arr):
        return M.Ptr(u.of)
    if isinstance(u, M.Func):
        return M.Ptr(u)
    return u


def _ty2_job(args):
    mode, quick, lo, hi, target = args
    types = ty2_types(quick)
    stats = newstats()
    R = Runner(target)
    bad = []
    amb = 0
    items, expect = [], {}
    singles = []
    n = 0
    for i in range(lo, hi):
        a = types[i]
        ua, qa = M.unq(a)
        for j, b in enumerate(types):
            ub, qb = M.unq(b)
            key = '%d_%d' % (i, j)
            want = None
            if mode == 'bcp':
                c11, c23 = M.compatible(ua, ub, False), M.compatible(ua, ub, True)
                text = 'int k%s = __builtin_types_compatible_p(%s, %s);\n' % (key, M.cname(a), M.cname(b))
                want, valid = int(c11), True
            elif mode == 'generic':
                if isinstance(ub, M.Func) or not M.is_complete_object(ub):
                    continue       # not allowed as an association type
                ca = lvalue_converted(a)
                c11, c23 = (not qb and M.compatible(ca, ub, False)), (not qb and M.compatible(ca, ub, True))
                text = 'int k%s = _Generic(*(%s)0, %s: 1, default: 0);\n' % (key, M.cname(M.Ptr(a)), assoc_name(b))
                want, valid = int(c11), True
            elif mode == 'redecl':
                c11, c23 = M.compatible(a, b, False), M.compatible(a, b, True)
                text = 'extern %s; extern %s;\n' % (M.cdecl(a, 'r%s' % key), M.cdecl(b, 'r%s' % key))
                valid = c11
            else:   # pointer assignment  (a *) = (b *): compatible pointees, no qualifier lost (6.5.16.1)
                c11 = M.compatible(ua, ub, False) and set(qb) <= set(qa)
                c23 = M.compatible(ua, ub, True) and set(qb) <= set(qa)
                text = 'extern %s; void g%s(void) { %s = pb%s; }\n' % (M.cdecl(M.Ptr(b), 'pb' + key), key, M.cdecl(M.Ptr(a), 'pa'), key)
                valid = c11
            stats['transitions'] += 1
            if c11 != c23:
                amb += 1        # `T f()` means `T f(void)` for cproc (C23) but not for C11: not judged
                continue
            n += 1
            if valid:
                items.append((key, text))
                expect[key] = want
            else:
                singles.append((key, text))
    data, rej = R.many(items, prelude=TY2_PRE)
    for key, text in items:
        i, j = map(int, key.split('_'))
        if key in rej:
            bad.append((mode, i, j, text, 'valid', rejtext(rej[key])))
        elif expect[key] is not None:
            v = intval(data['$k' + key])
            if v != expect[key]:
                bad.append((mode, i, j, text, expect[key], 'value %d' % v))
    for key, text in singles:
        i, j = map(int, key.split('_'))
        stats['expected_reject'] += 1
        r = R.compile(TY2_PRE + text)
        if r.status != 1:
            bad.append((mode, i, j, text, 'reject', 'accepted' if r.status == 0 else 'status %d' % r.status))
    stats['runs'] = R.runs
    stats['cases'] = n
    return args, stats, bad, amb, len(types)


def ty_class(t):
    u, q = M.unq(t)
    s = 'const-' if q else ''
    if isinstance(u, M.Ptr):
        return s + 'pointer-to-' + ty_class(u.to)
    if isinstance(u, M.Arr):
        return s + ('array' if u.n is not None else 'incomplete-array') + '-of-' + ty_class(u.of)
    if isinstance(u, M.Func):
        return 'function' + ('-noproto' if u.params is None else '-variadic' if u.variadic else '')
    if isinstance(u, M.Enum):
        return s + 'enum'
    if isinstance(u, M.Rec):
        return s + 'struct'
    return s + 'integer'


# ---------------------------------------------------------------------------------------------------------
# workers

def _job(spec):
    stratum, target = spec[0], spec[-1]
    tgt = M.TARGETS[target]
    stats = newstats()
    if stratum == 'triples':
        cases = triple_cases(spec[1], spec[2], tgt)
        # validity of a triple does not depend on the target: the quick tier runs the expected rejections on x86_64 only
        return pack(spec, cases, target, stats, '', spec[3] or target == TARGETS[0])
    elif stratum == 'unary':
        cases = unary_cases(tgt)
    elif stratum == 'lits':
        cases = lit_cases(tgt)
    elif stratum == 'calls':
        pre, cases = call_cases()
        return pack(spec, cases, target, stats, pre)
    else:
        raise ValueError(spec)
    return pack(spec, cases, target, stats)


def _flat_job(spec):
    """strata whose cases are (stratum, cell, declaration text with k%d, expected int, opclass, expr)"""
    stratum, target = spec[0], spec[-1]
    stats = newstats()
    R = Runner(target)
    bad = []
    if stratum == 'members':
        pre, flat = MEMBER_PRE, member_cases()
    elif stratum == 'typeof':
        pre, flat = TYPEOF_PRE, [('typeof', (kw, name, '-'), text, want, kw, name) for kw, name, text, want in typeof_cases()]
    else:
        pre = DECAY_PRE
        flat = []
        for st, cell, text, vt, d in decay_cases(spec[1]):
            if vt is None:
                flat.append((st, cell, None, text, 'decay-invalid', text))
                continue
            flat.append((st, cell, 'int k%%d = _Generic(%s, %s: 1, default: 0);' % (text, M.cname(vt)), 1, 'decay', text))
            if not isinstance(d, M.Func) and M.is_complete_object(d):
                flat.append((st, cell, 'int k%%d = sizeof(%s) == %d;' % (text, M.sizeof(d)), 1, 'decay-sizeof', text))
            if isinstance(d, (M.Arr, M.Func)):
                # typeof does not decay
                flat.append((st, cell, 'int k%%d = __builtin_types_compatible_p(typeof(%s), %s);' % (text, M.cname(d)), 1, 'decay-typeof', text))
    items, singles = [], []
    for n, (st, cell, text, want, oc, e) in enumerate(flat):
        if text is None:
            singles.append((n, 'int k = _Generic(%s, default: 0);\n' % want))
        else:
            items.append((n, text % n + '\n'))
    data, rej = R.many(items, prelude=PRELUDE + pre)
    for n, text in items:
        st, cell, _, want, oc, e = flat[n]
        stats['transitions'] += 1
        if n in rej:
            bad.append((n, rejtext(rej[n])))
        elif intval(data['$k%d' % n]) != want:
            bad.append((n, 'value %d' % intval(data['$k%d' % n])))
    for n, text in singles:
        stats['transitions'] += 1
        stats['expected_reject'] += 1
        r = R.compile(PRELUDE + pre + text)
        if r.status != 1:
            bad.append((n, 'accepted' if r.status == 0 else 'status %d' % r.status))
    recs = []
    for n, obs in bad:
        st, cell, text, want, oc, e = flat[n]
        src = PRELUDE + pre + (text % 0 + '\n' if text is not None else 'int k = _Generic(%s, default: 0);\n' % want)
        r = R.compile(src)      # replay alone
        if text is not None and r.status == 0:
            m = ilparse.parse(r.out)
            if intval(m.data[0]) == want:
                stats['unconfirmed_on_replay'] += 1
                continue
        elif text is None and r.status == 1:
            stats['unconfirmed_on_replay'] += 1
            continue
        key = ('accepts-invalid/%s/%s' if text is None else 'type/%s/%s') % (st, oc) + ('/' + cell[0] if st != 'decay' else '/' + '-'.join(cell[1:]))
        if st == 'typeof' and text is not None and '(+' in text:
            key = PLUS_FAMILY
        if obs.startswith('status '):
            key = 'crash/%s/%s' % (obs.replace(' ', '-'), st)
        recs.append({'stratum': st, 'cell': cell, 'expr': e, 'expected': 'rejection' if text is None else '%s == %d' % (text % 0, want), 'index': None,
                     'observed': obs, 'key': key, 'target': target, 'ext': 'typeof', 'input': src, 'flat': (text % 0 if text else None, want)})
    stats['runs'] = R.runs
    stats['cases'] = len(flat)
    stats['disagreements'] = len(bad)
    cells = {c[1] for c in flat}
    sample = {'stratum': stratum, 'target': target, 'declaration': flat[len(flat) // 2][2] and flat[len(flat) // 2][2] % 0, 'expected_value': flat[len(flat) // 2][3],
              'observed': 'as expected'}
    sanity = [(text % 0, want) for st, cell, text, want, oc, e in flat if text is not None and 'typeof_unqual' not in text and zlib.crc32(text.encode()) % 7 == 0]
    return spec, stats, recs, cells, set(), sanity, sample


# ---------------------------------------------------------------------------------------------------------
# witnesses

def witness_prelude(ext):
    return PRE_BASE + (PRE_EL if 'EL' in ext else '') + (PRE_EF if 'EF' in ext else '')


def _w_lines(args):
    """lines: list of (text, ext).  -> (set of indices some witness does not accept, witnesses used)"""
    target, lines, extra_pre = args
    failing = set()
    ext = ''.join(sorted({e for _, e in lines}))
    pre = witness_prelude(ext) + extra_pre
    src = pre + ''.join(l + '\n' for l, _ in lines)
    first = pre.count('\n') + 1
    runs = []
    if 'EF' not in ext:         # gcc 12 has no enums with fixed underlying type
        runs.append(witness.gcc_accepts(src, std='gnu11', pedantic=False))
    for t in (TARGETS if target is None else (target,)):
        runs.append(witness.clang_accepts(src, target=t, std='gnu11', pedantic=False, extra=('-ferror-limit=0',)))
    for ok, err in runs:
        if ok:
            continue
        n = 0
        for m in re.finditer(r'^[^:\n]*:(\d+):(?:\d+:)? (?:fatal )?error', err.decode(errors='replace'), re.M):
            failing.add(int(m.group(1)) - first)
            n += 1
        if n == 0:
            return set(range(len(lines)))
    return {i for i in failing if i >= 0}


def _w_ty2(args):
    """True iff every witness agrees with R's verdict on a Ty2 judgement"""
    text, want = args
    if want in ('valid', 'reject') or want is None:
        oks = [witness.gcc_accepts(TY2_PRE + text, std='c11', pedantic=True)[0]] + \
            [witness.clang_accepts(TY2_PRE + text, target=t, std='c11', pedantic=True)[0] for t in TARGETS]
        return all(oks) if want == 'valid' else not any(oks)
    line = re.sub(r'^int k\w+ = (.*);\n$', lambda m: '_Static_assert((%s) == %d, "");\n' % (m.group(1), want), text)
    return all([witness.gcc_accepts(TY2_PRE + line, std='gnu11', pedantic=False)[0]] +
               [witness.clang_accepts(TY2_PRE + line, target=t, std='gnu11', pedantic=False)[0] for t in TARGETS])


def _w_rejects(args):
    """True iff every witness rejects the unit (strict C11 when it uses no extension)"""
    target, body, ext, extra_pre = args
    strict = not ext and 'typeof' not in body and '__builtin' not in body
    src = witness_prelude(ext) + extra_pre + body
    res = []
    if 'EF' not in ext:
        res.append(witness.gcc_accepts(src, std='c11' if strict else 'gnu11', pedantic=strict)[0])
    for t in TARGETS:
        res.append(witness.clang_accepts(src, target=t, std='c11' if strict else 'gnu11', pedantic=strict)[0])
    return not any(res)


# ---------------------------------------------------------------------------------------------------------

VP_POINTEES = [('int', 'obj'), ('char', 'obj'), ('struct vps', 'obj'), ('int [2]', 'obj'), ('int *', 'obj'), ('double', 'obj'), ('int (void)', 'func'), ('struct vpinc', 'obj')]
VP_QUALS = ['', 'const', 'volatile', 'const volatile']
VP_PRE = 'struct vps { int m; }; struct vpinc;\n'


def _vp_name(base, q, name):
    """declarator of `name` as pointer to q-qualified base"""
    if base == 'int [2]':
        return '%s int (*%s)[2]' % (q, name)
    if base == 'int (void)':
        return 'int (*%s)(void)' % name
    if base == 'int *':
        return 'int *%s *%s' % (q, name)
    return '%s %s *%s' % (q, base, name)


def void_pointer_assignment(chk):
    """6.5.16.1p1, third bullet: pointer to object type <-> pointer to (qualified) void, the left pointee having all qualifiers of
    the right one; pointers to functions do not convert to void * implicitly.  Every pointee x qualifiers on both sides x direction x
    context (assignment, initialisation, argument, return).  Both witnesses must agree with the rule before a case is judged."""
    srv = fs.server('fs')
    n = namb = 0
    for base, kind in VP_POINTEES:
        for qo in VP_QUALS:
            if kind == 'func' and qo:
                continue
            for qv in VP_QUALS:
                for tovoid in (True, False):
                    lq, rq = (qv, qo) if tovoid else (qo, qv)
                    valid = kind == 'obj' and set(rq.split()) <= set(lq.split())
                    ldecl = _vp_name('void', qv, 'l') if tovoid else _vp_name(base, qo, 'l')
                    rdecl = _vp_name(base, qo, 'r') if tovoid else _vp_name('void', qv, 'r')
                    lparam = ldecl.replace(' l', ' ', 1) if False else ldecl
                    for ctx, text in (('assign', 'void f(void) { %s; %s = 0; l = r; }' % (ldecl, rdecl)),
                                      ('init', 'void f(void) { %s = 0; %s = r; (void)l; }' % (rdecl, ldecl)),
                                      ('arg', 'void g(%s); void f(void) { %s = 0; g(r); }' % (ldecl, rdecl)),
                                      ('return', ('%s { %s = 0; return r; }' % (_vp_name('void', qv, 'f(void)') if tovoid else _vp_name(base, qo, 'f(void)'), rdecl))
                                      if base not in ('int [2]', 'int (void)') or tovoid else None)):
                        if text is None:
                            continue
                        src = VP_PRE + text + '\n'
                        r = srv.compile(src, cpu_s=5)
                        n += 1
                        if (r.status == 0) == valid and r.status in (0, 1):
                            continue
                        g, _ = witness.gcc_accepts(src)
                        c, _ = witness.clang_accepts(src)
                        if g != valid or c != valid:
                            namb += 1
                            continue
                        what = 'void-pointer/%s/%s' % ('rejects-valid' if valid else ('function-pointer-accepted' if kind == 'func' else 'qualifier-discarded-accepted'), ctx)
                        chk.violation(what, '%s: expected %s, cproc status %s' % (text, 'accepted' if valid else 'a diagnostic', r.status), files={'input.c': src.encode()}, cmd='$CPROC_QBE input.c > /dev/null; echo $?')
    return n, namb


def main(chk):
    q = chk.quick
    jobs = []
    names = [k.name for k in KINDS]
    chunks = [names[i:i + 20] for i in range(0, len(names), 20)]
    for target in TARGETS:
        if chk.want('triples'):
            jobs += [('triples', op, ch, not q, target) for op in BINOPS for ch in chunks]
        for st in ('unary', 'lits', 'calls'):
            if chk.want(st):
                jobs.append((st, target))
    flat = []
    for target in TARGETS:
        for st in ('members', 'typeof'):
            if chk.want(st):
                flat.append((st, target))
        if chk.want('decay'):
            flat.append(('decay', 3 if q else 4, target))
    random.Random(chk.seed).shuffle(jobs)
    if not q and not os.environ.get('VERIF_DEADLINE_S'):
        chk.deadline = min(chk.deadline, chk.t0 + 1260)      # leave time for the witnesses inside the 30 minute budget
    chk.log('%d operand kinds, %d + %d jobs' % (len(KINDS), len(jobs), len(flat)))

    strata, cells, types, recs, sanity, fsanity, samples = {}, set(), set(), [], [], [], []
    tot = newstats()
    capped = {}

    def absorb(spec, stats, r, c, ty, s, sample):
        st = strata.setdefault(spec[0], {'cases': 0, 'transitions': 0, 'disagreements': 0, 'expected_reject': 0})
        for k in ('cases', 'transitions', 'disagreements', 'expected_reject'):
            st[k] += stats[k]
        for k in ('cases', 'transitions', 'expected_reject', 'runs', 'unconfirmed_on_replay', 'disagreements'):
            tot[k] += stats[k]
        for k, x in stats['capped'].items():
            capped[k] = capped.get(k, 0) + x
        cells.update(c)
        types.update(ty)
        recs.extend(r)
        if sample and len(samples) < 8 and sample['stratum'] not in {x['stratum'] for x in samples}:
            samples.append(sample)

    for res in fs.pimap(_job, jobs):
        absorb(*res)
        sanity += [(e, t, x, call_cases()[0] if res[0][0] == 'calls' else '') for e, t, x in res[5]]
        if chk.expired():
            break
    for res in fs.pimap(_flat_job, flat):
        absorb(*res)
        fsanity += [(res[0][0], text, want) for text, want in res[5]]
    chk.log('%d cases, %d observations, %d compiler runs, %d disagreements with R' % (tot['cases'], tot['transitions'], tot['runs'], tot['disagreements']))

    # ---- Ty2 -----------------------------------------------------------------------------------------------
    ty2_bad, ty2_amb, ntypes = [], 0, 0
    if chk.want('ty2') and not chk.expired():
        ntypes = len(ty2_types(q))
        step = max(1, ntypes // 24)
        tjobs = []
        for mode, targets in (('bcp', TARGETS), ('generic', TARGETS), ('redecl', TARGETS[:1]), ('assign', TARGETS[:1])):
            for target in targets:
                tjobs += [(mode, q, lo, min(lo + step, ntypes), target) for lo in range(0, ntypes, step)]
        random.Random(chk.seed).shuffle(tjobs)
        chk.log('Ty2: %d types, %d jobs' % (ntypes, len(tjobs)))
        for args, stats, bad, amb, _ in fs.pimap(_ty2_job, tjobs):
            st = strata.setdefault('ty2-' + args[0], {'cases': 0, 'transitions': 0, 'disagreements': 0, 'expected_reject': 0})
            st['cases'] += stats['cases']
            st['transitions'] += stats['transitions']
            st['disagreements'] += len(bad)
            st['expected_reject'] += stats['expected_reject']
            tot['cases'] += stats['cases']
            tot['transitions'] += stats['transitions']
            tot['runs'] += stats['runs']
            tot['expected_reject'] += stats['expected_reject']
            tot['disagreements'] += len(bad)
            ty2_amb += amb
            ty2_bad += [b + (args[4],) for b in bad]
            if chk.expired():
                break
        cells |= {('ty2', m, i) for m in ('bcp', 'generic', 'redecl', 'assign') for i in range(ntypes)}

    # ---- two-witness rule ---------------------------------------------------------------------------------
    ambiguous = 0
    amb_classes = {}

    def amb(key, why, text):
        nonlocal ambiguous
        ambiguous += 1
        k = '%s: %s' % (key, why)
        amb_classes[k] = amb_classes.get(k, 0) + 1
        if amb_classes[k] == 1 and len(chk.notes) < 40:
            chk.notes.append('ambiguous (%s): %s' % (k, text))

    # typed cases: R's type must be confirmed by every witness
    wl, wl_idx = {}, []
    recs.sort(key=lambda r: (r['target'] != TARGETS[0], len(r['expr']), r['expr']))      # the simplest case represents its family
    rej_jobs, rej_recs = [], []
    for r in recs:
        if r['key'].startswith('crash/'):
            report(chk, r)
            continue
        pre = MEMBER_PRE if r['stratum'] == 'members' else DECAY_PRE if r['stratum'] == 'decay' else TYPEOF_PRE if r['stratum'] == 'typeof' else \
            call_cases()[0] if r['stratum'] == 'calls' else ''
        if r.get('flat'):
            text, want = r['flat']
            if text is None:
                rej_jobs.append((None, r['input'][len(PRELUDE):], '', ''))
                rej_recs.append(r)
                continue
            line = re.sub(r'^int k0 = (.*);$', lambda m: '_Static_assert((%s) == %d, "");' % (m.group(1), want), text)
            if 'typeof_unqual(' in text:
                typeof_cases()
                line = UNQUAL_SIBLING.get(text, line)
            ext = ''
        elif r['expected'] is None:
            rej_jobs.append((None, 'int k = _Generic(%s, default: 0);\n' % r['expr'], r['ext'], pre))
            rej_recs.append(r)
            continue
        else:
            line = '_Static_assert(_Generic(%s, %s: 1, default: 0), "");' % (r['expr'], r['expected'])
            ext = r['ext']
        tkey = r['target'] if r['stratum'] == 'lits' else None
        wl.setdefault((tkey, pre), []).append((line, ext))
        wl_idx.append((r, (tkey, pre), len(wl[(tkey, pre)]) - 1))
    wjobs = [(k[0], lines[i:i + 300], k[1], k, i) for k, lines in wl.items() for i in range(0, len(lines), 300)]
    failing = {}
    for (tk, lines, pre, k, base), bad in zip(wjobs, fs.pmap(_w_lines, [j[:3] for j in wjobs]) if wjobs else []):
        failing.setdefault(k, set()).update(base + i for i in bad)
    for r, k, i in wl_idx:
        if i in failing.get(k, ()):
            amb(r['key'], 'a witness does not give the type R assigns', '%s: R %s, cproc %s' % (r['expr'], r['expected'], r['observed']))
        else:
            report(chk, r)
    for r, rejected in zip(rej_recs, fs.pmap(_w_rejects, rej_jobs) if rej_jobs else []):
        if rejected:
            report(chk, r)
        else:
            amb(r['key'], 'a witness accepts what R calls a constraint violation', r['expr'])
    # Ty2 disagreements
    types2 = ty2_types(q) if ty2_bad else []
    tjobs2, trecs, perkey = [], [], {}
    for mode, i, j, text, want, obs, target in ty2_bad:
        a, b = types2[i], types2[j]
        key = 'compat/%s/%s-vs-%s' % (mode, ty_class(a), ty_class(b))
        if obs.startswith('status '):
            key = 'crash/%s/ty2-%s' % (obs.replace(' ', '-'), mode)
        perkey[key] = perkey.get(key, 0) + 1
        if perkey[key] > CAP:
            capped[key] = capped.get(key, 0) + 1
            continue
        tjobs2.append((text, want))
        trecs.append((key, mode, text, want, obs, target))
    for (key, mode, text, want, obs, target), agree in zip(trecs, fs.pmap(_w_ty2, tjobs2) if tjobs2 else []):
        if not agree and not key.startswith('crash/'):
            amb(key, 'the witnesses do not all agree with R', text.strip())
            continue
        chk.violation(key, '%s [%s]: R expects %s, compiler gave %s' % (text.strip(), target, want, obs),
                      files={'input.c': (TY2_PRE + text).encode()}, cmd='$CPROC_QBE -t %s input.c; echo "status=$?"' % target)

    # sanity sample: cases where cproc agreed with R, put to the witnesses as well
    sanity = sorted(set(sanity))[:4000]
    nsanity = len(sanity) + min(1500, len(set(fsanity)))
    groups = {}
    for e, t, x, pre in sanity:
        groups.setdefault(pre, []).append(('_Static_assert(_Generic(%s, %s: 1, default: 0), "");' % (e, t), x))
    for st, text, want in sorted(set(fsanity))[:1500]:
        pre = {'members': MEMBER_PRE, 'typeof': TYPEOF_PRE, 'decay': DECAY_PRE}[st]
        groups.setdefault(pre, []).append((re.sub(r'^int k0 = (.*);$', lambda m: '_Static_assert((%s) == %d, "");' % (m.group(1), want), text), ''))
    sjobs = [(None, lines[i:i + 300], k) for k, lines in groups.items() for i in range(0, len(lines), 300)]
    sdis = 0
    sdis_classes = {}
    for (k, lines, _), bad in zip(sjobs, fs.pmap(_w_lines, sjobs) if sjobs else []):
        sdis += len(bad)
        for i in bad:
            cls = 'bit-field operand' if 'bf.' in lines[i][0] else 'other'
            sdis_classes[cls] = sdis_classes.get(cls, 0) + 1
            if cls == 'other' and len(chk.notes) < 40:
                chk.notes.append('sanity: a witness does not give the type R and cproc agree on: ' + lines[i][0])

    cov = {
        'states': len(cells),
        'transitions': tot['transitions'],
        'traces_validated_against_impl': tot['cases'],
        'evaluations': tot['transitions'],
        'compiler_runs': tot['runs'],
        'distinct_nontrivial': len(types),
        'distinct_result_types': sorted(types),
        'operand_kinds': len(KINDS),
        'ty2_types': ntypes,
        'samples': samples + [{'expression': r['expr'], 'target': r['target'], 'expected': r['expected'] or 'rejection', 'observed': r['observed'], 'key': r['key']} for r in recs[:3]],
        'strata': strata,
        'ambiguous': ambiguous + ty2_amb,
        'ambiguous_classes': amb_classes,
        'ambiguous_unprototyped_function_pairs': ty2_amb,
        'expected_reject': tot['expected_reject'],
        'disagreements_with_R': tot['disagreements'],
        'unconfirmed_on_replay': tot['unconfirmed_on_replay'],
        'same_family_cases_not_individually_consulted': capped,
        'witness_sanity_lines': nsanity,
        'witness_sanity_disagreements': sdis,
        'witness_sanity_disagreement_classes': sdis_classes,
        'rule': 'state = (operator, left operand kind, right operand kind) cell of the typing table (or a type of Ty2 x judgement); transition = one '
                'observation (generic selection index, sizeof, compatibility builtin, accept/reject) of a cell on a target, compared with cmodel',
    }
    nvp, ambvp = void_pointer_assignment(chk)
    cov['void_pointer_assignment_cases'] = nvp
    cov['void_pointer_assignment_not_judged'] = ambvp
    return chk.finish(cov, M.ASSUMPTIONS + [
        'the candidate types of the generic selection are mutually incompatible; an enumerated result type is observed as its underlying type '
        'plus __builtin_types_compatible_p(typeof(E), enum type)',
        '__builtin_types_compatible_p ignores top-level qualifiers (gcc documentation); qualifiers are therefore observed through pointer types',
        'pairs of Ty2 whose compatibility differs between C11 (unprototyped T f()) and C23 (T f(void)) are counted as ambiguous, not judged',
        'gcc gives bit-fields a private type in _Generic; R follows the clang reading; gcc 12 has no fixed-underlying-type enums and neither '
        'witness has typeof_unqual, so those cases rest on R alone unless cproc disagrees with R (then they are ambiguous)',
        'nested expressions beyond one operator and random pairs of derived types are covered by the decay (depth <= 3/4) and Ty2 (constructor depth <= 2) strata only',
        'quick tier: triples R calls invalid are run (one run each) on x86_64 only because their validity does not depend on the target; valid triples are '
        'typed on all three targets; redeclaration and pointer-initialisation judgements of Ty2 run on x86_64; the thorough tier runs the rejections on all targets',
        'u8 character constants and string literals are not judged (char in C11, char8_t in C23 which cproc follows)',
    ])


def report(chk, r):
    chk.violation(r['key'], '%s [%s]: R expects %s, compiler gave %s' % (r['expr'], r['target'], r['expected'] or 'a diagnostic', r['observed']),
                  files={'input.c': r['input'].encode()},
                  cmd='$CPROC_QBE -t %s input.c; echo "status=$? -- expected: %s"' % (r['target'], ('k0 = %s (%s)' % (r['index'], r['expected'])) if r['index'] is not None else (r['expected'] or 'a diagnostic').replace('"', "'")))
