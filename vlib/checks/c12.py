"""C12 — macro definition and expansion follow C11 6.10.3 on the implemented subset.

K3 (bounded-exhaustive enumeration of macro tables x texts / directive histories) against the reference model
`cppref` (Prosser's algorithm with hide sets), GNU cpp as second witness on every disagreement (two-witness rule).

Strata
  M1     one macro `f`: every body of <= L tokens over {f x a b #a ( ) ,} x 6 kinds x every text of <= T tokens
         over {f x ( ) ,}   (in the variadic kinds `b` is spelled __VA_ARGS__)
  M2     two macros f, g (kinds object / (a)): every pair of bodies x every text
  split  every M1/M2 text in which the model examined a function-like macro name, with a newline inserted at
         each token boundary (arguments spanning lines, `(` on the next line)
  M3     curated: C11 6.10.3.5 examples (the parts without ##) and all their one-token perturbations,
         stringification spelling x spacing, __VA_ARGS__ with 0..3 variable arguments, keyword bodies,
         invalid / unusual definitions, directives next to macro names
  M4     every history of <= H events over 13 directive / use events for the name f
  E      the ordinary `-E` text of the same inputs, re-lexed (main.c / tokenprint path)
  D      `int v = TEXT;` compiled with the macros versus compiled fully expanded: IL must be byte-identical
  asan   the curated family through the ASan+UBSan fork-server

Observation: (class, spelling) token list of the fork-server `tokens` mode (keywords count as identifiers),
exit status 1 for rejection.  Accepted cases are batched (cases separated by a marker number and #undef
lines); every case the model rejects, and every case of a batch that does not come out as expected, is run
alone.
"""
import itertools
import re
import subprocess
import zlib

from .. import build, cppref, fs

LEVEL = 'model_checking'

BATCH = 250
KEEP_PER_KEY = 12        # mismatch records kept per family and job (the others are only counted)
MARK = '77%06d77'
_mark_re = re.compile(r'^77(\d{6})77$')
CLS = {'kw': 'ident'}
# after phase 7 an identifier that spells a keyword IS that keyword; the token dump and -E print keywords in one canonical spelling
# (bool for _Bool, inline for __inline__, ...).  Expected and observed token sequences are compared modulo that.
KWCANON = {}
for _g in ({'_Alignas', 'alignas'}, {'_Alignof', 'alignof', '__alignof__'}, {'_Bool', 'bool'}, {'_Static_assert', 'static_assert'},
           {'_Thread_local', 'thread_local'}, {'__asm', '__asm__', 'asm'}, {'__attribute__', '__attribute'}, {'inline', '__inline', '__inline__'},
           {'signed', '__signed', '__signed__'}, {'typeof', '__typeof', '__typeof__'}, {'volatile', '__volatile__'}):
    for _w in _g:
        KWCANON[_w] = sorted(_g, key=lambda w: (w.startswith('_'), len(w), w))[0]


def kwcanon(toks):
    if not isinstance(toks, tuple):
        return toks
    return tuple((c, KWCANON.get(sp, sp)) if c == 'ident' else (c, sp) for c, sp in toks)

# ---------------------------------------------------------------------------
# enumeration spaces

M1_BODY = ('f', 'x', 'a', 'b', '#a', '(', ')', ',')
M1_TEXT = ('f', 'x', '(', ')', ',')
M1_KINDS = (('obj', None), ('()', ()), ('(a)', ('a',)), ('(a,b)', ('a', 'b')), ('(a,...)', ('a', '...')), ('(...)', ('...',)))
M2_KINDS = (('obj', None), ('(a)', ('a',)))


def words(alphabet, maxlen, minlen=0):
    for n in range(minlen, maxlen + 1):
        for w in itertools.product(alphabet, repeat=n):
            yield w


def compact(toks):
    """Source text with white space only where two tokens would otherwise fuse."""
    out = []
    prev = ''
    for t in toks:
        if prev and (prev[-1].isalnum() or prev[-1] == '_') and (t[0].isalnum() or t[0] == '_'):
            out.append(' ')
        out.append(t)
        prev = t
    return ''.join(out)


def defline(name, params, body, variadic_b=False):
    if variadic_b:
        body = tuple('__VA_ARGS__' if t == 'b' else t for t in body)
    head = '#define ' + name + ('' if params is None else '(' + ','.join(params) + ')')
    return head + ' ' + compact(body) + '\n'


# ---------------------------------------------------------------------------
# evaluation of cases in a worker


class Evaluator:
    def __init__(self, do_e=True):
        self.srv = fs.server('fs')
        self.stats = cppref.Stats()
        self.do_e = do_e
        self.batch = []
        self.n = {}            # stratum -> cases evaluated on the implementation
        self.rej = 0
        self.undef = {}
        self.unspec = 0
        self.runs = 0
        self.e_n = 0
        self.distinct = set()
        self.mism = {}         # family -> [records]
        self.over = {}         # family -> count not kept
        self.samples = []
        self.nbatch_fallback = 0
        self.sig = {}

    # -- observations --------------------------------------------------------
    def obs_tokens(self, src):
        self.runs += 1
        r = self.srv.tokens(src.encode('latin-1'), cpu_s=2)
        if r.status == 0:
            try:
                return (0, kwcanon(tuple((CLS.get(t[0], t[0]), t[1].decode('latin-1')) for t in fs.parse_tokens(r.out))), '')
            except ValueError as e:
                return (-1, None, 'unparsable token dump: %s' % e)
        return (r.status, None, r.err.decode(errors='replace')[-1500:])

    def obs_e(self, src):
        self.runs += 1
        r = self.srv.compile(src.encode('latin-1'), pp=True, cpu_s=2)
        if r.status == 0:
            return (0, kwcanon(tuple(cppref.relex(r.out))), r.out.decode('latin-1'))
        return (r.status, None, r.err.decode(errors='replace')[-1500:])

    # -- bookkeeping -----------------------------------------------------------
    def record(self, stratum, mode, src, o, al, obs):
        rec = {'stratum': stratum, 'mode': mode, 'src': src, 'exp': 'reject' if o.status == 'reject' else o.tokens,
               'reason': o.reason, 'alts': [a for a in al if a != 'reject' and a != o.tokens][:4], 'flags': sorted(o.flags),
               'defined': list(o.defined), 'obs_status': obs[0], 'obs': obs[1], 'obs_text': obs[2]}
        key = family(rec)
        if key is None or key == 'E-text/adjacent-tokens-pasted':
            # the -E TEXT of two adjacent tokens may re-lex differently ("-" "-1" printed as "--1"); the token
            # stream itself is right and C11 does not define a textual form, so this is counted, not reported
            self.unsettled = getattr(self, 'unsettled', 0) + 1
            return
        rec['family'] = key
        lst = self.mism.setdefault(key, [])
        if len(lst) < KEEP_PER_KEY:
            lst.append(rec)
        else:
            self.over[key] = self.over.get(key, 0) + 1

    @staticmethod
    def agrees(obs, al):
        if obs[0] == 0:
            return obs[1] in al
        if obs[0] == 1:
            return 'reject' in al
        return False

    def add(self, src, stratum):
        o, al = cppref.allowed(src, self.stats)
        if o.status == 'ok':
            o.tokens = kwcanon(tuple(o.tokens))
        al = [kwcanon(tuple(a)) if a != 'reject' else a for a in al]
        if o.status == 'undefined':
            self.undef[o.reason] = self.undef.get(o.reason, 0) + 1
            return o
        self.n[stratum] = self.n.get(stratum, 0) + 1
        if len(al) > 1:
            self.unspec += 1
        if o.status == 'reject':
            self.rej += 1
            self.solo(src, stratum, o, al)
        else:
            self.distinct.add(hash(o.tokens))
            if self.risky(o):
                self.solo(src, stratum, o, al)
                return o
            self.batch.append((src, stratum, o, al))
            if len(self.batch) >= BATCH:
                self.flush()
        return o

    def solo(self, src, stratum, o, al, modes=('tokens', 'E')):
        ok = True
        if 'tokens' in modes:
            obs = self.obs_tokens(src)
            bad = not self.agrees(obs, al)
            if o.status == 'ok':
                self.note(o, bad)
            if bad:
                self.record(stratum, 'tokens', src, o, al, obs)
                ok = False
            elif len(self.samples) < 3 and (o.status == 'reject' or len(o.tokens) > 3):
                self.samples.append({'stratum': stratum, 'input': src, 'expected': 'reject (%s)' % o.reason if o.status == 'reject' else cppref.render(o.tokens),
                                     'observed': 'status 1: ' + obs[2].strip() if obs[0] else cppref.render(obs[1])})
        if ok and self.do_e and 'E' in modes and not has_other(o) and (
                modes == ('E',) or stratum in ('M3', 'M4') or zlib.crc32(src.encode('latin-1')) & 7 == 0):
            self.e_n += 1
            obs = self.obs_e(src)
            if not self.agrees(obs, al):
                self.record(stratum, 'E', src, o, al, obs)

    def flush(self):
        batch, self.batch = self.batch, []
        self.run_batch(batch)

    @staticmethod
    def batch_text(batch):
        parts = []
        for k, (src, stratum, o, al) in enumerate(batch):
            parts.append(src if src.endswith('\n') else src + '\n')
            parts.append(MARK % k + '\n')
            for nm in o.defined:
                parts.append('#undef %s\n' % nm)
        return ''.join(parts)

    def run_batch(self, batch):
        """Token mode for a list of cases the model accepts; a batch whose markers do not come out is bisected."""
        if len(batch) <= 2:
            for c in batch:
                self.solo(*c)
            return
        text = self.batch_text(batch)
        obs = self.obs_tokens(text)
        segs = split_at_markers(obs[1], len(batch)) if obs[0] == 0 else None
        if segs is None:
            self.nbatch_fallback += 1
            h = len(batch) // 2
            self.run_batch(batch[:h])
            self.run_batch(batch[h:])
            return
        todo_e = []
        for c, seg in zip(batch, segs):
            if seg in c[3]:
                self.note(c[2], False)
                if len(seg) > 3 and not any('expanded' in x for x in self.samples):
                    self.samples.append({'stratum': c[1], 'input': c[0], 'expected': cppref.render(c[2].tokens), 'observed': cppref.render(seg),
                                         'expanded': True})
                if not has_other(c[2]):
                    todo_e.append(c)
            else:
                # confirm alone; a case that only misbehaves in the context of the batch is judged on the batch
                o1 = self.obs_tokens(c[0])
                if self.agrees(o1, c[3]):
                    self.context_case(text, c)
                else:
                    self.note(c[2], True)
                    self.record(c[1], 'tokens', c[0], c[2], c[3], o1)
        if self.do_e:
            self.run_e_batch(todo_e)

    def run_e_batch(self, batch):
        if len(batch) <= 2:
            for c in batch:
                self.solo(*c, modes=('E',))
            return
        obs = self.obs_e(self.batch_text(batch))
        segs = split_at_markers(obs[1], len(batch)) if obs[0] == 0 else None
        if segs is None:
            h = len(batch) // 2
            self.run_e_batch(batch[:h])
            self.run_e_batch(batch[h:])
            return
        for c, seg in zip(batch, segs):
            self.e_n += 1
            if seg not in c[3]:
                o1 = self.obs_e(c[0])
                if not self.agrees(o1, c[3]):
                    self.record(c[1], 'E', c[0], c[2], c[3], o1)

    def note(self, o, bad):
        """Scheduling only: remember which model-flag signatures tend to disagree, to run such cases alone."""
        k = frozenset(o.flags)
        v = self.sig.get(k)
        if v is None:
            v = self.sig[k] = [0, 0]
        v[0] += 1
        v[1] += bad

    def risky(self, o):
        v = self.sig.get(frozenset(o.flags))
        return v is not None and v[1] >= 5 and v[1] * 5 > v[0]

    def context_case(self, text, c):
        o, al = cppref.allowed(text)
        obs = self.obs_tokens(text)
        if o.status != 'undefined' and not self.agrees(obs, al):
            self.record(c[1] + '/batch-context', 'tokens', text, o, al, obs)

    def result(self):
        self.flush()
        return {'n': self.n, 'rej': self.rej, 'undef': self.undef, 'unspec': self.unspec, 'runs': self.runs, 'e_n': self.e_n,
                'distinct': self.distinct, 'mism': self.mism, 'over': self.over, 'samples': self.samples,
                'states': self.stats.states, 'transitions': self.stats.transitions, 'kinds': self.stats.kinds,
                'fallback': self.nbatch_fallback}


def has_other(o):
    return o.tokens is not None and any(t[0] == 'other' for t in o.tokens)


def split_at_markers(toks, n):
    """Token tuples of the n cases of a batch, or None when the markers are not all there in order."""
    if toks is None:
        return None
    segs = []
    cur = []
    for t in toks:
        if t[0] == 'number':
            m = _mark_re.match(t[1])
            if m:
                if int(m.group(1)) != len(segs):
                    return None
                segs.append(tuple(cur))
                cur = []
                continue
        cur.append(t)
    if len(segs) != n or cur:
        return None
    return segs


# ---------------------------------------------------------------------------
# root-cause families

_loc_re = re.compile(r'^[^:\n]*:\d+:\d+: error: ')


def norm_err(err):
    ln = err.strip().splitlines()[-1] if err.strip() else ''
    ln = _loc_re.sub('', ln)
    ln = re.sub(r"'[^']*'", "'_'", ln)
    return re.sub(r'[^A-Za-z0-9_#\']+', '-', ln).strip('-')[:60]


def crash_site(status, err):
    m = re.search(r'ERROR: AddressSanitizer: ([a-z-]+)', err)
    if m:
        # use-after-free: the root cause is named by the function that freed; otherwise by the faulting function
        part = err.split('freed by thread', 1)[1] if 'freed by thread' in err else err
        frames = re.findall(r'#\d+ 0x[0-9a-f]+ in (\w+) \S*/(?:[0-9a-f]{16}/src|harness)/(\w+\.c)', part)
        frames = [f for f in frames if f[1] != 'util.c'] or frames
        return 'asan:%s:%s-%s' % (m.group(1), 'freed-in' if part is not err else 'in', frames[0][0] if frames else '?')
    m = re.search(r'(\w+\.c):(\d+):\d+: runtime error: ([a-z -]+)', err)
    if m:
        return 'ubsan:%s@%s' % (m.group(3).strip().replace(' ', '-')[:40], m.group(1))
    m = re.search(r'Assertion `(.{0,40})', err)
    if m:
        return 'assert:' + re.sub(r'[^A-Za-z0-9_]+', '-', m.group(1))
    if status >= 1000:
        return 'signal-%d' % (status - 1000)
    return 'status-%d' % status


def _minus_paren_groups(full, part):
    """can `part` be obtained from `full` by deleting balanced parenthesised groups?"""
    i = j = 0
    while i < len(full):
        if j < len(part) and full[i] == part[j]:
            i += 1
            j += 1
        elif full[i] == '(':
            d = 0
            while i < len(full):
                d += full[i] == '('
                d -= full[i] == ')'
                i += 1
                if d == 0:
                    break
            else:
                return False
        else:
            return False
    return j == len(part)


def diffsig(exp, got, defined):
    i = 0
    while i < len(exp) and i < len(got) and exp[i] == got[i]:
        i += 1
    e = exp[i] if i < len(exp) else None
    g = got[i] if i < len(got) else None
    if g is not None and g[0] == 'ident' and g[1] in defined:
        return 'macro-name-left-unexpanded'
    if e is not None and e[0] == 'ident' and e[1] in defined:
        return 'hidden-or-uninvoked-macro-name-replaced'
    if e is not None and g is not None and e[0] == 'string' and g[0] == 'string':
        ei, gi = e[1][1:-1], g[1][1:-1]
        if gi != ei and gi.rstrip(' ') == ei:
            return 'stringification-extra-trailing-space'
        if gi != ei and gi.lstrip(' ') == ei:
            return 'stringification-extra-leading-space'
        if ei.replace(' ', '') == gi.replace(' ', ''):
            return 'stringification-inner-white-space'
        en, gn = ei.replace(' ', ''), gi.replace(' ', '')
        if en != gn and _minus_paren_groups(en, gn):
            # parenthesised groups are missing from the string: the argument lists of invocations inside the argument
            return 'stringification-loses-argument-list-of-invocation-inside-argument'
        if gn.startswith(en) or len(gn) > len(en):
            return 'stringification-has-extra-tokens'
        return 'stringification-spelling'
    if e is None:
        return 'extra-tokens'
    if g is None:
        return 'missing-tokens'
    return 'different-token'


def asan_probe(rec):
    """Crash-site class the sanitized build reports for the case, or None."""
    try:
        srv = fs.server('fs-asan')
        src = rec['src'].encode('latin-1')
        r = srv.compile(src, pp=True, cpu_s=5) if rec['mode'] == 'E' else srv.tokens(src, cpu_s=5)
    except Exception:
        return None
    if r.status in (0, 1):
        return None
    return crash_site(r.status, r.err.decode(errors='replace')[:8000])


def family(rec):
    st = rec['obs_status']
    mode = rec['mode']
    if st not in (0, 1):
        return 'crash/' + (asan_probe(rec) or crash_site(st, rec['obs_text']))
    if 'funclike-name-then-directive' in rec['flags']:
        # a directive printed as text is the defect; whether a directive between the name and '(' prevents the
        # invocation is not settled by C11 (gcc and clang say it does, cproc treats the directive as transparent)
        if rec['obs'] and any(sp == '#' for _, sp in rec['obs']):
            return 'directive-not-recognised-after-funclike-name-at-end-of-line'
        return None
    if mode == 'tokens' and st == 0:
        o2 = cppref.run(rec['src'], stale_paint=True)
        if o2.status == 'ok' and kwcanon(tuple(o2.tokens)) == rec['obs']:
            return 'wrong-expansion/hide-flag-painted-on-stored-body-tokens'
    if rec['exp'] == 'reject' and rec['reason'] == 'unterminated-args' and 'unspecified-nesting' in rec['flags'] and st == 0:
        # an invocation that starts inside a (pre-expanded) argument and is completed by tokens after it: cpp refuses it
        # (6.10.3.1: no other tokens are available), cproc completes it; the standard leaves such nesting unspecified (6.10.3.4p4)
        return None
    if rec['exp'] == 'reject' and rec['reason'] == 'unterminated-args' and 'unterminated-inside-argument' in rec['flags'] and st == 0:
        # no unspecified nesting involved: 6.10.3.1p1 makes the argument the whole remaining file for its own replacement
        return 'accept-invalid/invocation-inside-argument-completed-by-tokens-after-the-argument'
    if rec['exp'] == 'reject':
        return 'accept-invalid/' + rec['reason']
    if st == 1:
        return 'reject-valid/' + norm_err(rec['obs_text']) + ('/arguments-span-lines' if 'args-span-lines' in rec['flags'] else '')
    exp, got = rec['exp'], rec['obs']
    if mode == 'E':
        if ''.join(t[1] for t in exp) == ''.join(t[1] for t in got):
            return 'E-text/adjacent-tokens-pasted'
        return 'E-text/' + diffsig(exp, got, rec['defined'])
    sig = diffsig(exp, got, rec['defined'])
    if sig == 'stringification-loses-argument-list-of-invocation-inside-argument':
        return 'wrong-expansion/' + sig
    if 'uninvoked-funclike-name-followed-by-funclike-name' in rec['flags']:
        return 'wrong-expansion/funclike-name-directly-after-uninvoked-funclike-name'
    site = asan_probe(rec)
    if site:
        return 'crash/' + site      # the wrong output is what a memory error looks like in the plain build
    if 'keyword-body-expanded-twice' in rec['flags']:
        return 'wrong-expansion/second-expansion-of-macro-whose-body-contains-a-keyword'
    if sig == 'stringification-loses-argument-list-of-invocation-inside-argument':
        return 'wrong-expansion/' + sig
    if sig == 'stringification-loses-argument-list-of-invocation-inside-argument':
        return 'wrong-expansion/' + sig
    if 'funclike-name-ends-replacement-list' in rec['flags']:
        return 'wrong-expansion/funclike-name-ending-a-replacement-list'
    extra = ''
    if 'args-span-lines' in rec['flags'] and sig.startswith('stringification'):
        extra = '/argument-spans-lines'
    return 'wrong-expansion/' + sig + extra


# ---------------------------------------------------------------------------
# jobs

TEXTS = {}   # (alphabet, maxlen) -> list of token tuples; filled before the pool forks


def texts_for(alpha, maxlen):
    k = (alpha, maxlen)
    if k not in TEXTS:
        TEXTS[k] = list(words(alpha, maxlen, 1))
    return TEXTS[k]


def run_table(ev, stratum, defs, texts, split, split_maxlen):
    """All texts against one macro table (defs = source of the #define lines)."""
    d = cppref.run(defs)
    if d.status != 'ok':
        ev.add(defs + 'f\n', stratum)   # the definitions themselves are invalid: one case
        return
    for w in texts:
        o = ev.add(defs + compact(w) + '\n', stratum)
        if split and len(w) > 1 and len(w) <= split_maxlen and 'funclike-examined' in o.flags:
            for k in range(1, len(w)):
                ev.add(defs + compact(w[:k]) + '\n' + compact(w[k:]) + '\n', 'split')


def _job(job):
    kind = job[0]
    ev = Evaluator()
    if kind == 'M1':
        _, tables, tkey, split_maxlen = job
        texts = TEXTS[tkey]
        for (kname, params), body in tables:
            defs = defline('f', params, body, variadic_b=params is not None and '...' in params)
            run_table(ev, 'M1', defs, texts, True, split_maxlen)
    elif kind == 'M2':
        _, tables, tkey, split_maxlen = job
        texts = TEXTS[tkey]
        for (fk, fb), (gk, gb) in tables:
            defs = defline('f', fk[1], fb) + defline('g', gk[1], gb)
            run_table(ev, 'M2', defs, texts, True, split_maxlen)
    elif kind == 'SRC':
        _, stratum, srcs = job
        for s in srcs:
            ev.add(s, stratum)
    res = ev.result()
    res['job'] = (kind, len(job[1]) if kind != 'SRC' else len(job[2]))
    return res


def chunks(lst, n):
    for i in range(0, len(lst), n):
        yield lst[i:i + n]


# ---------------------------------------------------------------------------
# M3 curated family

EX3_DEFS = '''#define x 3
#define f(a) f(x * (a))
#undef x
#define x 2
#define g f
#define z z[0]
#define h g(~
#define m(a) a(w)
#define w 0,1
#define t(a) a
#define p() int
#define q(x) x
#define str(x) # x
'''
EX3_TEXT = '''f(y+1) + f(f(z)) % t(t(g)(0) + t)(1);
g(x+(3,4)-w) | h 5) & m
(f)^m(m);
p() i[q()] = { q(1), q(2) };
char c[2][6] = { str(hello), str() };
'''
EX4_DEFS = '''#define str(s) # s
#define xstr(s) str(s)
#define INC(n) vers n
'''
EX4_TEXT = '''str(strncmp("abc\\0d", "abc", '\\4') == 0) str(: @)
xstr(INC(2).h) str( "a\\"b" 'q' L"w" )
'''
EX7_DEFS = '''#define debug(...) fprintf(stderr, __VA_ARGS__)
#define showlist(...) puts(#__VA_ARGS__)
#define report(test, ...) ((test)?puts(#test): printf(__VA_ARGS__))
'''
EX7_TEXT = '''debug("Flag");
debug("X = %d\\n", x);
showlist(The first, second, and third items.);
report(x>y, "x is %d but y is %d", x, y);
'''
EX6 = [  # redefinition rules, 6.10.3.5 EXAMPLE 6
    '#define OBJ_LIKE (1-1)\n#define OBJ_LIKE /* white space */ (1-1) /* other */\nOBJ_LIKE\n',
    '#define FUNC_LIKE(a) ( a )\n#define FUNC_LIKE( a )( /* note the white space */ \\\n a /* other stuff on this line\n */ )\nFUNC_LIKE(1)\n',
    '#define OBJ_LIKE (1-1)\n#define OBJ_LIKE (0)\n',
    '#define OBJ_LIKE (1-1)\n#define OBJ_LIKE (1 - 1)\n',
    '#define FUNC_LIKE(a) ( a )\n#define FUNC_LIKE(b) ( a )\n',
    '#define FUNC_LIKE(a) ( a )\n#define FUNC_LIKE(b) ( b )\n',
]


def unlex(toks):
    out = []
    for t in toks:
        if t[1] == 'nl':
            out.append('\n')
        else:
            out.append((' ' if t[2] else '') + t[0])
    return ''.join(out)


def perturbations(defs, text):
    toks = cppref.lex(text)
    yield defs + text
    for i, t in enumerate(toks):
        if t[1] == 'nl':
            continue
        yield defs + unlex(toks[:i] + toks[i + 1:])                      # delete
        yield defs + unlex(toks[:i] + [t, (t[0], t[1], True) + t[3:]] + toks[i + 1:])   # duplicate
        for p in ('(', ')', ','):
            if t[0] != p:
                yield defs + unlex(toks[:i] + [(p, 'punct', t[2], t[3], None)] + toks[i + 1:])   # replace
            yield defs + unlex(toks[:i] + [(p, 'punct', t[2], t[3], None), (t[0], t[1], False) + t[3:]] + toks[i + 1:])  # insert


STR_ARGS = ('x', '"s"', "'c'", '"\\n"', 'a  +  b', '@', '')
STR_SP = ('', ' ', '  ', '\t', '\n', '/**/', ' /* c */ ')
STR_FORMS = ('#define s(a) #a\n', '#define s(a) # a\n', '#define s(a) x #a x\n', '#define s(...) #__VA_ARGS__\n',
             '#define s(a) #a\n#define xs(a) s(a)\n', '#define s(a) #a a\n')


def m3_stringify(full):
    for form in STR_FORMS:
        name = 'xs' if 'xs' in form else 's'
        for a in STR_ARGS:
            for l in STR_SP:
                for r in STR_SP:
                    yield form + '%s(%s%s%s)\n' % (name, l, a, r)
    forms2 = ('#define s(...) #__VA_ARGS__\n', '#define s(a,b) #b #a\n', '#define s(a,...) #__VA_ARGS__ #a\n')
    sp2 = STR_SP if full else ('', ' ', '\n', '/**/')
    for form in forms2:
        for a in STR_ARGS:
            for b in STR_ARGS:
                for l in sp2:
                    for r in sp2:
                        yield form + 's(%s%s,%s%s)\n' % (a, l, r, b)


VA_FORMS = (('#define v(...) [__VA_ARGS__]\n', 0), ('#define v(a,...) [a|__VA_ARGS__]\n', 1), ('#define v(a,...) a(__VA_ARGS__)\n', 1),
            ('#define v(...) #__VA_ARGS__\n', 0), ('#define w(...) <__VA_ARGS__>\n#define v(a,...) w(__VA_ARGS__,a)\n', 1),
            ('#define v(a,b,...) b __VA_ARGS__ a\n', 2), ('#define v(...) v(__VA_ARGS__)\n', 0), ('#define v(a,...) #a #__VA_ARGS__\n', 1))
VA_ARGS = ('x', '(x)', '(x,y)', '((,))', '', 'v(x)', 'w')


def m3_variadic():
    for form, named in VA_FORMS:
        for k in range(0, 4):
            for args in itertools.product(VA_ARGS, repeat=named + k):
                yield form + 'v(%s)\n' % ','.join(args)
        yield form + 'v\n'
        yield form + 'v(\n'
        yield form + 'v(()\n'
        yield form + 'v)\n'


KEYWORD_CASES = [
    '#define X int\nX X\n', '#define X int\nX y; X z;\n', '#define T unsigned long\nT T\nT\n', '#define R(a) return a\nR(1); R(2);\n',
    '#define W while\nW W W\n', '#define X int\n#define Y X\nY Y X\n', '#define S(a) sizeof(a)\nS(int) S(int)\n',
    '#define X int\nX\n', '#define I(a) a\nI(int) I(int)\n', '#define X char\nX X\n',
]

# a keyword spelling in a replacement list stays an identifier token of the preprocessor: after the macro has been expanded once
# (in phase 7 the token became a keyword), a stringification through a nested macro still spells it as written, an identical
# redefinition is still identical, and a later macro of that name still replaces it
_KW_SPELLINGS = ('_Bool', 'bool', '__inline__', 'inline', '_Alignas', 'alignas', '__typeof__', 'typeof', '_Static_assert', 'static_assert', '__volatile__', 'volatile',
                 '__signed__', 'signed', '_Thread_local', 'thread_local', '__asm__', 'int', 'while', 'sizeof', 'return', '_Generic', '__attribute__', 'unsigned', 'struct')
for _kw in _KW_SPELLINGS:
    _h = '#define S(x) #x\n#define XS(x) S(x)\n'
    KEYWORD_CASES.append(_h + '#define T %s\nT\nXS(T) XS(T z)\n' % _kw)
    KEYWORD_CASES.append(_h + '#define T %s\nT\n#define T %s\nXS(T)\nT\n' % (_kw, _kw))
    KEYWORD_CASES.append(_h + '#define T x %s\nT\n#define %s y\nT XS(T)\n' % (_kw, _kw))
    KEYWORD_CASES.append(_h + '#define F(a) a %s\nF(1) F(%s)\nXS(F(2)) XS(F(%s))\n#define F(a) a %s\nF(3)\n' % (_kw, _kw, _kw, _kw))

DEFINITION_CASES = [
    # invalid definitions / directives: must be rejected
    '#define f(a,a) a\n', '#define f(a\n', '#define f(a b) a\n', '#define f(1) a\n', '#define\n', '#define 1\n', '#define f(...,a) a\n',
    '#define f(a,) a\n', '#define f(,a) a\n', '#define f(a,...,b) a\n', '#define defined 1\n', '#define __VA_ARGS__ 1\n',
    '#define f(__VA_ARGS__) 1\n', '#define f(a) __VA_ARGS__\n', '#define f __VA_ARGS__\n', '#define f(a) #x\n', '#define f(a) #\n',
    '#define f(a) # 1\n', '#define f(...) #a\n', '#define f() #a\n', '#define f+x\n', '#define f"s"\n', '#undef\n', '#undef 1\n', '#undef f x\n',
    '#define f(a) a ## a\n', '#define f a ## b\n', '#define f ##\n', '#define f(a) ##a\n', '#if 1\n#endif\n', '#ifdef f\n#endif\n', '#ifndef f\n#endif\n',
    '#else\n', '#elif 1\n', '#endif\n', '#include "x.h"\n', '#include <x.h>\n', '#error x\n', '#foo\n', '#define f(a) a\nf(\n', '#define f(a) a\nf(x\n',
    '#define f(a) a\nf((x)\n', '#define f(a) a\n#define g f(\ng\n', '#define f(a,b) a\nf(x)\n', '#define f(a,b) a\nf(x,x,x)\n', '#define f() a\nf(x)\n',
    '#define f() a\nf(,)\n', '#define f(a) a\nf(,)\n', '#define f(a) a\nf(x,)\n', '#define f(a,b) a\nf(x,x,)\n', '#define f(a,...) a\nf(x)\n', '#define f(a,...) a\nf()\n',
    '#define f(a) a\nf(x,x)\n', '#define f(a) a\n#define f(a) a \n#define f(b) b\n', '#define f a+b\n#define f a + b\n', '#define f a + b\n#define f a+b\n',
    '#define f a +b\n#define f a+ b\n', '#define f(a) a+a\n#define f(a) a +a\n', '#define f x\n#define f() x\n', '#define f() x\n#define f x\n',
    '#define f(a) x\n#define f(a,b) x\n', '#define f(a) x\n#define f(...) x\n', '#define f(a,...) x\n#define f(a) x\n', '#define f x\n#define f y\n',
    '#define f x\n#define f x x\n', '#define f x\n#define f\n', '#define f\n#define f x\n', '#define f "a"\n#define f "b"\n', '#define f 1\n#define f 01\n',
    '#define f(a) #a\n#define f(a) a\n', '#define f(a) #a\n#define f(a) # a\n',
    # valid: accepted with a definite result
    '#define f x\n#define f x\nf\n', '#define f  a  +  b \n#define f a + b\nf\n', '#define f a\t+\tb\n#define f a /**/ + /**/ b\nf\n',
    '#define f(a) a\n#define f( a ) a\nf(1)\n', '#define f(a,b) a b\n#define f(a , b) a b\nf(1,2)\n', '#define f(...) __VA_ARGS__\n#define f( ... ) __VA_ARGS__\nf(1,2)\n',
    '#define f x\n#undef f\n#define f y\nf\n', '#undef f\nf\n', '#define f x\n#undef f\n#undef f\nf\n', '#define f(a) a\n#undef f\n#define f x\nf(1)\n',
    '#define f (a) a\nf(1)\n', '#define f() x\nf() f( ) f(\n)\n', '#define f(a) [a]\nf() f( ) f(()) f((,)) f((x)(y))\n', '#define f(a,b) [a|b]\nf(,) f(x,) f(,x) f((,),(,))\n',
    '#define f #a\nf\n', '#define f # x\nf\n', '#define f #\nf\n', '#define f # #\nf\n', '#define EMPTY\nEMPTY # define X 1\nX\n', '#define H #\nH define X 1\nX\n',
    '#define f(a) a\n#\nf(1)\n', '#define f(a) a\n # \nf(1)\n', '  #  define   f(a)   a\nf(1)\n', '#define f(a) a\n#pragma once\nf(1)\n', '#define f(a) a\n#line 7\nf(1)\n',
    '#define f(a) a*g\n#define g(a) f(a)\nf(2)(9)\n', '#define f(a) g\n#define g(a) f\nf(1)(2)(3)(4)\n', '#define f f\nf\n', '#define f g\n#define g f\nf g\n',
    '#define f(a) a\nf(f)(1)\n', '#define f(a) a\nf(f(f(1)))\n', '#define f(a) a a\nf(f(1))\n', '#define g f\n#define f(a) a\ng(1) g (2) g\n(3)\n',
    '#define f(a) #a\nf("\\\\") f(\'\\\\\') f("\\"") f(\'"\') f(\'\\\'\')\n', '#define f(a) a\n#define g f\n#define h g(\nh 1) h 2)\n',
    '#define AA BB\n#define BB AA\nAA BB\n', '#define AA BB\n#define BB CC\n#define CC AA\nAA BB CC AA\n', '#define f(a) a+1\n-f(-1) f(+)+ f(x)x\n',
    '#define f(a) (a)\n#define g(a) f(a)f(a)\ng(g(1))\n', '#define t(a) a\n#define f(a) [a]\nt(f) x\n', '#define t(a) a\n#define f(a) [a]\nt(f)(0)\n',
    '#define t(a) a\n#define f(a) [a]\nt(t(f) )(0) t(f)\n', '#define w 0,1\n#define f(a) [a]\n#define h f(\nh w) h (w)) h 1 w)\n',
    '#define r )\n#define f(a) [a]\n#define h f(\nh (r) h (1)r\n', '#define f() x\nf()f() f()\n', '#define f(a) [a]\nf(((,))) f((()())) f(()())\n', '#define t(a,b) b a\n#define f(a) [a]\nt(1,2 f) (3)\n', '#define f(a,b) b a\nf(f(1,2),f(3,4))\n', '#define c(a,b) a b\n#define l (\n#define r )\nc l 1,2 r\n',
]

DIRECTIVE_ADJACENT = [
    '#define f(a) [a]\nf\n#define g 1\ng\n', '#define f(a) [a]\nf\n#undef f\nf(1)\n', '#define f(a) [a]\nf\n#\n(1)\n', '#define f(a) [a]\nf\n\n#define g 1\ng f(g)\n',
    '#define f(a) [a]\n#define h f\nh\n#define g 1\ng\n', '#define f(a) [a]\nf\n#pragma x\nf(1)\n', '#define f(a) [a]\nf\n#define g 1\n(2) g\n',
    '#define f(a) [a]\nf /* c */\n#define g 1\ng\n', '#define f() 1\nf\n#undef f\nf()\n', '#define f(a) [a]\nx f\n  #  define g 1\ng\n',
    '#define f(a) [a]\nf\n#define f(a) [a]\nf(1)\n', '#define f(a) [a]\nf\n#define f(a) (a)\n',
]


REDEF_FORMS = ('f x', 'f  x ', 'f y', 'f x x', 'f', 'f() x', 'f(a) x', 'f(b) x', 'f( a ) x', 'f(a) a', 'f(b) b', 'f(a,b) x', 'f(b,a) x',
               'f(...) x', 'f(a,...) x', 'f(a) a+x', 'f(a) a + x', 'f(a) a  +  x', 'f(a) #a', 'f(a) # a', 'f (a) x')


def m3_redefinitions():
    """Every ordered pair of definitions of f (6.10.3p2), followed by a use."""
    for d1 in REDEF_FORMS:
        for d2 in REDEF_FORMS:
            yield '#define %s\n#define %s\nf\n' % (d1, d2)


def m3_stringify_and_plain():
    """a parameter used both with # and as ordinary tokens, applied to arguments that contain macro names:
    the string must spell the argument as written, the plain use must be its full expansion"""
    bodies = ('#a a', 'a #a', '#a , a', '[ a ] #a', '#a #a a', 'a a #a')
    gdefs = ('#define g x\n', '#define g(b) [b]\n', '#define g f\n', '#define g() y\n')
    for body in bodies:
        for gd in gdefs:
            for n in range(1, 5):
                for w in itertools.product(('g', 'x', '(', ')', ','), repeat=n):
                    # balanced, no top-level comma: a single argument
                    depth, ok = 0, True
                    for t in w:
                        if t == '(':
                            depth += 1
                        elif t == ')':
                            depth -= 1
                            if depth < 0:
                                ok = False
                                break
                        elif t == ',' and depth == 0:
                            ok = False
                            break
                    if not ok or depth != 0:
                        continue
                    yield '#define f(a) %s\n%sf(%s)\n' % (body, gd, ' '.join(w))


def m3_parameter_names():
    """parameter names that are prefixes of each other and body identifiers that are prefixes or extensions of parameter names:
    a body identifier is a parameter only if the whole spelling is equal"""
    names = ('a', 'ab', 'abc', 'b', 'ba', '_a', 'a1')
    for p1 in names:
        for p2 in names:
            if p1 == p2:
                continue
            for n in (1, 2, 3):
                for body in itertools.product(names[:5], repeat=n):
                    if n == 3 and body[0] not in (p1, p2):
                        continue
                    yield '#define f(%s, %s) [%s]\nf(1, 2)\n' % (p1, p2, ' '.join(body))
            for x in names[:5]:
                yield '#define f(%s, %s) #%s\nf(1, 2)\n' % (p1, p2, x)       # # must be followed by a parameter: else the definition is refused
        for n in (1, 2):
            for body in itertools.product(names, repeat=n):
                yield '#define f(%s) <%s>\nf(7)\n' % (p1, ' '.join(body))
        yield '#define f(%s, ...) __VA_ARGS__ | %s | %s\nf(1, 2, 3)\n' % (p1, p1, p1[:1])
    for v in ('__VA_ARGS', '__VA_ARGS___', '_VA_ARGS__', '__VA_ARGS__x', '__va_args__'):
        yield '#define f(a, ...) [%s]\nf(1, 2)\n' % v


def m3_opened_by_other_macro():
    """an invocation whose '(' (and first tokens) come from another macro's replacement list that ends before the
    invocation does; the rest of the argument list contains macros whose expansion has commas, parentheses or is empty"""
    defs = ('#define W 0,1\n#define E\n#define P (2)\n#define Q )\n'
            '#define f(a, ...) <a|__VA_ARGS__>\n#define f1(a) [a]\n#define s(a, ...) #a a __VA_ARGS__\n#define f2(a, b) {a;b}\n')
    openers = ('#define H f(x\n', '#define H f1(~\n', '#define H s(p\n', '#define H f2(\n', '#define H f1\n', '#define H f(\n', '#define H f2(y,\n')
    toks = ('W', 'E', 'P', 'x', ',', ')', 'H')
    for op in openers:
        for n in range(1, 5):
            for w in itertools.product(toks, repeat=n):
                if ')' not in w and 'Q' not in w:
                    continue
                yield defs + op + 'H ' + ' '.join(w) + '\n'


def m3_unbalanced_expansions(full):
    """object-like macros whose replacement list is an unbalanced parenthesis or a comma, used inside the arguments of
    function-like macros: only the parentheses and commas WRITTEN in the invocation delimit its arguments (6.10.3p11);
    those an argument's pre-expansion produces do not (seeded round 8: the nesting counter fed with expanded tokens)"""
    defs = ('#define LP (\n#define RP )\n#define CM ,\n#define g(b) [b]\n'
            '#define id(x) x\n#define two(x, y) <x|y>\n#define sel(x, y) y\n#define sp(x) x #x\n#define va(...) {__VA_ARGS__}\n')
    toks = ('LP', 'RP', 'CM', '1', ',', '(', ')', 'g')
    outers = (('id(%s)', 0), ('two(%s)', 1), ('sel(%s)', 1), ('id(id(%s))', 0), ('sp(%s)', 0), ('va(%s)', None), ('id(two(%s))', 1), ('two(id(%s), 2)', 0))
    for n in range(1, 5 if full else 4):
        for w in itertools.product(toks if full or n < 3 else toks[:7], repeat=n):
            depth, commas, ok = 0, 0, True
            for t in w:
                if t == '(':
                    depth += 1
                elif t == ')':
                    depth -= 1
                    if depth < 0:
                        ok = False
                        break
                elif t == ',' and depth == 0:
                    commas += 1
            if not ok or depth != 0 or not any(t in ('LP', 'RP', 'CM') for t in w):
                continue
            for o, need in outers:
                if need is not None and commas != need:
                    continue
                for suffix in ('', ' ) + id(2))', ' RP ;', ' (3)'):
                    yield defs + o % ' '.join(w) + suffix + '\n'


def m3_deep_chains(full):
    """chains of macros of every length 1..N (seeded round 8: the frame array grows when the 11th, 22nd, 43rd frame is
    live; the parameter frame was stepped through a pointer into the old array): function-like macros forwarding their
    parameter, two-parameter chains, object-like chains, mixed chains, nested invocations and a chain inside a chain"""
    N = 90 if full else 48
    for n in range(1, N):
        f = '#define F0(x) x\n' + ''.join('#define F%d(x) F%d(x)\n' % (k, k - 1) for k in range(1, n + 1))
        yield f + 'F%d(1) F%d(a b) F%d()\n' % (n, n, n)
        yield f + 'F%d(F%d(2)) F%d(F%d)(3)\n' % (n, n, n, max(n // 2, 1))
        l = '#define L0(p, q) ((p) + (q))\n' + ''.join('#define L%d(p, q) L%d(p, q)\n' % (k, k - 1) for k in range(1, n + 1))
        yield l + 'L%d(p, 7) L%d(, ) L%d((a, b), c)\n' % (n, n, n)
        o = '#define O0 1\n' + ''.join('#define O%d O%d\n' % (k, k - 1) for k in range(1, n + 1))
        yield o + 'O%d + O%d\n' % (n, n)
        m = '#define M0(x) [x]\n' + o + ''.join('#define M%d(x) O%d M%d(x)\n' % (k, k % 3, k - 1) for k in range(1, n + 1))
        yield m + 'M%d(O%d) M%d(M1(z))\n' % (n, n, n)
        yield '#define id(x) x\n#define g(x) <x>\n' + 'id(' * n + 'g(1)' + ')' * n + ' ' + 'g(' * n + 'id(2)' + ')' * n + '\n'
        v = '#define V0(...) {__VA_ARGS__}\n' + ''.join('#define V%d(a, ...) V%d(__VA_ARGS__, a)\n' % (k, k - 1) for k in range(1, n + 1))
        yield v + 'V%d(1, 2, 3)\n' % n
        s2 = '#define S0(x) #x x\n' + ''.join('#define S%d(x) S%d(x)\n' % (k, k - 1) for k in range(1, n + 1))
        yield s2 + 'S%d(O) S%d(S0(q))\n' % (n, n)


def m3_sources(full):
    out = []
    out.extend(m3_stringify_and_plain())
    out.extend(m3_parameter_names())
    out.extend(m3_opened_by_other_macro())
    out.extend(m3_unbalanced_expansions(full))
    out.extend(m3_deep_chains(full))
    for defs, text in ((EX3_DEFS, EX3_TEXT), (EX4_DEFS, EX4_TEXT), (EX7_DEFS, EX7_TEXT)):
        out.extend(perturbations(defs, text))
    out.extend(EX6)
    out.extend(m3_stringify(full))
    out.extend(m3_variadic())
    out.extend(m3_redefinitions())
    out.extend(KEYWORD_CASES)
    out.extend(DEFINITION_CASES)
    out.extend(DIRECTIVE_ADJACENT)
    return out


# ---------------------------------------------------------------------------
# M4 directive histories

M4_EVENTS = (
    '#define f x\n', '#define f g\n', '#define f(a) a\n', '#define f(a) a+x\n',
    '#define  f  x /**/\n',            # identical to the first with other white space
    '#define f( a )  a\n',             # identical to the third
    '#define f(a) a + x\n',            # differs from the fourth in white-space separation only
    '#define f(b) b\n',                # differs from the third in the parameter name only
    '#define f (a) a\n',               # object-like
    '#undef f\n', 'f\n', 'f(x)\n', 'f f(f)\n',
)


def m4_sources(maxlen):
    for w in words(M4_EVENTS, maxlen, 1):
        yield ''.join(w)


# ---------------------------------------------------------------------------
# D: compile path


D_PROLOGUE = 'int x, a, b, y; int f(), g();\n'


def _d_job(cases):
    """cases: (defs, text, expanded-text).  `int v = TEXT;` compiled with the macros must behave like the same program
    with the expanded text: same IL bytes if that is valid, rejected if that is rejected."""
    srv = fs.server('fs')
    res = {'n': 0, 'valid': 0, 'mism': [], 'runs': 0, 'pp_disagrees': 0}
    ref = {}
    for defs, text, exp in cases:
        v = ref.get(exp)
        if v is None:
            r = srv.compile((D_PROLOGUE + 'int h(void) { int v = %s; return v; }\n' % exp).encode('latin-1'), cpu_s=2)
            res['runs'] += 1
            v = ref[exp] = (r.status, r.out)
        res['n'] += 1
        if v[0] not in (0, 1):
            continue   # the expanded program itself crashes the compiler: not a macro matter (C19)
        res['valid'] += v[0] == 0
        src = D_PROLOGUE + defs + 'int h(void) { int v = %s; return v; }\n' % text
        r = srv.compile(src.encode('latin-1'), cpu_s=2)
        res['runs'] += 1
        if r.status == v[0] and (r.status == 1 or r.out == v[1]):
            continue
        # a preprocessor disagreement already visible in tokens mode is reported by the M strata under its own family
        t = srv.tokens((defs + text + '\n').encode('latin-1'), cpu_s=2)
        res['runs'] += 1
        want = tuple(cppref.relex(exp))
        got = tuple((CLS.get(k[0], k[0]), k[1].decode('latin-1')) for k in fs.parse_tokens(t.out)) if t.status == 0 else None
        if got != want:
            res['pp_disagrees'] += 1
            continue
        res['mism'].append({'src': src, 'expanded': exp, 'status': r.status, 'err': r.err.decode(errors='replace')[-500:],
                            'il': r.out.decode('latin-1')[-600:], 'il_expected': v[1].decode('latin-1')[-600:], 'want_status': v[0]})
    return res


def d_cases(chk):
    """A fixed sub-space: M1-shaped tables with bodies <= 2 and texts <= 3 whose expansion the model accepts."""
    body_alpha = ('f', 'x', 'a', '(', ')', '+')
    cases = []
    nst = cppref.Stats()
    for (kname, params) in M1_KINDS[:4]:
        for body in words(body_alpha, 2):
            defs = defline('f', params, body)
            if cppref.run(defs).status != 'ok':
                continue
            for w in texts_for(M1_TEXT, 3):
                text = compact(w)
                o = cppref.run(defs + text + '\n', nst)
                if o.status == 'ok' and o.tokens and not o.decisions:
                    cases.append((defs, text, cppref.render(o.tokens)))
    g = '#define g(a) f(a)\n'
    for (kname, params) in M2_KINDS:
        for body in words(('g', 'x', 'a', '(', ')'), 2):
            defs = defline('f', params, body) + g
            for w in texts_for(('f', 'g', 'x', '(', ')'), 3):
                text = compact(w)
                o = cppref.run(defs + text + '\n', nst)
                if o.status == 'ok' and o.tokens and not o.decisions:
                    cases.append((defs, text, cppref.render(o.tokens)))
    return cases, nst


# an identifier supplied by an object-like macro in every syntactic role, used two and three times: the compiler proper must not free or
# modify the spelling it shares with the macro's replacement list (defects 98/99: designators freed it, attributes truncated it)
ROLE_UNITS = [
    ('member-designator', 'm', 'struct S { int k; int m; }; struct S a = { .@ = 1 }; struct S b = { .@ = 2 }; struct S c = { .k = 3, .@ = 4 };'),
    ('nested-designator', 'm', 'struct S { int k; struct { int j, m; } in; }; struct S a = { .in.@ = 1 }; struct S b = { .in.@ = 2, .k = 1 };'),
    ('offsetof-member', 'm', 'struct S { int k; int m[3]; }; unsigned long a = __builtin_offsetof(struct S, @); unsigned long b = __builtin_offsetof(struct S, @[2]); unsigned long c = __builtin_offsetof(struct S, @);'),
    ('offsetof-nested-member', 'm', 'struct S { int k; struct { int j, m; } in; }; unsigned long a = __builtin_offsetof(struct S, in.@); unsigned long b = __builtin_offsetof(struct S, in.@);'),
    ('c23-attribute', '__packed__', 'struct [[gnu::@]] A { char c; int i; }; struct [[gnu::@]] B { char c; int i; }; struct [[gnu::@]] C { char c; long l; }; int a = sizeof(struct A), b = sizeof(struct B), c = sizeof(struct C);'),
    ('c23-attribute-prefix', '__gnu__', 'struct [[@::packed]] A { char c; int i; }; struct [[@::packed]] B { char c; int i; }; int a = sizeof(struct A), b = sizeof(struct B);'),
    ('gnu-attribute', '__packed__', 'struct __attribute__((@)) A { char c; int i; }; struct __attribute__((@)) B { char c; int i; }; int a = sizeof(struct A), b = sizeof(struct B);'),
    ('member-access', 'm', 'struct S { int k; int m; } v, *p; int f(void) { return v.@ + p->@ + v.@; }'),
    ('label', 'out', 'int f(int n) { if (n) goto @; n++; @: if (n > 5) return n; n += 2; goto @; }'),
    ('tag', 'node', 'struct @ { struct @ *next; int v; }; struct @ head; int f(struct @ *p) { return p->next->v; }'),
    ('enumerator', 'RED', 'enum { @ = 4, GREEN = @ + 1 }; int a = @, b[@];'),
    ('typedef-name', 'num', 'typedef long @; @ a = 1; @ f(@ x) { return x + (@)2; }'),
    ('function-name', 'fn', 'int @(int); int g(void) { return @(1) + @(2); } int @(int x) { return x; }'),
    ('parameter-name', 'arg', 'int f(int @) { return @ * @; }'),
    ('macro-in-macro', 'm', 'struct S { int k; int m; }; struct S a = { .@ = 1 }; unsigned long o = __builtin_offsetof(struct S, @); struct S b = { .@ = 2 }; int f(struct S *p) { return p->@; }'),
]


def role_units(chk):
    srv = fs.server('fs')
    n = 0
    for name, ident, tmpl in ROLE_UNITS:
        direct = tmpl.replace('@', ident) + '\n'
        forms = (('object-like', '#define ID_ %s\n' % ident + tmpl.replace('@', 'ID_') + '\n'),
                 ('through-two-macros', '#define ID0_ %s\n#define ID_ ID0_\n' % ident + tmpl.replace('@', 'ID_') + '\n'),
                 ('function-like', '#define ID_(x) x\n' + tmpl.replace('@', 'ID_(%s)' % ident) + '\n'))
        r0 = srv.compile(direct.encode(), cpu_s=10)
        n += 1
        if r0.status != 0:
            raise RuntimeError('role unit %s does not compile: %s' % (name, r0.err[:200]))
        for fname, src in forms:
            r = srv.compile(src.encode(), cpu_s=10)
            n += 1
            if r.status != 0 or r.out != r0.out:
                chk.violation('roles/identifier-from-macro-differs/' + name, 'role %s, identifier %r supplied by a %s macro and used several times: %s' % (
                    name, ident, fname, ('status %s: %s' % (r.status, r.err.decode(errors='replace')[:160])) if r.status else 'output differs from the unit with the identifier written out'),
                    files={'input.c': src.encode(), 'written-out.c': direct.encode()}, cmd='$CPROC_QBE input.c > a.qbe; $CPROC_QBE written-out.c > b.qbe; cmp a.qbe b.qbe')
    return n


# ---------------------------------------------------------------------------
# ASan subset


def _asan_job(srcs):
    srv = fs.server('fs-asan')
    out = []
    for s in srcs:
        o = cppref.run(s)
        if o.status == 'undefined':
            continue
        for mode in ('tokens', 'E'):
            r = srv.tokens(s.encode('latin-1'), cpu_s=5) if mode == 'tokens' else srv.compile(s.encode('latin-1'), pp=True, cpu_s=5)
            if r.status not in (0, 1):
                out.append((s, mode, r.status, r.err.decode(errors='replace')[:6000]))
                break
    return len(srcs), out


# ---------------------------------------------------------------------------
# second witness: GNU cpp


_defname_re = re.compile(r'^[ \t]*#[ \t]*define[ \t]+([A-Za-z_]\w*)', re.M)


def run_cpp(text):
    p = subprocess.run(['cpp', '-std=c11', '-P', '-pedantic-errors', '-fno-show-column', '-'], input=text.encode('latin-1'),
                       stdout=subprocess.PIPE, stderr=subprocess.PIPE, timeout=60)
    errs = set()
    for ln in p.stderr.decode(errors='replace').splitlines():
        m = re.match(r'^<stdin>:(\d+):(?:\d+:)? (?:fatal )?error', ln)
        if m:
            errs.add(int(m.group(1)))
    return p.stdout.decode('latin-1'), errs


def cpp_solo(rec):
    try:
        out, errs = run_cpp(rec['src'])
    except subprocess.TimeoutExpired:
        return None
    if errs:
        return 'reject'
    return tuple(t for t in cppref.relex('\n'.join(l for l in out.split('\n') if not l.startswith('#pragma'))))


def _cpp_job(recs):
    """Observation of GNU cpp for each record: 'reject', a token tuple, or None (no verdict)."""
    solo = [r for r in recs if r['reason'] == 'unterminated-args' or '#line' in r['src'] or '#pragma' in r['src'] or '\\\n' in r['src']
            or '/*' in r['src'] or r['stratum'].endswith('batch-context')]
    solo_ids = {id(r) for r in solo}
    res = {}
    for r in solo:
        res[id(r)] = cpp_solo(r)
    rest = [r for r in recs if id(r) not in solo_ids]
    if rest:
        parts = []
        spans = []
        line = 1
        for k, r in enumerate(rest):
            s = r['src'] if r['src'].endswith('\n') else r['src'] + '\n'
            nl = s.count('\n')
            spans.append((line, line + nl - 1))
            parts.append(s)
            parts.append(MARK % k + '\n')
            line += nl + 1
            # every name a #define line mentions, whatever the model thinks of that line (cpp may define it all the same)
            for nm in sorted(set(r['defined']) | set(_defname_re.findall(s))):
                parts.append('#undef %s\n' % nm)
                line += 1
        try:
            out, errs = run_cpp(''.join(parts))
            segs = split_at_markers(cppref.relex(out), len(rest))
        except subprocess.TimeoutExpired:
            segs = None
        if segs is None:
            for r in rest:
                res[id(r)] = cpp_solo(r)
        else:
            for r, seg, (lo, hi) in zip(rest, segs, spans):
                res[id(r)] = 'reject' if any(lo <= e <= hi for e in errs) else seg
    return [res[id(r)] for r in recs]


REPLAY_CMD = ('$CPROC_QBE -E input.c > observed.txt 2> stderr.txt; st=$?; cat stderr.txt\n'
              'd=$PWD; cd %s && python3 -m vlib.cppref "$d/input.c" $st "$d/observed.txt"' % build.VERIF)


SANITY = [  # (source, expected observation of both R and cpp) — checks the witness plumbing itself
    ('#define A B\n#define B A\nA B\n', (('ident', 'A'), ('ident', 'B'))),
    ('#define f(a) [a]\nf(,)\n', 'reject'),
    ('#define f a+b\n#define f a + b\n', 'reject'),
    ('#define f(a) #a\nf( x  +\n "s" )\n', (('string', '"x + \\"s\\""'),)),
    ('#define f(a,...) a\nf(1)\n', 'reject'),
    ('#define g(a) f(a)\n#define f(a) g(a)\nf(1) g(2)\n', tuple(cppref.relex('f(1) g(2)'))),
]


# ---------------------------------------------------------------------------


def main(chk):
    q = chk.quick
    tot = {'n': {}, 'rej': 0, 'undef': {}, 'unspec': 0, 'runs': 0, 'e_n': 0, 'fallback': 0}
    distinct = set()
    stats = cppref.Stats()
    mism = {}
    over = {}
    samples = []
    completed = {}

    def absorb(res):
        for k, v in res['n'].items():
            tot['n'][k] = tot['n'].get(k, 0) + v
        for k, v in res['undef'].items():
            tot['undef'][k] = tot['undef'].get(k, 0) + v
        for k in ('rej', 'unspec', 'runs', 'e_n', 'fallback'):
            tot[k] += res[k]
        distinct.update(res['distinct'])
        stats.states |= res['states']
        stats.transitions |= res['transitions']
        for k, v in res['kinds'].items():
            stats.kinds[k] = stats.kinds.get(k, 0) + v
        for k, lst in res['mism'].items():
            cur = mism.setdefault(k, [])
            room = 400 - len(cur)
            cur.extend(lst[:max(room, 0)])
            if len(lst) > room:
                over[k] = over.get(k, 0) + len(lst) - max(room, 0)
        for k, v in res['over'].items():
            over[k] = over.get(k, 0) + v
        if len(samples) < 8:
            samples.extend(sorted(res['samples'], key=lambda x: 'expanded' not in x)[:2])

    def run_jobs(name, jobs):
        done = 0
        it = fs.pimap(_job, jobs)
        try:
            for res in it:
                absorb(res)
                done += 1
                if chk.expired():
                    break
        finally:
            it.close()
        completed[name] = '%d/%d jobs' % (done, len(jobs))
        chk.log('%s: %s, cases so far %s, compiler runs %d, mismatch families %d' % (name, completed[name], tot['n'], tot['runs'], len(mism)))

    if not q:
        # thorough: stop enumerating after 25 minutes so that witness and evidence fit into 30
        chk.deadline = min(chk.deadline, chk.t0 + 1500)

    # ---- sanity of the witness plumbing (R and cpp must both give the expected observation)
    for src, want in SANITY:
        o, al = cppref.allowed(src)
        got = cpp_solo({'src': src})
        robs = 'reject' if o.status == 'reject' else o.tokens
        if robs != want or got != want:
            raise RuntimeError('witness sanity failed for %r: R=%r cpp=%r expected %r' % (src, robs, got, want))

    # ---- M3, M4 (small, first)
    if chk.want('M3'):
        srcs = m3_sources(not q)
        run_jobs('M3', [('SRC', 'M3', c) for c in chunks(srcs, 400)])
    if chk.want('M4'):
        srcs = list(m4_sources(3 if q else 4))
        run_jobs('M4', [('SRC', 'M4', c) for c in chunks(srcs, 400)])

    # ---- D
    d_tot = {'n': 0, 'valid': 0, 'runs': 0, 'pp_disagrees': 0}
    if chk.want('D') and not chk.expired():
        d_tot['runs'] += role_units(chk)
        texts_for(M1_TEXT, 3)
        cases, nst = d_cases(chk)
        stats.merge(nst)
        it = fs.pimap(_d_job, list(chunks(cases, 400)))
        try:
            for res in it:
                for k in d_tot:
                    d_tot[k] += res[k]
                for m in res['mism']:
                    chk.violation('D/il-differs-from-expanded-program',
                                  'program with macros (status %d %s) does not compile like its expansion %r (status %d)' % (
                                      m['status'], m['err'].strip(), m['expanded'], m['want_status']),
                                  files={'input.c': m['src'].encode('latin-1'), 'expanded.txt': m['expanded'].encode('latin-1')},
                                  cmd='$CPROC_QBE input.c', detail='got:\n%s\nexpected:\n%s' % (m['il'], m['il_expected']))
                if chk.expired():
                    break
        finally:
            it.close()
        chk.log('D: %d programs (%d with a valid expansion), %d compiler runs, %d skipped because tokens mode already disagrees' % (d_tot['n'], d_tot['valid'], d_tot['runs'], d_tot['pp_disagrees']))

    # ---- ASan subset
    asan_n = 0
    if chk.want('asan') and not chk.expired():
        srcs = KEYWORD_CASES + DEFINITION_CASES + DIRECTIVE_ADJACENT + EX6 + [EX3_DEFS + EX3_TEXT, EX4_DEFS + EX4_TEXT, EX7_DEFS + EX7_TEXT]
        srcs += list(m4_sources(2)) + list(m3_variadic())[::7]
        # a small exhaustive space of its own: f, g of kinds object / (a), bodies <= 1, every text <= 3
        abody = [(k, b) for k in M2_KINDS for b in words(('f', 'g', 'a', '(', ')'), 1)]
        atexts = texts_for(('f', 'g', 'x', '(', ')'), 3 if not q else 2) + [('g', '(', 'f', ')', 'x'), ('g', '(', 'g', '(', 'f', ')', ')', '(', 'x', ')')]
        for fd in abody:
            for gd in abody:
                d = defline('f', fd[0][1], fd[1]) + defline('g', gd[0][1], gd[1])
                srcs += [d + compact(w) + '\n' for w in atexts]
        for n, bad in fs.pmap(_asan_job, list(chunks(srcs, 40))):
            asan_n += n
            for s, mode, status, err in bad:
                chk.violation('crash/' + crash_site(status, err), 'sanitized build, %s mode: status %d on %r' % (mode, status, s),
                              files={'input.c': s.encode('latin-1'), 'stderr.txt': err.encode()},
                              cmd='# needs the ASan build: vlib.build.get("asan")\n$CPROC_QBE -E input.c', detail=err[-1500:])
        chk.log('asan: %d inputs' % asan_n)

    # ---- M2
    if chk.want('M2') and not chk.expired():
        if q:
            balpha, talpha = ('f', 'g', 'a', '(', ')'), ('f', 'g', 'x', '(', ')')
        else:
            balpha, talpha = ('f', 'g', 'x', 'a', '#a', '(', ')'), ('f', 'g', 'x', '(', ')', ',')
        tkey = (talpha, 3)
        texts_for(*tkey)
        defs1 = [(k, b) for k in M2_KINDS for b in words(balpha, 2)]
        tables = [(fd, gd) for fd in defs1 for gd in defs1]
        run_jobs('M2', [('M2', c, tkey, 3) for c in chunks(tables, 16 if q else 24)])

    # ---- M1 (largest, last; shorter bodies first so that a deadline leaves a completed level)
    if chk.want('M1') and not chk.expired():
        tkey = (M1_TEXT, 4 if q else 5)
        texts_for(*tkey)
        tables = [(k, b) for b in words(M1_BODY, 2 if q else 3) for k in M1_KINDS]
        run_jobs('M1', [('M1', c, tkey, 4) for c in chunks(tables, 2 if q else 1)])

    # ---- second witness on every disagreement
    recs = [r for lst in mism.values() for r in lst]
    need = [r for r in recs if r['obs_status'] in (0, 1) and not (r['reason'] or '').startswith('oos-')]
    verdicts = {}
    if need:
        groups = list(chunks(need, 300))
        for grp, vs in zip(groups, fs.pmap(_cpp_job, groups)):
            for r, v in zip(grp, vs):
                verdicts[id(r)] = v
    ambiguous = 0
    amb_samples = {}
    confirmed = {}
    for r in recs:
        key = r['family']
        allowed_set = set(r['alts']) | {r['exp']}
        if id(r) in verdicts:
            v = verdicts[id(r)]
            if v is None or v not in allowed_set:
                ambiguous += 1
                cls = r['family'] + ' (cpp: %s)' % ('no verdict' if v is None else 'reject' if v == 'reject' else cppref.render(v)[:60])
                if len(amb_samples) < 12:
                    amb_samples.setdefault(cls, r['src'])
                continue
        confirmed[key] = confirmed.get(key, 0) + 1
        exp = 'reject (%s)' % r['reason'] if r['exp'] == 'reject' else cppref.render(r['exp'])
        got = ('status %d: %s' % (r['obs_status'], r['obs_text'].strip()[-200:])) if r['obs_status'] != 0 else cppref.render(r['obs'])
        if r['mode'] == 'E' and r['obs_status'] == 0:
            got = '-E text %r' % r['obs_text']
        flag = {'tokens': '', 'E': '-E '}[r['mode']]
        chk.violation(key, '[%s/%s] %r: expected %s; observed %s' % (r['stratum'], r['mode'], r['src'], exp, got),
                      files={'input.c': r['src'].encode('latin-1'), 'expected.txt': (exp + '\n').encode('latin-1')},
                      cmd=REPLAY_CMD,
                      detail='flags: %s\nGNU cpp agrees with the reference model.' % ', '.join(r['flags']))
    for cls, src in amb_samples.items():
        chk.notes.append('ambiguous (R and GNU cpp disagree, not judged): %s: %r' % (cls, src))
    for k, v in sorted(over.items()):
        chk.notes.append('family %s: %d further disagreeing cases counted but not sent to the witness (per-job cap)' % (k, v))

    evaluations = sum(tot['n'].values())
    if not samples:
        samples.append({'note': 'no sample collected'})
    cov = {
        'states': len(stats.states),
        'transitions': len(stats.transitions),
        'traces_validated_against_impl': evaluations + d_tot['n'] + asan_n,
        'samples': samples,
        'evaluations': evaluations,
        'distinct_nontrivial': len(distinct),
        'rule': 'every macro table x text / directive history of the bounded spaces M1, M2, line splitting, M3 (curated), M4 is run through '
                'the real preprocessor (tokens mode; -E text re-lexed) and compared with cppref (Prosser hide sets); GNU cpp -std=c11 '
                '-pedantic-errors must agree with cppref before a disagreement is reported; distinct_nontrivial = number of distinct '
                'expanded token sequences among the cases the model accepts (cases the model rejects are counted in expected_reject)',
        'ambiguous': ambiguous,
        'expected_reject': tot['rej'],
        'per_stratum': tot['n'],
        'strata_completed': completed,
        'e_text_cases': tot['e_n'],
        'd_programs': d_tot['n'],
        'd_programs_with_valid_expansion': d_tot['valid'],
        'd_programs_skipped_preprocessor_already_disagrees': d_tot['pp_disagrees'],
        'asan_inputs': asan_n,
        'compiler_runs': tot['runs'] + d_tot['runs'],
        'unspecified_6_10_3_4p4_cases': tot['unspec'],
        'undefined_not_judged': tot['undef'],
        'batches_rerun_case_by_case': tot['fallback'],
        'model_step_kinds': stats.kinds,
        'disagreements_confirmed_by_family': confirmed,
        'disagreements_not_witnessed_by_family': over,
    }
    return chk.finish(cov, [
        'state = (macro table, hide set of the identifier, argument-nesting depth) each time cppref examines an identifier; '
        'transition = (state, step kind); both are counted as sets of hashes while the model runs',
        'cases with undefined behaviour (directive inside macro arguments, stringification yielding an invalid literal) are not judged',
        'where C11 6.10.3.4p4 leaves nesting unspecified, every permitted result is accepted',
        'in the variadic kinds of M1 the body symbol b is spelled __VA_ARGS__; trigraphs, digraphs and ## are outside the alphabets '
        '(## must be rejected: checked in M3)',
        'accepted cases are run in batches separated by marker tokens and #undef lines; a batch that does not come out as predicted is '
        'rerun case by case',
    ])
