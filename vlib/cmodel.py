"""cmodel — reference model R of C11 types and constant arithmetic (DESIGN.md appendix E.1).

A direct transcription of C11 6.2.5, 6.2.7, 6.3.1, 6.4.4.1, 6.5.x, 6.6 into small Python functions.  It
looks at nothing of cproc.  Integer values are Python ints, floating values Python floats (binary64; a value
of type float is always kept rounded to binary32).  Three outcomes besides a value:

    Invalid    constraint violation (must be diagnosed)
    Undefined  the evaluation has undefined behaviour (never compared; `div0` must also be rejected where a
               constant is required)
    value      (type, value) of the expression

Everything implementation-defined that the three targets share is fixed here and listed in ASSUMPTIONS.
"""
import math
import struct
from collections import namedtuple

ASSUMPTIONS = [
    'LP64 on all three targets: char 1, short 2, int 4, long 8, long long 8, pointers 8, float 4 (binary32), double 8 (binary64); '
    'two\'s complement; size_t = unsigned long, ptrdiff_t = long',
    'plain char is signed on x86_64-sysv and unsigned on aarch64 and riscv64; wchar_t is int / unsigned / int',
    'conversion of an out-of-range value to a signed integer type wraps modulo 2^N and >> of a negative value is arithmetic '
    '(implementation-defined in C11 6.3.1.3p3 / 6.5.7p5; gcc, clang and cproc all document/implement this)',
    'floating arithmetic is IEEE-754 round-to-nearest-even without excess precision (FLT_EVAL_METHOD 0); x/0.0 and overflow '
    'give infinities / NaN as in Annex F',
    'a bit-field whose declared type has rank above int promotes to int / unsigned int when its width fits (clang reading of '
    '6.3.1.1p2; gcc keeps a private type: ambiguous class)',
    'enumerated types: underlying type unsigned int if no enumerator is negative and all fit, else int, else the first of '
    '(unsigned) long that fits (gcc/clang/cproc rule); an enumerated type behaves as its underlying type in arithmetic',
]


class Invalid(Exception):
    """constraint violation"""


class Undefined(Exception):
    """undefined behaviour during evaluation; .args[0] is the reason ('div0', 'overflow', 'shift', 'f2i', ...)"""


# ---------------------------------------------------------------------------------------------------------
# targets and types

Target = namedtuple('Target', 'name char_signed wchar')

Basic = namedtuple('Basic', 'kind')
Ptr = namedtuple('Ptr', 'to')
Arr = namedtuple('Arr', 'of n')            # n None: incomplete
Func = namedtuple('Func', 'ret params variadic')   # params None: no prototype
Enum = namedtuple('Enum', 'tag under fixed')
Rec = namedtuple('Rec', 'kw tag')
Q = namedtuple('Q', 't quals')             # qualified version of t; quals: sorted tuple of 'const' / 'volatile'

BOOL, CHAR, SCHAR, UCHAR = Basic('bool'), Basic('char'), Basic('schar'), Basic('uchar')
SHORT, USHORT, INT, UINT = Basic('short'), Basic('ushort'), Basic('int'), Basic('uint')
LONG, ULONG, LLONG, ULLONG = Basic('long'), Basic('ulong'), Basic('llong'), Basic('ullong')
FLOAT, DOUBLE, LDOUBLE, VOID = Basic('float'), Basic('double'), Basic('ldouble'), Basic('void')

INTS = (BOOL, CHAR, SCHAR, UCHAR, SHORT, USHORT, INT, UINT, LONG, ULONG, LLONG, ULLONG)
T13 = INTS + (FLOAT, DOUBLE)     # "T13" of DESIGN.md (14 with both char kinds)

TARGETS = {
    'x86_64-sysv': Target('x86_64-sysv', True, INT),
    'aarch64': Target('aarch64', False, UINT),
    'riscv64': Target('riscv64', False, INT),
}

CNAME = {
    'bool': '_Bool', 'char': 'char', 'schar': 'signed char', 'uchar': 'unsigned char', 'short': 'short',
    'ushort': 'unsigned short', 'int': 'int', 'uint': 'unsigned', 'long': 'long', 'ulong': 'unsigned long',
    'llong': 'long long', 'ullong': 'unsigned long long', 'float': 'float', 'double': 'double',
    'ldouble': 'long double', 'void': 'void',
}
_SIZE = {'bool': 1, 'char': 1, 'schar': 1, 'uchar': 1, 'short': 2, 'ushort': 2, 'int': 4, 'uint': 4, 'long': 8,
         'ulong': 8, 'llong': 8, 'ullong': 8, 'float': 4, 'double': 8, 'ldouble': 16}
_RANK = {'bool': 0, 'char': 1, 'schar': 1, 'uchar': 1, 'short': 2, 'ushort': 2, 'int': 3, 'uint': 3, 'long': 4,
         'ulong': 4, 'llong': 5, 'ullong': 5}
_SIGNED = {'schar': True, 'short': True, 'int': True, 'long': True, 'llong': True,
           'bool': False, 'uchar': False, 'ushort': False, 'uint': False, 'ulong': False, 'ullong': False}
_UNSIGNED_OF = {'int': UINT, 'long': ULONG, 'llong': ULLONG}


def unq(t):
    """(unqualified type, quals)"""
    if isinstance(t, Q):
        return t.t, t.quals
    return t, ()


def qualify(t, quals):
    t, q0 = unq(t)
    q = tuple(sorted(set(q0) | set(quals)))
    return Q(t, q) if q else t


def is_integer(t):
    return isinstance(t, Enum) or (isinstance(t, Basic) and t.kind in _RANK)


def is_float(t):
    return isinstance(t, Basic) and t.kind in ('float', 'double', 'ldouble')


def is_arith(t):
    return is_integer(t) or is_float(t)


def is_pointer(t):
    return isinstance(t, Ptr)


def is_scalar(t):
    return is_arith(t) or is_pointer(t)


def basic_of(t):
    """the basic integer type an integer type behaves as"""
    return t.under if isinstance(t, Enum) else t


def sizeof(t):
    t = unq(t)[0]
    if isinstance(t, Basic):
        if t.kind == 'void':
            raise Invalid('sizeof void')
        return _SIZE[t.kind]
    if isinstance(t, Enum):
        return _SIZE[t.under.kind]
    if isinstance(t, Ptr):
        return 8
    if isinstance(t, Arr):
        if t.n is None:
            raise Invalid('sizeof incomplete array')
        return t.n * sizeof(t.of)
    raise Invalid('sizeof %r' % (t,))


def alignof(t):
    t = unq(t)[0]
    if isinstance(t, Arr):
        return alignof(t.of)
    if isinstance(t, Basic) and t.kind == 'ldouble':
        return 16
    return sizeof(t)


def is_signed(t, tgt):
    k = basic_of(t).kind
    if k == 'char':
        return tgt.char_signed
    return _SIGNED[k]


def rank(t):
    return _RANK[basic_of(t).kind]


def width(t):
    """value + sign bits"""
    t = basic_of(t)
    return 1 if t.kind == 'bool' else 8 * _SIZE[t.kind]


def int_range(t, tgt, bits=None):
    t = basic_of(t)
    if t.kind == 'bool':
        return 0, 1
    w = bits or 8 * _SIZE[t.kind]
    if is_signed(t, tgt):
        return -(1 << (w - 1)), (1 << (w - 1)) - 1
    return 0, (1 << w) - 1


def cname(t):
    return cdecl(t, '')


def cdecl(t, inner=''):
    """C declaration of `inner` (a declarator fragment or name; '' for a type name) with type t"""
    t, q = unq(t)
    qs = ' '.join(q)
    if isinstance(t, Basic):
        base = CNAME[t.kind]
    elif isinstance(t, Enum):
        base = 'enum ' + t.tag
    elif isinstance(t, Rec):
        base = t.kw + ' ' + t.tag
    elif isinstance(t, Ptr):
        s = '*' + (qs + ' ' if qs and inner else qs) + inner
        if isinstance(unq(t.to)[0], (Arr, Func)):
            s = '(' + s + ')'
        return cdecl(t.to, s)
    elif isinstance(t, Arr):
        return cdecl(t.of, inner + '[%s]' % ('' if t.n is None else t.n))
    elif isinstance(t, Func):
        if t.params is None:
            ps = ''
        elif not t.params:
            ps = 'void'
        else:
            ps = ', '.join(cdecl(p, '') for p in t.params) + (', ...' if t.variadic else '')
        return cdecl(t.ret, inner + '(' + ps + ')')
    else:
        raise TypeError(t)
    return (qs + ' ' if qs else '') + base + (' ' + inner if inner else '')


# ---------------------------------------------------------------------------------------------------------
# 6.3.1.1 promotions, 6.3.1.8 usual arithmetic conversions

def promote(t, tgt, bf=None):
    """integer promotions; bf = width of the bit-field the operand designates (None otherwise)"""
    if not is_integer(t):
        return t
    b = basic_of(t)
    if bf is None:
        if rank(b) > _RANK['int'] or b in (INT, UINT):
            return b
        lo, hi = int_range(b, tgt)
    else:
        # 6.3.1.1p2 names bit-fields of _Bool/int/signed/unsigned; for other declared types the three
        # implementations agree when the rank is <= int, and for rank > int R takes the clang reading
        # (ASSUMPTIONS): the width decides
        if bf > 32:
            return b
        lo, hi = int_range(b, tgt, bf)
    if lo >= -(1 << 31) and hi <= (1 << 31) - 1:
        return INT
    return UINT


def default_arg_promote(t, tgt):
    if t == FLOAT:
        return DOUBLE
    return promote(t, tgt)


def usual_arith(t1, t2, tgt, bf1=None, bf2=None):
    if not (is_arith(t1) and is_arith(t2)):
        raise Invalid('usual arithmetic conversions on non-arithmetic type')
    for f in (LDOUBLE, DOUBLE, FLOAT):
        if t1 == f or t2 == f:
            return f
    a, b = promote(t1, tgt, bf1), promote(t2, tgt, bf2)
    if a == b:
        return a
    sa, sb = is_signed(a, tgt), is_signed(b, tgt)
    if sa == sb:
        return a if rank(a) > rank(b) else b
    u, s = (b, a) if sa else (a, b)
    if rank(u) >= rank(s):
        return u
    if _SIZE[s.kind] > _SIZE[u.kind]:
        return s            # the signed type represents every value of the unsigned one
    return _UNSIGNED_OF[s.kind]


# ---------------------------------------------------------------------------------------------------------
# 6.4.4.1p5 literal typing

_LIT_TABLE = {
    # suffix: (decimal list, octal/hex/binary list)
    '': ((INT, LONG, LLONG), (INT, UINT, LONG, ULONG, LLONG, ULLONG)),
    'u': ((UINT, ULONG, ULLONG),) * 2,
    'l': ((LONG, LLONG), (LONG, ULONG, LLONG, ULLONG)),
    'ul': ((ULONG, ULLONG),) * 2,
    'll': ((LLONG,), (LLONG, ULLONG)),
    'ull': ((ULLONG,),) * 2,
}
VALID_SUFFIXES = {}
for _u in ('', 'u', 'U'):
    for _l in ('', 'l', 'L', 'll', 'LL'):
        for _s in {_u + _l, _l + _u}:
            VALID_SUFFIXES[_s] = ('u' if _u else '') + _l.lower()


def int_literal(text, tgt=None):
    """(type, value) of an integer constant spelling; Invalid if it is not one or has no type (6.4.4p2)"""
    s = text
    low = s.lower()
    if low.startswith('0x'):
        base, digits, body = 16, '0123456789abcdef', 2
    elif low.startswith('0b'):
        base, digits, body = 2, '01', 2
    elif s.startswith('0'):
        base, digits, body = 8, '01234567', 0
    else:
        base, digits, body = 10, '0123456789', 0
    i = body
    while i < len(s) and low[i] in digits:
        i += 1
    if i == body:
        raise Invalid('no digits')
    suffix = s[i:]
    if suffix not in VALID_SUFFIXES:
        raise Invalid('bad suffix %r' % suffix)
    v = int(low[body:i], base)
    for t in _LIT_TABLE[VALID_SUFFIXES[suffix]][0 if base == 10 else 1]:
        lo, hi = int_range(t, TARGETS['x86_64-sysv'])
        if v <= hi:
            return t, v
    raise Invalid('no type for constant')


def float_literal(text):
    """(type, value) of a floating constant spelling (decimal or hexadecimal)"""
    s = text
    t = DOUBLE
    if s[-1] in 'fF':
        t, s = FLOAT, s[:-1]
    elif s[-1] in 'lL':
        t, s = LDOUBLE, s[:-1]
    if s.lower().startswith('0x'):
        if 'p' not in s.lower():
            raise Invalid('hexadecimal floating constant needs an exponent')
        v = hexfloat_exact(s, 24 if t == FLOAT else 53)
    else:
        if t == FLOAT:
            v = dec_to_f32(s)
        else:
            v = float(s)
    return t, v


def hexfloat_exact(s, prec):
    """correctly rounded value of a hexadecimal floating literal to `prec` bits (no double rounding)"""
    low = s.lower()[2:]
    mant, exp = low.split('p')
    ip, _, fp = mant.partition('.')
    m = int((ip + fp) or '0', 16)
    e = int(exp) - 4 * len(fp)
    return round_scaled(m, e, prec)


def round_scaled(m, e, prec):
    """m * 2**e rounded to nearest-even at `prec` significant bits, as a Python float (prec 24 or 53)"""
    if m == 0:
        return 0.0
    emin = -149 if prec == 24 else -1074
    bits = m.bit_length()
    drop = max(bits - prec, emin - e)
    if drop > 0:
        q = m >> drop
        rem = m & ((1 << drop) - 1)
        half = 1 << (drop - 1)
        if rem > half or (rem == half and (q & 1)):
            q += 1
        m, e = q, e + drop
    try:
        v = math.ldexp(float(m), e)
    except OverflowError:
        return math.inf
    if prec == 24 and abs(v) > F32_MAX:
        return math.inf
    return v


def dec_to_f32(s):
    """decimal string -> nearest binary32 without going through binary64"""
    from fractions import Fraction
    m, _, ex = s.lower().partition('e')
    fr = Fraction(m + '0' if m.endswith('.') else m) * Fraction(10) ** int(ex or 0)
    if fr == 0:
        return 0.0
    d = float(fr)                       # correctly rounded to binary64
    f = f32(d) if abs(d) <= F32_MAX * 2 else math.inf
    if math.isinf(f) or f == 0.0:
        return f
    # d -> f may have double-rounded: pick the best of f and its neighbours exactly
    best = None
    for c in (f32_next(f, -1), f, f32_next(f, +1)):
        if math.isinf(c):
            continue
        err = abs(Fraction(c) - fr)
        key = (err, f32_bits(c) & 1)
        if best is None or key < best[0]:
            best = (key, c)
    return best[1]


# ---------------------------------------------------------------------------------------------------------
# floating helpers

F32_MAX = struct.unpack('<f', b'\xff\xff\x7f\x7f')[0]


def f32(x):
    """round a binary64 to binary32 (nearest-even); overflow gives inf"""
    try:
        return struct.unpack('<f', struct.pack('<f', x))[0]
    except OverflowError:
        return math.copysign(math.inf, x)


def f32_bits(x):
    return struct.unpack('<I', struct.pack('<f', x))[0]


def f64_bits(x):
    return struct.unpack('<Q', struct.pack('<d', x))[0]


def f32_next(x, d):
    b = f32_bits(x)
    if x == 0.0:
        return struct.unpack('<f', struct.pack('<I', 1 | (0x80000000 if d < 0 else 0)))[0]
    if (x > 0) == (d > 0):
        b += 1
    else:
        b -= 1
    return struct.unpack('<f', struct.pack('<I', b))[0]


def int_to_float(v, prec):
    """exact integer -> nearest-even float of `prec` significant bits, no intermediate double"""
    if v == 0:
        return 0.0
    r = round_scaled(abs(v), 0, prec)
    return -r if v < 0 else r


def float_div(a, b):
    if b == 0.0:
        if a != a or a == 0.0:
            return math.nan
        return math.copysign(math.inf, a) * math.copysign(1.0, b)
    return a / b


# ---------------------------------------------------------------------------------------------------------
# conversions of values (6.3.1)

def wrap(v, t, tgt):
    b = basic_of(t)
    if b.kind == 'bool':
        return 1 if v else 0
    w = 8 * _SIZE[b.kind]
    v &= (1 << w) - 1
    if is_signed(b, tgt) and v >> (w - 1):
        v -= 1 << w
    return v


def convert(v, ft, tt, tgt, trig=None):
    """value v of type ft converted to type tt (6.3.1.2-6.3.1.5).  trig: set collecting the names of known-defect
    trigger conditions met on the way (see TRIGGERS)."""
    ft, tt = unq(ft)[0], unq(tt)[0]
    if tt == BOOL or (isinstance(tt, Enum) and tt.under == BOOL):
        if trig is not None:
            if is_float(ft):
                if v != 0.0 and v != 1.0:
                    trig.add('to-bool')
            elif v not in (0, 1):
                trig.add('to-bool')
        return 1 if v != 0 else 0       # NaN != 0 is true
    if is_integer(ft):
        if is_integer(tt):
            return wrap(v, tt, tgt)
        if tt == FLOAT:
            r = int_to_float(v, 24)
            if trig is not None and f32(float(v)) != r:
                trig.add('int-to-float32')
            return r
        return int_to_float(v, 53)
    if is_float(ft):
        if is_integer(tt):
            if v != v or math.isinf(v):
                raise Undefined('f2i')
            i = int(v)      # truncation toward zero
            lo, hi = int_range(tt, tgt)
            if i < lo or i > hi:
                raise Undefined('f2i')
            if trig is not None and v < 0 and i == 0 and lo == 0:
                trig.add('neg-fraction-to-unsigned')
            return i
        if tt == FLOAT:
            return f32(v)
        return v
    raise Invalid('conversion of non-arithmetic value')


# ---------------------------------------------------------------------------------------------------------
# expression ASTs and their evaluation
#
#   ('val', type, value)             an operand given as literal-or-cast (value in range of type)
#   ('ilit', text) ('flit', text)    a literal by spelling
#   ('cast', type, e) ('un', op, e) ('bin', op, l, r) ('cond', c, a, b)
#   ('sizeof', type) ('alignof', type) ('econst', name, value)
#   ('raw', text, type, value)       any other constant primary/postfix form whose type and value the caller states

BINOPS = ('*', '/', '%', '+', '-', '<<', '>>', '<', '>', '<=', '>=', '==', '!=', '&', '^', '|', '&&', '||')
UNOPS = ('+', '-', '~', '!')

# known-defect trigger conditions (a case that met one is attributed to that family if it fails)
TRIGGERS = ('logical', 'to-bool', 'int-to-float32', 'f-suffix', 'float-cond', 'neg-fraction-to-unsigned', 'cond-narrow')


class Res(namedtuple('Res', 'type value')):
    pass


def binary_type(op, t1, t2, tgt, bf1=None, bf2=None):
    """result type of `t1 op t2` for arithmetic operands; Invalid on constraint violation"""
    if not (is_arith(t1) and is_arith(t2)):
        raise Invalid('non-arithmetic operand')
    if op in ('*', '/', '+', '-'):
        return usual_arith(t1, t2, tgt, bf1, bf2)
    if op in ('%', '&', '^', '|'):
        if not (is_integer(t1) and is_integer(t2)):
            raise Invalid('operands of %s must be integers' % op)
        return usual_arith(t1, t2, tgt, bf1, bf2)
    if op in ('<<', '>>'):
        if not (is_integer(t1) and is_integer(t2)):
            raise Invalid('operands of %s must be integers' % op)
        return promote(t1, tgt, bf1)
    if op in ('<', '>', '<=', '>=', '==', '!=', '&&', '||'):
        return INT
    raise ValueError(op)


def arith(op, ct, a, b, tgt):
    """a op b with both operands already of the common type ct"""
    if is_float(ct):
        if op == '+':
            r = a + b
        elif op == '-':
            r = a - b
        elif op == '*':
            r = a * b
        elif op == '/':
            r = float_div(a, b)
        else:
            raise Invalid(op)
        return f32(r) if ct == FLOAT else r
    lo, hi = int_range(ct, tgt)
    signed = is_signed(ct, tgt)
    if op in ('+', '-', '*'):
        r = a + b if op == '+' else a - b if op == '-' else a * b
        if signed:
            if r < lo or r > hi:
                raise Undefined('overflow')
            return r
        return r & hi
    if op in ('/', '%'):
        if b == 0:
            raise Undefined('div0')
        if signed and a == lo and b == -1:
            raise Undefined('overflow')
        q = abs(a) // abs(b)
        if (a < 0) != (b < 0):
            q = -q
        return q if op == '/' else a - q * b
    if op == '&':
        return wrap(a & b, ct, tgt)
    if op == '|':
        return wrap(a | b, ct, tgt)
    if op == '^':
        return wrap(a ^ b, ct, tgt)
    raise ValueError(op)


def compare(op, a, b):
    if op == '<':
        return int(a < b)
    if op == '>':
        return int(a > b)
    if op == '<=':
        return int(a <= b)
    if op == '>=':
        return int(a >= b)
    if op == '==':
        return int(a == b)
    return int(a != b)


def truth(v):
    return v != 0       # NaN is true


def evaluate(e, tgt, trig=None):
    """Res(type, value) of a constant expression AST; raises Invalid / Undefined"""
    k = e[0]
    if k == 'val':
        return Res(e[1], e[2])
    if k == 'ilit':
        t, v = int_literal(e[1])
        return Res(t, v)
    if k == 'flit':
        t, v = float_literal(e[1])
        if t == FLOAT and trig is not None:
            s = e[1][:-1]
            d = float.fromhex(s) if s.lower().startswith('0x') else float(s)
            if f32(d) != d or d != v:
                trig.add('f-suffix')
        return Res(t, v)
    if k == 'econst':
        return Res(INT, e[2])
    if k == 'raw':
        return Res(e[2], e[3])
    if k == 'sizeof':
        return Res(ULONG, sizeof(e[1]))
    if k == 'alignof':
        return Res(ULONG, alignof(e[1]))
    if k == 'cast':
        x = evaluate(e[2], tgt, trig)
        t = unq(e[1])[0]
        if not is_arith(t) or not is_arith(x.type):
            raise Invalid('cast')
        return Res(t, convert(x.value, x.type, t, tgt, trig))
    if k == 'un':
        op = e[1]
        x = evaluate(e[2], tgt, trig)
        if op == '!':
            if not is_scalar(x.type):
                raise Invalid('!')
            return Res(INT, int(not truth(x.value)))
        if op == '~':
            if not is_integer(x.type):
                raise Invalid('~')
            t = promote(x.type, tgt)
            return Res(t, wrap(~convert(x.value, x.type, t, tgt), t, tgt))
        if not is_arith(x.type):
            raise Invalid('unary ' + op)
        t = promote(x.type, tgt)
        v = convert(x.value, x.type, t, tgt)
        if op == '+':
            return Res(t, v)
        if is_float(t):
            return Res(t, -v)
        if is_signed(t, tgt):
            if v == int_range(t, tgt)[0]:
                raise Undefined('overflow')
            return Res(t, -v)
        return Res(t, wrap(-v, t, tgt))
    if k == 'bin':
        op = e[1]
        if op in ('&&', '||'):
            l = evaluate(e[2], tgt, trig)
            # the right operand must satisfy the constraints even when it is not evaluated
            if not is_scalar(l.type) or not is_scalar(type_of(e[3], tgt)):
                raise Invalid(op)
            lt = truth(l.value)
            if trig is not None:
                trig.add('logical')
            if op == '&&' and not lt:
                return Res(INT, 0)
            if op == '||' and lt:
                return Res(INT, 1)
            return Res(INT, int(truth(evaluate(e[3], tgt, trig).value)))
        l = evaluate(e[2], tgt, trig)
        r = evaluate(e[3], tgt, trig)
        rt = binary_type(op, l.type, r.type, tgt)
        if op in ('<<', '>>'):
            prt = promote(r.type, tgt)
            a = convert(l.value, l.type, rt, tgt)
            n = convert(r.value, r.type, prt, tgt)
            w = width(rt)
            if n < 0 or n >= w:
                raise Undefined('shift')
            lo, hi = int_range(rt, tgt)
            if op == '<<':
                if is_signed(rt, tgt):
                    if a < 0 or (a << n) > hi:
                        raise Undefined('shift')
                    return Res(rt, a << n)
                return Res(rt, (a << n) & hi)
            return Res(rt, a >> n)      # arithmetic for negative a (ASSUMPTIONS)
        ct = usual_arith(l.type, r.type, tgt)
        a = convert(l.value, l.type, ct, tgt, trig)
        b = convert(r.value, r.type, ct, tgt, trig)
        if op in ('<', '>', '<=', '>=', '==', '!='):
            return Res(INT, compare(op, a, b))
        return Res(rt, arith(op, ct, a, b, tgt))
    if k == 'cond':
        c = evaluate(e[1], tgt, trig)
        if not is_scalar(c.type):
            raise Invalid('?: condition')
        sel = truth(c.value)
        if trig is not None and is_float(c.type):
            trig.add('float-cond')
        ta, tb = type_of(e[2], tgt), type_of(e[3], tgt)
        t = usual_arith(ta, tb, tgt)                                     # constraints of both operands
        if trig is not None and ta == tb and is_integer(ta) and promote(ta, tgt) != ta:
            trig.add('cond-narrow')
        s = evaluate(e[2] if sel else e[3], tgt, trig)                   # only the selected one is evaluated
        return Res(t, convert(s.value, s.type, t, tgt, trig))
    raise ValueError('unknown AST node %r' % (k,))


def type_of(e, tgt):
    """type of a constant-expression AST without evaluating it"""
    k = e[0]
    if k == 'val':
        return e[1]
    if k == 'ilit':
        return int_literal(e[1])[0]
    if k == 'flit':
        return float_literal(e[1])[0]
    if k == 'econst':
        return INT
    if k == 'raw':
        return e[2]
    if k in ('sizeof', 'alignof'):
        return ULONG
    if k == 'cast':
        return unq(e[1])[0]
    if k == 'un':
        if e[1] == '!':
            return INT
        return promote(type_of(e[2], tgt), tgt)
    if k == 'bin':
        return binary_type(e[1], type_of(e[2], tgt), type_of(e[3], tgt), tgt)
    if k == 'cond':
        return usual_arith(type_of(e[2], tgt), type_of(e[3], tgt), tgt)
    raise ValueError(k)


# ---------------------------------------------------------------------------------------------------------
# rendering

def c_value(t, v, tgt):
    """C source of the value v of arithmetic type t as a literal or a cast of a literal (always parenthesised
    when it is not a single token)"""
    t = unq(t)[0]
    if is_float(t):
        if v != v:
            raise ValueError('NaN has no literal')
        if math.isinf(v):
            raise ValueError('infinity has no literal')
        s = abs(v).hex()
        m, p = s.split('p')
        if '.' in m:
            m = m.rstrip('0').rstrip('.')
        s = m + 'p' + p + ('f' if t == FLOAT else '')
        return '(-%s)' % s if math.copysign(1.0, v) < 0 else s
    b = basic_of(t)
    suf = {'int': '', 'uint': 'u', 'long': 'L', 'ulong': 'uL', 'llong': 'LL', 'ullong': 'uLL'}.get(b.kind)
    if suf is None or isinstance(t, Enum):
        if -(1 << 31) <= v < (1 << 31):
            return '((%s)%s)' % (cname(t), c_value(INT, v, tgt))
        return '((%s)%s)' % (cname(t), c_value(LLONG if v < 0 else ULLONG, v, tgt))
    lo, hi = int_range(b, tgt)
    if not lo <= v <= hi:
        raise ValueError('%d out of range of %s' % (v, b.kind))
    if v >= 0:
        return '%d%s' % (v, suf)
    if v == lo:
        return '(-%d%s-1)' % (-(v + 1), suf)
    return '(-%d%s)' % (-v, suf)


def render(e, tgt):
    k = e[0]
    if k == 'val':
        return c_value(e[1], e[2], tgt)
    if k in ('ilit', 'flit'):
        return e[1]
    if k in ('econst', 'raw'):
        return e[1] if e[1].replace('_', 'a').isalnum() else '(%s)' % e[1]
    if k == 'sizeof':
        return 'sizeof(%s)' % cname(e[1])
    if k == 'alignof':
        return '_Alignof(%s)' % cname(e[1])
    if k == 'cast':
        return '((%s)%s)' % (cname(e[1]), render(e[2], tgt))
    if k == 'un':
        return '(%s%s)' % (e[1], render(e[2], tgt))
    if k == 'bin':
        return '(%s %s %s)' % (render(e[2], tgt), e[1], render(e[3], tgt))
    if k == 'cond':
        return '(%s ? %s : %s)' % (render(e[1], tgt), render(e[2], tgt), render(e[3], tgt))
    raise ValueError(k)


def image(t, v, tgt):
    """little-endian object representation of value v of arithmetic type t; None for NaN (payload/sign free)"""
    t = unq(t)[0]
    if t == FLOAT:
        return None if v != v else struct.pack('<f', v)
    if t == DOUBLE:
        return None if v != v else struct.pack('<d', v)
    n = sizeof(t)
    return (v & ((1 << (8 * n)) - 1)).to_bytes(n, 'little')


def carrier(t, v, tgt):
    """cproc-independent description of a 64-bit 'carrier' holding v: integers sign-/zero-extended to 64 bits,
    floating values as the binary64 bit pattern.  Used ONLY to recognise the known family 'a logical operator
    yields one of its operands' narrowly; never as an oracle."""
    if is_float(t):
        return f64_bits(v)
    return v & ((1 << 64) - 1)


# ---------------------------------------------------------------------------------------------------------
# boundary value sets V(T)

def values(t, tgt, n=None, extra=()):
    """boundary values of arithmetic type t, most important first; n = how many (None: all)"""
    t0 = unq(t)[0]
    if t0 == BOOL:
        vs = [0, 1]
    elif is_float(t0):
        vs = [0.0, 1.0, -1.0, 0.5, -1.5, 2147483648.0, 4294967296.0, 9223372036854775808.0,
              16777216.0 if t0 == FLOAT else 16777217.0,
              18446742974197923840.0 if t0 == FLOAT else 18446744073709549568.0,
              f32(1e-30) if t0 == FLOAT else 1e-30, F32_MAX if t0 == FLOAT else 3.4e38]
        if t0 == DOUBLE:
            vs.append(1e300)
    else:
        lo, hi = int_range(t0, tgt)
        w = width(t0)
        if lo < 0:
            vs = [0, 1, -1, hi, lo, 2, hi - 1, lo + 1, hi // 3, w - 1, w, 1 << (w // 2)]
        else:
            vs = [0, 1, hi, (hi >> 1) + 1, 2, hi - 1, hi // 3, w - 1, w, 1 << (w // 2)]
        vs = [v for v in vs if lo <= v <= hi]
    out = []
    for v in list(vs[:n] if n else vs) + [x for x in extra]:
        if not any(v == o and math.copysign(1, v) == math.copysign(1, o) for o in out):
            out.append(v)
    return out


# ---------------------------------------------------------------------------------------------------------
# 6.2.7 compatibility and composite type

def compatible(a, b, c23_funcs=False):
    (a, qa), (b, qb) = unq(a), unq(b)
    if qa != qb:
        return False
    if isinstance(a, Enum) or isinstance(b, Enum):
        if isinstance(a, Enum) and isinstance(b, Enum):
            return a.tag == b.tag
        e, o = (a, b) if isinstance(a, Enum) else (b, a)
        return o == e.under
    if type(a) is not type(b):
        return False
    if isinstance(a, Basic):
        return a.kind == b.kind
    if isinstance(a, Rec):
        return a == b
    if isinstance(a, Ptr):
        return compatible(a.to, b.to, c23_funcs)
    if isinstance(a, Arr):
        if a.n is not None and b.n is not None and a.n != b.n:
            return False
        return compatible(a.of, b.of, c23_funcs)
    if isinstance(a, Func):
        if not compatible(a.ret, b.ret, c23_funcs):
            return False
        pa, pb = a.params, b.params
        if c23_funcs:
            pa = () if pa is None else pa
            pb = () if pb is None else pb
        if pa is None and pb is None:
            return True
        if pa is None or pb is None:
            p, f = (pb, b) if pa is None else (pa, a)
            if f.variadic:
                return False
            x86 = TARGETS['x86_64-sysv']
            return all(compatible(unq(t)[0], default_arg_promote(unq(t)[0], x86)) if is_arith(unq(t)[0]) else True for t in p)
        if len(pa) != len(pb) or a.variadic != b.variadic:
            return False
        return all(compatible(unq(x)[0], unq(y)[0], c23_funcs) for x, y in zip(pa, pb))
    raise TypeError(a)


def composite(a, b):
    """6.2.7p3 composite of two compatible types"""
    (a0, qa), (b0, _) = unq(a), unq(b)
    if isinstance(a0, Enum) or isinstance(b0, Enum):
        r = a0      # either (they are compatible); implementations keep the first
    elif isinstance(a0, Ptr):
        r = Ptr(composite(a0.to, b0.to))
    elif isinstance(a0, Arr):
        r = Arr(composite(a0.of, b0.of), a0.n if a0.n is not None else b0.n)
    elif isinstance(a0, Func):
        if a0.params is None:
            r = Func(composite(a0.ret, b0.ret), b0.params, b0.variadic)
        elif b0.params is None:
            r = Func(composite(a0.ret, b0.ret), a0.params, a0.variadic)
        else:
            r = Func(composite(a0.ret, b0.ret), tuple(composite(x, y) for x, y in zip(a0.params, b0.params)), a0.variadic)
    else:
        r = a0
    return qualify(r, qa)


def is_complete_object(t):
    t = unq(t)[0]
    if isinstance(t, Func) or t == VOID:
        return False
    if isinstance(t, Arr):
        return t.n is not None and is_complete_object(t.of)
    if isinstance(t, Rec):
        return not t.tag.startswith('incomplete')
    return True


def is_object(t):
    """object type in the C11 sense (complete or not): anything but a function type"""
    return not isinstance(unq(t)[0], Func)


# ---------------------------------------------------------------------------------------------------------
# typing of expressions over operand descriptors (C05)

class Opnd(namedtuple('Opnd', 'type bf lvalue modifiable npc')):
    """an operand: its declared type (possibly array/function/qualified), bit-field width, whether it is a
    (modifiable) lvalue, and whether it is a null pointer constant"""
    __slots__ = ()


def opnd(type, bf=None, lvalue=False, modifiable=None, npc=False):
    if modifiable is None:
        modifiable = lvalue and 'const' not in unq(type)[1] and not isinstance(unq(type)[0], (Arr, Func))
    return Opnd(type, bf, lvalue, modifiable, npc)


def value_type(o):
    """type after lvalue conversion and array/function decay (6.3.2.1)"""
    t, _ = unq(o.type)
    if isinstance(t, Arr):
        return Ptr(t.of)
    if isinstance(t, Func):
        return Ptr(t)
    return t


def _ptr_to_void(t):
    return isinstance(t, Ptr) and unq(t.to)[0] == VOID


def expr_binary_type(op, L, R, tgt):
    """type of `L op R` (6.5.5 - 6.5.14, 6.5.16); Invalid on constraint violation"""
    lt, rt = value_type(L), value_type(R)
    if op in ('=', '+=', '-=', '*=', '&=', '<<='):
        if not L.lvalue or not L.modifiable:
            raise Invalid('assignment to non-modifiable lvalue')
        if op == '=':
            if not assignable(lt, R, tgt):
                raise Invalid('assignment constraint')
            return lt
        if op in ('+=', '-='):
            if is_pointer(lt):
                if not (is_complete_object(lt.to) and is_integer(rt)):
                    raise Invalid('pointer ' + op)
                return lt
            if not (is_arith(lt) and is_arith(rt)):
                raise Invalid(op)
            return lt
        binary_type(op[:-1], lt, rt, tgt)      # constraints of the underlying operator
        return lt
    if is_arith(lt) and is_arith(rt):
        return binary_type(op, lt, rt, tgt, L.bf, R.bf)
    if op in ('&&', '||'):
        if is_scalar(lt) and is_scalar(rt):
            return INT
        raise Invalid(op)
    if op == '+':
        for p, i in ((lt, rt), (rt, lt)):
            if is_pointer(p) and is_integer(i):
                if not is_complete_object(p.to):
                    raise Invalid('arithmetic on pointer to incomplete or function type')
                return p
        raise Invalid('+')
    if op == '-':
        if is_pointer(lt) and is_integer(rt):
            if not is_complete_object(lt.to):
                raise Invalid('arithmetic on pointer to incomplete or function type')
            return lt
        if is_pointer(lt) and is_pointer(rt):
            if not (is_complete_object(lt.to) and is_complete_object(rt.to) and compatible(unq(lt.to)[0], unq(rt.to)[0])):
                raise Invalid('pointer difference')
            return LONG
        raise Invalid('-')
    if op in ('<', '>', '<=', '>='):
        if is_pointer(lt) and is_pointer(rt) and is_object(lt.to) and is_object(rt.to) and compatible(unq(lt.to)[0], unq(rt.to)[0]):
            return INT
        raise Invalid('relational')
    if op in ('==', '!='):
        if is_pointer(lt) and is_pointer(rt):
            if compatible(unq(lt.to)[0], unq(rt.to)[0]):
                return INT
            if (_ptr_to_void(lt) and is_object(rt.to)) or (_ptr_to_void(rt) and is_object(lt.to)):
                return INT
            if L.npc or R.npc:
                return INT
            raise Invalid('equality of incompatible pointers')
        if (is_pointer(lt) and R.npc) or (is_pointer(rt) and L.npc):
            return INT
        raise Invalid('equality')
    raise Invalid(op)


def assignable(lt, R, tgt):
    """6.5.16.1p1 for the unqualified left type lt and right operand R"""
    rt = value_type(R)
    if is_arith(lt):
        if is_arith(rt):
            return True
        return lt == BOOL and is_pointer(rt)
    if is_pointer(lt):
        if R.npc:
            return True
        if not is_pointer(rt):
            return False
        (lb, lq), (rb, rq) = unq(lt.to), unq(rt.to)
        if not set(rq) <= set(lq):
            return False
        if compatible(lb, rb):
            return True
        return (lb == VOID and is_object(rb)) or (rb == VOID and is_object(lb))
    return False


def expr_cond_type(L, R, tgt):
    """type of `c ? L : R` (6.5.15)"""
    lt, rt = value_type(L), value_type(R)
    if is_arith(lt) and is_arith(rt):
        return usual_arith(lt, rt, tgt, L.bf, R.bf)
    if is_pointer(lt) and is_pointer(rt):
        if L.npc != R.npc:
            return rt if L.npc else lt          # p6: the type of the operand that is not the null pointer constant
        (lb, lq), (rb, rq) = unq(lt.to), unq(rt.to)
        q = tuple(sorted(set(lq) | set(rq)))
        if compatible(lb, rb):
            return Ptr(qualify(composite(lb, rb), q))
        if (lb == VOID and is_object(rb)) or (rb == VOID and is_object(lb)):
            return Ptr(qualify(VOID, q))
    elif is_pointer(lt) and R.npc:
        return lt
    elif is_pointer(rt) and L.npc:
        return rt
    raise Invalid('?:')


def expr_unary_type(op, X, tgt):
    """type of a unary expression; op in + - ~ ! sizeof id ++pre ++post --pre --post"""
    t = value_type(X)
    if op == 'id':
        return t
    if op in ('+', '-'):
        if not is_arith(t):
            raise Invalid('unary ' + op)
        return promote(t, tgt, X.bf)
    if op == '~':
        if not is_integer(t):
            raise Invalid('~')
        return promote(t, tgt, X.bf)
    if op == '!':
        if not is_scalar(t):
            raise Invalid('!')
        return INT
    if op == 'sizeof':
        d = unq(X.type)[0]
        if X.bf is not None or isinstance(d, Func) or not is_complete_object(d):
            raise Invalid('sizeof')
        return ULONG
    if op in ('++pre', '++post', '--pre', '--post'):
        if not X.lvalue or not X.modifiable:
            raise Invalid('++/-- needs a modifiable lvalue')
        if is_pointer(t):
            if not is_complete_object(t.to):
                raise Invalid('++/-- on pointer to incomplete type')
            return t
        if not is_arith(t):
            raise Invalid('++/--')
        return t
    raise ValueError(op)


def expr_cast_type(target, X):
    """type of `(target)X` (6.5.4)"""
    tt, _ = unq(target)
    t = value_type(X)
    if tt == VOID:
        return VOID
    if not is_scalar(tt) or not is_scalar(t):
        raise Invalid('cast needs scalar types')
    if (is_pointer(tt) and is_float(t)) or (is_float(tt) and is_pointer(t)):
        raise Invalid('cast between pointer and floating type')
    return tt


def expr_sizeof_value(X):
    return sizeof(unq(X.type)[0])


def enum_underlying(values_):
    """underlying type chosen for an enum without fixed type from its enumerator values (ASSUMPTIONS)"""
    lo, hi = min(values_), max(values_)
    if lo >= 0:
        for t, m in ((UINT, (1 << 32) - 1), (ULONG, (1 << 64) - 1)):
            if hi <= m:
                return t
    for t, b in ((INT, 31), (LONG, 63)):
        if lo >= -(1 << b) and hi < (1 << b):
            return t
    raise Invalid('no integer type represents all enumerators')
