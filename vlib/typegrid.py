"""typegrid: every way a type comes into being x every place a type is consumed (shared by C19 and C20)."""

# Every way a type comes into being (each constructor call site of type.c/decl.c/expr.c, reached through typeof) x every place a type is
# consumed: a field that one origin leaves unwritten shows as a difference under the allocator policies / MALLOC_PERTURB_ or as an MSan report.
TG_PRE = ('struct tg { int m; char arr[4]; int mm[2][3]; int bf : 3; const int c; } tgs, *tgp; union tgu { int i; float f; } tgun; enum tge { TG0, TG1 };\n'
          'int tgi; const int tgc = 1; volatile int tgv; int *tgip; int tga[4]; int tgaa[2][3]; extern int tginc[]; int tgf(int); void tgvf(void); int (*tgfp)(int);\n'
          'extern int tgcomp[]; extern int tgcomp[5]; int tgkr(int (*)[]); int tgkr(int (*)[4]); double tgd; float tgfl; _Bool tgb; long tgl; unsigned char tguc;\n'
          'struct tgal { char c; _Alignas(16) int m; int k; } tgals; union tgalu { _Alignas(32) char c[3]; short h; } tgalun;\n'
          'enum tgfe : short; enum tgfe { TGF0, TGF1 }; enum tgfu : unsigned char { TGU0 = 255 }; enum tgfe tgfev;\n')
TG_ORIGINS = [
    ('string', '"0123456789abcdef"'), ('wide-string', 'L"ab"'), ('u8-string', 'u8"ab"'), ('u16-string', 'u"ab"'), ('concat-string', '"ab" "cd"'), ('paren-string', '("ab")'),
    ('func-name', '__func__'), ('compound-array', '(int[]){1, 2, 3}'), ('compound-char-array', '(char[]){"ab"}'), ('compound-struct', '(struct tg){0}'), ('compound-scalar', '(int){1}'),
    ('array-object', 'tga'), ('array-row', 'tgaa[1]'), ('array-2d', 'tgaa'), ('member-array', 'tgs.arr'), ('member-array-ptr', 'tgp->arr'), ('member-2d-row', 'tgs.mm[1]'),
    ('incomplete-array', 'tginc'), ('composite-array', 'tgcomp'), ('deref-array-pointer', '*&tga'), ('function', 'tgf'), ('kr-composite-function', 'tgkr'), ('function-pointer', 'tgfp'),
    ('deref-function-pointer', '*tgfp'), ('address-of-function', '&tgf'), ('call', 'tgf(1)'), ('void-call', 'tgvf()'), ('address-of-object', '&tgi'), ('address-of-const', '&tgc'),
    ('address-of-array', '&tga'), ('address-of-member', '&tgs.m'), ('pointer-arith', 'tgip + 1'), ('pointer-diff', 'tgip - tgip'), ('sizeof', 'sizeof tgi'), ('alignof', '_Alignof(int)'),
    ('conditional-pointers', '1 ? tgip : (void *)0'), ('conditional-arith', '1 ? tgi : tgd'), ('conditional-const-pointers', '1 ? &tgc : tgip'), ('conditional-struct', '1 ? tgs : tgs'),
    ('comma', '(tgi, tgd)'), ('cast', '(unsigned char)tgi'), ('cast-pointer', '(const char *)tgip'), ('bit-field', 'tgs.bf'), ('const-member', 'tgs.c'), ('const-object', 'tgc'), ('volatile-object', 'tgv'),
    ('enum-constant', 'TG1'), ('enum-object', '(enum tge)1'), ('char-constant', "'a'"), ('wide-char-constant', "L'a'"), ('integer-constant', '1'), ('unsigned-long-constant', '1ul'),
    ('float-constant', '1.0f'), ('double-constant', '1.0'), ('long-double-constant', '1.0L'), ('bool', 'tgb'), ('promoted', '+tguc'), ('shift', 'tguc << tgl'), ('comparison', 'tgd < tgi'),
    ('logical', 'tgip && tgd'), ('assignment', 'tguc = tgi'), ('compound-assignment', 'tguc += 1'), ('increment', 'tgip++'), ('generic', '_Generic(tgi, int: tgd, default: tgi)'),
    ('offsetof', '__builtin_offsetof(struct tg, arr)'), ('va-list', '*(__builtin_va_list *)0'), ('nullptr', 'nullptr'), ('union-member', 'tgun.f'), ('struct-object', 'tgs'), ('forward-fixed-enum-object', 'tgfev'), ('forward-fixed-enum-constant', 'TGF1'), ('fixed-enum-constant', 'TGU0'), ('overaligned-struct', 'tgals'), ('overaligned-union', 'tgalun'), ('overaligned-member', 'tgals.m'), ('deref-struct-pointer', '*tgp'),
    ('subscript', 'tga[1]'), ('subscript-2d', 'tgaa[1][2]'), ('string-subscript', '"ab"[1]'), ('deref-string', '*"ab"'), ('address-of-string', '&"ab"'), ('address-of-compound', '&(int[2]){1, 2}'),
]
TG_CONSUMERS = [
    ('object', 'T o1;'), ('initialised-object', 'T o2 = {0};'), ('extern-object', 'extern T o3;'), ('pointer-to', 'T *o4;'), ('array-of', 'T o5[2];'), ('member', 'struct { int pre; T m; } o6;'),
    ('parameter', 'void c7(T p);'), ('parameter-used', 'void c8(T p) { typeof(p) *pp = &p; (void)pp; (void)sizeof(p); }'),
    ('parameter-assigned', 'void c9(T p) { typeof(p) q = p; p = q; }'), ('const-parameter', 'void c10(const T p) { (void)&p; }'),
    ('parameter-element-written', 'void c11(T p) { p[0] = 0; }'), ('return-type', 'T c12(void);'), ('sizeof-alignof', 'unsigned long c13 = sizeof(T) + _Alignof(T);'),
    ('cast-to', 'void c14(void) { (void)(T)0; }'), ('compound-literal-of', 'void c15(void) { (void)(T){0}; }'), ('generic-association', 'int c16 = _Generic((T *)0, T *: 1, default: 2);'),
    ('typeof-again', 'typeof(T) o17; typeof_unqual(T) o18;'), ('pointer-compat', 'void c19(T *a, typeof(T) *b) { a = b; }'), ('static-local', 'void c20(void) { static T sl; (void)&sl; }'),
    ('function-returning-pointer-to', 'T *c21(T *p) { return p; }'), ('redeclaration', 'extern T o22; extern T o22;'), ('typedef-chain', 'typedef T T2; typedef T2 T3; T3 *o23;'),
    ('auto-object', 'void c24(void) { T al; (void)&al; }'), ('auto-initialised', 'void c25(void) { T ai = {0}; (void)&ai; }'), ('va-arg', 'void c26(int n, ...) { __builtin_va_list ap; __builtin_va_start(ap, n); (void)__builtin_va_arg(ap, T); __builtin_va_end(ap); }'),
    ('types-compatible', 'int c27 = __builtin_types_compatible_p(T, typeof(T));'), ('array-of-pointers', 'T *o28[3];'), ('pointer-incremented', 'void *c30(T *p) { ++p; p--; return p; }'), ('pointer-subscripted', 'void *c31(T *p) { return &p[2]; }'), ('function-pointer-parameter', 'void (*o29)(T, T *);'),
    # constants of the type in folded operators (the folder reads signedness and width from the type: seeded round 8, a pointer type has neither)
    ('folded-compare', 'int c32 = (T)-1 > (T)1; int c33 = (T)-1 <= (T)1; char c34[((T)-1 < (T)1) + 1]; enum { c35 = (T)-1 >= (T)1, c36 = (T)1 == (T)1, c37 = (T)-1 != (T)1 };'),
    ('folded-arithmetic', 'long c38 = (long)((T)-8 / (T)2); long c39 = (long)((T)-8 >> 1); long c40 = (long)((T)-8 % (T)3); long c41 = (long)((T)3 - (T)1); long c42 = (long)-(T)1;'),
    ('folded-logical', 'int c43 = !(T)0 + ((T)1 && (T)0) + ((T)0 || (T)2) + ((T)0 ? 1 : 2); _Static_assert(!(T)0, "");'),
    ('alignas-type', '_Alignas(T) int c47 = 1; void c48(void) { _Alignas(T) char l = 0; (void)&l; }'),
    ('pointer-dereferenced', 'long c49(T *p) { return (long)*p; } void c50(T *p, T *q) { *p = *q; }'),
    ('folded-conversion', 'long c44 = (long)(T)(unsigned char)300; double c45 = (double)(T)-1; unsigned long c46 = (unsigned long)(T)-1.5;'),
]


# consumers of the VALUE of the origin expression (E), typed through T
TG_VALUE_CONSUMERS = [
    ('value-returned', 'T c60(void) { return E; }'), ('value-stored', 'void c61(void) { T v = E; (void)&v; }'), ('value-passed', 'void c62s(T); void c62(void) { c62s(E); }'),
    ('value-conditional', 'void c63(int n) { T v = n ? E : E; (void)&v; }'), ('value-compared', 'int c64(void) { return E == E; }'),
    ('value-variadic', 'int c65v(int, ...); int c65(void) { return c65v(1, E); }'), ('value-discarded', 'void c66(void) { (void)E; E; }'),
    ('value-tested', 'int c67(void) { if (E) return 1; return !E; }'), ('value-static-initialiser', 'void c68(void) { static T v = E; (void)&v; }'),
]


def typegrid(quick):
    for on, oe in TG_ORIGINS:
        for un, unq in (('typeof', 'typeof'), ('typeof_unqual', 'typeof_unqual')):
            if quick and un == 'typeof_unqual' and on not in ('const-object', 'volatile-object', 'const-member', 'address-of-const', 'string', 'array-object', 'conditional-const-pointers'):
                continue
            head = TG_PRE + 'void tgscope(void) { typedef %s(%s) Tin; Tin *x = 0; (void)x; }\n' % (unq, oe) if on == 'func-name' else TG_PRE
            tdef = 'typedef %s(%s) T;\n' % (unq, oe)
            if on == 'func-name':
                # __func__ only exists inside a function: every consumer that can be written at block scope is placed there
                for cn, ct in TG_CONSUMERS:
                    if ct.startswith('void c') or ct.startswith('T *c') or ct.startswith('T c12'):
                        continue
                    yield ('typegrid/%s/%s/%s' % (un, on, cn), (TG_PRE + 'void tgscope(void) { %s %s }\n' % (tdef.strip(), ct)).encode())
                continue
            for cn, ct in TG_CONSUMERS:
                yield ('typegrid/%s/%s/%s' % (un, on, cn), (head + tdef + ct + '\n').encode())
            if un == 'typeof':
                for cn, ct in TG_VALUE_CONSUMERS:
                    yield ('typegrid/%s/%s/%s' % (un, on, cn), (head + tdef + ct.replace('E', '(' + oe + ')') + '\n').encode())
