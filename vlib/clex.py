"""clex: reference lexer written from C11 6.4 (translation phases 2-3 and maximal munch).

tokens(text) -> list of (class, spelling) with class in
  ident | number | char | string | punct | other
Digraphs are NOT punctuators here (documented as not implemented by cproc); `::` is (C23).
"""
import re

PUNCTUATORS = [
    '[', ']', '(', ')', '{', '}', '.', '->', '++', '--', '&', '*', '+', '-', '~', '!', '/', '%', '<<', '>>', '<', '>',
    '<=', '>=', '==', '!=', '^', '|', '&&', '||', '?', ':', '::', ';', '...', '=', '*=', '/=', '%=', '+=', '-=', '<<=',
    '>>=', '&=', '^=', '|=', ',', '#', '##',
]
_P = sorted(PUNCTUATORS, key=len, reverse=True)

DIGRAPHS = ('<:', ':>', '<%', '%>', '%:')
TRIGRAPH = re.compile(r'\?\?[=/\'()!<>-]')

C11_KEYWORDS = '''auto break case char const continue default do double else enum extern float for goto if inline int long
register restrict return short signed sizeof static struct switch typedef union unsigned void volatile while
_Alignas _Alignof _Atomic _Bool _Complex _Generic _Imaginary _Noreturn _Static_assert _Thread_local'''.split()

# spellings that MAY be keywords (C23 additions and GNU alternates): canonical keyword they must then denote
MAY_KEYWORDS = {
    'alignas': '_Alignas', 'alignof': '_Alignof', 'bool': '_Bool', 'static_assert': '_Static_assert',
    'thread_local': '_Thread_local', 'constexpr': None, 'false': None, 'true': None, 'nullptr': None,
    'typeof': None, 'typeof_unqual': None, '_BitInt': None, '_Decimal32': None, '_Decimal64': None, '_Decimal128': None,
    '__asm': '__asm__', '__asm__': None, 'asm': '__asm__', '__attribute__': None, '__attribute': '__attribute__',
    '__inline': 'inline', '__inline__': 'inline', '__signed': 'signed', '__signed__': 'signed',
    '__typeof': 'typeof', '__typeof__': 'typeof', '__volatile': 'volatile', '__volatile__': 'volatile',
    '__const': 'const', '__const__': 'const', '__restrict': 'restrict', '__restrict__': 'restrict',
    '__alignof': '_Alignof', '__alignof__': '_Alignof', '__thread': '_Thread_local', '__extension__': None,
    '__complex__': '_Complex', '__real__': None, '__imag__': None, '__label__': None, '__auto_type': None,
    '__builtin_va_list': None, '__int128': None, '_Float16': None, '_Float32': None, '_Float64': None, '_Float128': None,
    '__func__': None, '__FUNCTION__': None, '__PRETTY_FUNCTION__': None, '_Nonnull': None, '_Nullable': None,
}

_ident = re.compile(r'[A-Za-z_][A-Za-z0-9_]*')
_ppnum = re.compile(r'\.?[0-9](?:[eEpP][+-]|[0-9A-Za-z_.])*')
_ws = ' \t\f\v'


def phase2(text):
    return text.replace('\\\n', '')


def tokens(text, splice=True):
    """Token list of `text` (str); raises ValueError for an unterminated comment/literal."""
    if splice:
        text = phase2(text)
    out = []
    i, n = 0, len(text)
    while i < n:
        c = text[i]
        if c in _ws or c == '\n':
            i += 1
            continue
        if text.startswith('/*', i):
            j = text.find('*/', i + 2)
            if j < 0:
                raise ValueError('unterminated comment')
            i = j + 2
            continue
        if text.startswith('//', i):
            j = text.find('\n', i)
            i = n if j < 0 else j
            continue
        # string / char literal with optional prefix
        m = re.match(r'(u8|u|U|L)?(["\'])', text[i:])
        if m:
            q = m.group(2)
            j = i + m.end()
            while True:
                if j >= n or text[j] == '\n':
                    raise ValueError('unterminated literal')
                if text[j] == '\\':
                    j += 2
                    continue
                if text[j] == q:
                    j += 1
                    break
                j += 1
            out.append(('string' if q == '"' else 'char', text[i:j]))
            i = j
            continue
        m = _ppnum.match(text, i)
        if m:
            out.append(('number', m.group()))
            i = m.end()
            continue
        m = _ident.match(text, i)
        if m:
            out.append(('ident', m.group()))
            i = m.end()
            continue
        for p in _P:
            if text.startswith(p, i):
                out.append(('punct', p))
                i += len(p)
                break
        else:
            out.append(('other', c))
            i += 1
    return out


def has_digraph(s):
    return any(d in s for d in DIGRAPHS)


def has_trigraph(s):
    return TRIGRAPH.search(s) is not None
