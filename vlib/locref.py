"""locref — reference model for presumed source locations (DESIGN.md E.7, property C11).

From C11 5.1.1.2 (phases 1-4), 6.10.4 (#line) and the GNU line-marker convention `# n "file" flags`:

  * physical lines are counted by new-line characters; a backslash-newline splice and a new-line inside a
    block comment end a physical line like any other;
  * `#line n ["f"]` and `# n "f" [flags]` give the physical line FOLLOWING the directive the presumed
    number n (and the presumed file f); every later physical line counts on from there;
  * a directive is a logical line (after splicing, comments replaced by a space) whose first token is `#`
    and which does not start inside a block comment;
  * the presumed location of a token is that of the physical line on which its first character stands.

`presumed(text)` returns one record per physical line.
"""
import re

_marker = re.compile(rb'^[ \t]*#[ \t]*(line[ \t]+)?([0-9]+)[ \t]*(?:"([^"\n]*)")?((?:[ \t]+[0-9]+)*)[ \t]*$')


class Line:
    __slots__ = ('file', 'line', 'inside', 'since', 'base', 'directive')

    def __init__(self, file, line, inside, since, base):
        self.file = file        # presumed file name (str)
        self.line = line        # presumed line number
        self.inside = inside    # '' | 'splice' (continuation of a spliced logical line) | 'comment' (starts inside /* */)
        self.since = since      # physical lines since the last line directive took effect (or since the start)
        self.base = base        # index of the physical line that ended the last effective line directive, or -1
        self.directive = False  # this physical line ends a logical line that is a line directive

    def __repr__(self):
        return '%s:%d%s' % (self.file, self.line, '[' + self.inside + ']' if self.inside else '')


def _strip_comments(logical, in_comment):
    """Replace comments by spaces in one logical line; returns (text, still inside a block comment)."""
    out = bytearray()
    i, n = 0, len(logical)
    quote = 0
    while i < n:
        c = logical[i]
        if in_comment:
            if c == 0x2a and i + 1 < n and logical[i + 1] == 0x2f:      # */
                in_comment = False
                out += b' '
                i += 2
            else:
                i += 1
            continue
        if quote:
            out.append(c)
            if c == 0x5c and i + 1 < n:
                out.append(logical[i + 1])
                i += 2
                continue
            if c == quote:
                quote = 0
            i += 1
            continue
        if c in (0x22, 0x27):
            quote = c
            out.append(c)
            i += 1
        elif c == 0x2f and i + 1 < n and logical[i + 1] == 0x2a:        # /*
            in_comment = True
            i += 2
        elif c == 0x2f and i + 1 < n and logical[i + 1] == 0x2f:        # //
            break
        else:
            out.append(c)
            i += 1
    # an unterminated quote ends with the logical line (6.4: undefined, every compiler resynchronises there)
    return bytes(out), in_comment


def presumed(text, initial='<stdin>'):
    """[Line] for every physical line of `text` (bytes); a final line without new-line counts too."""
    phys = text.split(b'\n')
    if phys and phys[-1] == b'':
        phys.pop()
    out = []
    file, line = initial, 1
    since, base = 0, -1
    in_comment = False
    i, n = 0, len(phys)
    while i < n:
        j = i
        while phys[j].endswith(b'\\') and j + 1 < n:
            j += 1
        logical = b''.join(p[:-1] if k < j and p.endswith(b'\\') else p for k, p in zip(range(i, j + 1), phys[i:j + 1]))
        started_in_comment = in_comment
        stripped, in_comment = _strip_comments(logical, in_comment)
        for k in range(i, j + 1):
            out.append(Line(file, line + (k - i), 'splice' if k > i else 'comment' if started_in_comment else '', since + (k - i), base))
        m = None if started_in_comment else _marker.match(stripped)
        if m:
            out[-1].directive = True
            line = int(m.group(2))
            if m.group(3) is not None:
                file = m.group(3).decode('latin-1')
            since, base = 0, j
        else:
            line += j - i + 1
            since += j - i + 1
        i = j + 1
    return out
