"""Common check driver: tiers, deadline, evidence, violations, replay dirs, known findings."""
import argparse
import hashlib
import json
import os
import re
import shlex
import shutil
import sys
import time

from . import build

VERIF = build.VERIF
KNOWN = os.path.join(VERIF, 'known_findings.jsonl')
MAX_REPLAYS = 20


def load_known(pid):
    out = []
    if os.path.exists(KNOWN):
        for ln in open(KNOWN):
            ln = ln.strip()
            if not ln or ln.startswith('#'):
                continue
            e = json.loads(ln)
            if e.get('property') == pid and e.get('status') == 'known':
                out.append(e)
    return out


class Check:
    def __init__(self, pid, level, argv=None):
        ap = argparse.ArgumentParser(prog='vcheck ' + pid)
        ap.add_argument('--tier', default=os.environ.get('VERIF_TIER', 'quick'), choices=['quick', 'thorough'])
        ap.add_argument('--replay')
        ap.add_argument('--only', help='restrict to the named strata (comma separated); evidence is still written')
        a = ap.parse_args(argv)
        self.pid, self.level, self.tier = pid, level, a.tier
        self.replay_path = a.replay
        self.only = set(a.only.split(',')) if a.only else None
        self.quick = self.tier == 'quick'
        try:
            self.seed = int(os.environ.get('VERIF_SEED', '0'))
        except ValueError:
            self.seed = 0
        self.t0 = time.time()
        dl = os.environ.get('VERIF_DEADLINE_S')
        self.deadline = self.t0 + (float(dl) if dl else (600 if self.quick else 2400))
        self.deadline_hit = False
        self.viol = {}      # key -> info (unknown)
        self.known_hit = {}  # entry index -> count
        self.known = load_known(pid)
        self.known_examples = {}
        self.nviol = 0
        self.notes = []
        self.strata = {}
        self.assumptions = []
        print('[%s] tier=%s repo=%s srchash=%s' % (pid, self.tier, build.repo(), build.srchash()), flush=True)

    # -- time ---------------------------------------------------------------
    def time_left(self):
        return self.deadline - time.time()

    def expired(self):
        if time.time() > self.deadline:
            self.deadline_hit = True
            return True
        return False

    def want(self, stratum):
        return self.only is None or stratum in self.only

    def log(self, msg):
        print('[%s +%.1fs] %s' % (self.pid, time.time() - self.t0, msg), flush=True)

    # -- violations -----------------------------------------------------------
    def _match_known(self, key):
        for i, e in enumerate(self.known):
            if e.get('key') == key:
                return i
            kr = e.get('key_re')
            if kr and re.fullmatch(kr, key):
                return i
        return None

    def violation(self, key, what, files=None, cmd=None, detail=None):
        """Report one violating case. `key` identifies the root-cause family narrowly
        (it is what known_findings.jsonl is matched against)."""
        i = self._match_known(key)
        if os.environ.get('VERIF_DUMP_CASES'):      # triage aid: every case with its key, one per line
            with open(os.environ['VERIF_DUMP_CASES'], 'a') as f:
                src = (files or {}).get('input.c', b'')
                f.write('%s\t%s\t%s\n' % (key, what.replace('\n', ' ')[:300], (src.decode('latin-1') if isinstance(src, bytes) else str(src)).replace('\n', ' ')[-400:]))
        if i is not None:
            self.known_hit[i] = self.known_hit.get(i, 0) + 1
            ex = self.known_examples.setdefault(i, [])
            if len(ex) < 40:
                ex.append((key, what, files or {}, cmd))
            return False
        self.nviol += 1
        if key in self.viol:
            self.viol[key]['count'] += 1
            return True
        self.viol[key] = {'count': 1, 'what': what, 'files': files or {}, 'cmd': cmd, 'detail': detail}
        return True

    def _write_replay(self, key, info):
        safe = re.sub(r'[^A-Za-z0-9_.+-]+', '_', key)[:80] + '-' + hashlib.sha1(key.encode()).hexdigest()[:8]
        d = os.path.join(VERIF, 'replays', self.pid, safe)
        shutil.rmtree(d, ignore_errors=True)
        os.makedirs(d)
        for name, data in info['files'].items():
            with open(os.path.join(d, name), 'wb') as f:
                f.write(data if isinstance(data, bytes) else str(data).encode())
        with open(os.path.join(d, 'why.txt'), 'w') as f:
            f.write('property: %s\nkey: %s\nwhat: %s\ncount: %d\n' % (self.pid, key, info['what'], info['count']))
            if info['detail']:
                f.write('\n' + str(info['detail']) + '\n')
        if info['cmd']:
            with open(os.path.join(d, 'cmd.sh'), 'w') as f:
                f.write('#!/bin/sh\n# replay without the explorer; CPROC_QBE defaults to a fresh plain build of the repo\n'
                        'cd "$(dirname "$0")"\n: ${CPROC_QBE:=%s}\nexport CPROC_QBE\n%s\n' % (
                            shlex.quote(os.path.join(build.root(), 'plain', 'cproc-qbe')), info['cmd']))
            os.chmod(os.path.join(d, 'cmd.sh'), 0o755)
        return d

    # -- finish -----------------------------------------------------------
    def finish(self, coverage, assumptions=None):
        cov = dict(coverage)
        cov.setdefault('exhaustive', not self.deadline_hit)
        if self.deadline_hit:
            cov['exhaustive'] = False
        cov['deadline_hit'] = self.deadline_hit
        if self.strata:
            cov['strata'] = self.strata
        if self.notes:
            cov['notes'] = self.notes
        cov['srchash'] = build.srchash()
        cov['repo'] = build.repo()
        # A known finding covers the cases that were there when it was recorded (per tier, bin/recount), not whatever else starts to
        # fall into the same family later: more cases than recorded is a new violation.  (Only when no --only restriction narrows the run.)
        for i, n in sorted(self.known_hit.items()):
            e = self.known[i]
            rec = (e.get('cases') or {}).get(self.tier)
            if rec is not None and n > rec and self.only is None:
                k0 = e.get('key') or e.get('key_re')
                exs = self.known_examples.get(i, [])
                ex = exs[-1] if exs else (k0, '', {}, None)
                self.nviol += n - rec
                self.viol['%s/more-cases-than-recorded' % k0] = {
                    'count': n - rec, 'files': ex[2], 'cmd': ex[3], 'detail': '\n'.join('%s: %s' % (x[0], x[1]) for x in exs[-10:]),
                    'what': 'the known finding %r covers %d cases in the %s tier (known_findings.jsonl), this run has %d; one of the cases: %s' % (k0, rec, self.tier, n, ex[1][:300])}
        for i, n in sorted(self.known_hit.items()):
            e = self.known[i]
            print('KNOWN-FINDING: property=%s %s (%d cases; key=%s)' % (self.pid, e.get('what', ''), n, e.get('key') or e.get('key_re')))
        cov['known_findings_reobserved'] = [
            {'key': self.known[i].get('key') or self.known[i].get('key_re'), 'cases': n} for i, n in sorted(self.known_hit.items())]
        n = 0
        vlist = []
        for key, info in sorted(self.viol.items(), key=lambda kv: (len(kv[0]), kv[0])):
            if n < MAX_REPLAYS:
                d = self._write_replay(key, info)
                print('VIOLATION property=%s replay=%s' % (self.pid, d))
                print('  key=%s: %s (%d cases)' % (key, info['what'], info['count']))
                n += 1
            vlist.append({'key': key, 'what': info['what'], 'cases': info['count']})
        if len(self.viol) > MAX_REPLAYS:
            print('(%d further violation families not written out)' % (len(self.viol) - MAX_REPLAYS))
        cov['violation_families'] = vlist[:50]
        ev = {
            'property_id': self.pid,
            'tier': self.tier,
            'seed': self.seed,
            'level': self.level,
            'coverage': cov,
            'assumptions': list(assumptions or []) + self.assumptions,
            'wall_s': round(time.time() - self.t0, 2),
            'violations': self.nviol,
        }
        bad = None
        try:
            check_evidence(ev)
        except Exception as e:  # evidence must still be written; an incomplete one is an infrastructure error
            bad = e
        evdir = os.environ.get('VERIF_EVIDENCE_DIR') or os.path.join(VERIF, 'evidence')
        os.makedirs(evdir, exist_ok=True)
        p = os.path.join(evdir, self.pid + '.json')
        with open(p + '.tmp', 'w') as f:
            json.dump(ev, f, indent=1, default=_default)
            f.write('\n')
        os.rename(p + '.tmp', p)
        try:
            build.touch()
            build.prune()
        except Exception:
            pass
        self.log('done: violations=%d known=%d wall=%.1fs exhaustive=%s' % (
            self.nviol, sum(self.known_hit.values()), ev['wall_s'], cov['exhaustive']))
        if bad is not None:
            print('evidence incomplete:', repr(bad))
            return 1 if self.nviol else 2
        return 1 if self.nviol else 0


class SubjectFailure(Exception):
    """The code under test made a harness or an execution pipeline fail in a way the check has no finer classification for
    (a container harness dies, the driver explorer returns nothing, emitted IL cannot be translated or compiled).  On the unchanged
    tree none of these happens, so this is reported as a violation (exit 1), never as an infrastructure error."""

    def __init__(self, key, what, files=None, cmd=None):
        Exception.__init__(self, what)
        self.key, self.what, self.files, self.cmd = key, what, files or {}, cmd


def abort_with(chk, e):
    chk.violation(e.key, e.what, files=e.files, cmd=e.cmd)
    chk.deadline_hit = True      # the run is not exhaustive
    cov = {'states': 1, 'transitions': 1, 'traces_validated_against_impl': 0, 'evaluations': 1, 'distinct_nontrivial': 2,
           'rule': 'aborted: the code under test made the harness fail before the exploration finished', 'samples': [{'aborted': e.what[:500]}]}
    return chk.finish(cov, ['aborted run: coverage figures are placeholders'])


def _default(o):
    if isinstance(o, bytes):
        return o.decode('latin-1')
    if isinstance(o, (set, frozenset)):
        return sorted(o)
    return str(o)


def check_evidence(ev):
    """Minimal structural validation mirroring EVIDENCE.schema.json (jsonschema may be absent)."""
    c = ev['coverage']
    lvl = ev['level']
    mc = all(k in c for k in ('states', 'transitions', 'traces_validated_against_impl', 'samples'))
    if lvl == 'model_checking' and mc:
        assert c['states'] >= 1 and c['transitions'] >= 1 and len(c['samples']) >= 1, 'model_checking evidence incomplete'
    else:
        for k in ('evaluations', 'distinct_nontrivial', 'rule', 'samples'):
            assert k in c, 'evidence lacks ' + k
        assert c['evaluations'] >= 1 and c['distinct_nontrivial'] >= 2 and len(c['samples']) >= 1
    try:
        import jsonschema  # only in the tooling venv
        sch = json.load(open(os.path.join(VERIF, 'schemas', 'EVIDENCE.schema.json')))
        jsonschema.validate(json.loads(json.dumps(ev, default=_default)), sch)
    except ImportError:
        pass


def replay_dir(path):
    """Generic replay: run the directory's cmd.sh (exit 1 = reproduces)."""
    import subprocess
    build.get('plain')
    cmd = os.path.join(path, 'cmd.sh')
    if not os.path.exists(cmd):
        print('no cmd.sh in', path)
        return 2
    return subprocess.call(['sh', cmd])
