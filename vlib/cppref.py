"""cppref — reference model R for macro definition and expansion (property C12, DESIGN.md E.4).

Prosser's algorithm with hide sets, restricted to the subset cproc implements:
object-like, function-like and variadic macros, `#` stringification, #undef, benign / incompatible
redefinition (C11 6.10.3p2, white-space separation significant), null directive, #pragma, #line.
`##`, the #if family, #include and #error are outside the subset: a translation unit using them
must be *rejected* (reason 'oos-...').

The model works on source bytes with its own small tokenizer (translation phases 2-3 for the alphabets
the check uses: no trigraphs, no digraphs, no universal character names).

    run(src)      -> Outcome   (one evaluation with the default = Prosser choice at every unspecified point)
    allowed(src)  -> (Outcome, set of token tuples)  every result C11 6.10.3.4p4 permits (see below)
    lex(text)     -> [(spelling, class, space)]  classes: ident number string char punct other nl

Unspecified behaviour (6.10.3.4p4, "f(2)(9)"): when the `)` that ends a function-like invocation does not
carry every macro name that hides the macro-name token (the invocation extends beyond the replacement list
it started in), it is unspecified whether the replacement is nested.  Each such *decision point* has two
outcomes: hide set (HS(T) ∩ HS(')')) ∪ {T} (Prosser; also what GNU cpp does) or HS(T) ∪ {T} (nested).
`allowed` enumerates all of them.

Undefined behaviour (a directive inside macro arguments, 6.10.3p11; stringification that does not yield a
valid string literal, 6.10.3.2p2) gives Outcome.status == 'undefined' — the caller must not judge the case.

States and transitions (DESIGN.md 2.3) are counted while the model runs: pass a `Stats` object.
"""
import re

# ---------------------------------------------------------------------------
# tokenizer

_TOKEN_RE = re.compile(r'''
 (?P<ws>[ \t\f\v]+|/\*.*?\*/|//[^\n]*)
|(?P<nl>\n)
|(?P<string>(?:u8|u|U|L)?"(?:[^"\\\n]|\\.)*")
|(?P<char>(?:u|U|L)?'(?:[^'\\\n]|\\.)+')
|(?P<number>\.?[0-9](?:[eEpP][+-]|[0-9A-Za-z_.])*)
|(?P<ident>[A-Za-z_][A-Za-z0-9_]*)
|(?P<punct>\.\.\.|<<=|>>=|->|\+\+|--|<<|>>|<=|>=|==|!=|&&|\|\||[-+*/%&^|]=|\#\#|[\]\[(){}.&*+\-~!/%<>^|?:;=,\#])
|(?P<other>.)
''', re.X | re.S)

EMPTY = frozenset()
NL = ('\n', 'nl', False, EMPTY, None)

KEYWORDS = frozenset('''auto break case char const continue default do double else enum extern float for goto if
inline int long register restrict return short signed sizeof static struct switch typedef union unsigned void
volatile while _Alignas _Alignof _Atomic _Bool _Complex _Generic _Imaginary _Noreturn _Static_assert
_Thread_local'''.split())

_lexcache = {}


def lex(text):
    """Tokenize `text` (str, phases 1-2 already done).  Returns a list of 5-tuples
    (spelling, class, space-before, hide-set, origin); newlines are ('\\n','nl',...) tokens."""
    out = []
    space = False
    for m in _TOKEN_RE.finditer(text):
        k = m.lastgroup
        if k == 'ws':
            space = True
            continue
        if k == 'nl':
            out.append(NL)
            space = False
            continue
        out.append((m.group(), k, space, EMPTY, None))
        space = False
    return out


def lex_source(src):
    """Phases 2 and 3 on a whole source file (bytes or str)."""
    if isinstance(src, bytes):
        src = src.decode('latin-1')
    if '\\\n' in src:
        src = src.replace('\\\n', '')
    if '/*' in src or len(src) > 4000:
        return lex(src)
    out = []
    for ln in src.split('\n'):
        t = _lexcache.get(ln)
        if t is None:
            t = lex(ln)
            if len(_lexcache) < 200000:
                _lexcache[ln] = t
        out.extend(t)
        out.append(NL)
    out.pop()  # the text after the last '\n' has no newline of its own
    return out


def plain(tokens):
    """[(class, spelling)] as compared with the compiler's observation."""
    return tuple((t[1], t[0]) for t in tokens)


def relex(text):
    """Token list (class, spelling) of preprocessed text (used for `-E` output and for GNU cpp output)."""
    if isinstance(text, bytes):
        text = text.decode('latin-1')
    return tuple((t[1], t[0]) for t in lex(text) if t[1] != 'nl')


def render(tokens):
    """Source text for a (class, spelling) or 5-tuple token list with one space between all tokens."""
    return ' '.join(t[0] if len(t) != 2 else t[1] for t in tokens)


# ---------------------------------------------------------------------------


class Reject(Exception):
    def __init__(self, reason):
        Exception.__init__(self, reason)
        self.reason = reason


class Undefined(Exception):
    def __init__(self, reason):
        Exception.__init__(self, reason)
        self.reason = reason


class Stats:
    """Counts reference-machine states and transitions (sets of hashes, mergeable across processes)."""

    def __init__(self):
        self.states = set()
        self.transitions = set()
        self.kinds = {}

    def merge(self, other):
        self.states |= other.states
        self.transitions |= other.transitions
        for k, v in other.kinds.items():
            self.kinds[k] = self.kinds.get(k, 0) + v


class Macro:
    __slots__ = ('name', 'func', 'params', 'variadic', 'body', 'sig', 'uid', 'used', 'haskw')


class Outcome:
    __slots__ = ('status', 'tokens', 'reason', 'flags', 'decisions', 'defined')

    def __init__(self, status, tokens, reason, flags, decisions, defined):
        self.status = status      # 'ok' | 'reject' | 'undefined'
        self.tokens = tokens      # tuple of (class, spelling)
        self.reason = reason
        self.flags = flags
        self.decisions = decisions
        self.defined = defined    # names ever #defined (for the witness's #undef lines)

    def __repr__(self):
        return 'Outcome(%s, %s, %r, %s)' % (self.status, self.reason, render(self.tokens or ()), sorted(self.flags))


OOS_DIRECTIVES = ('if', 'ifdef', 'ifndef', 'elif', 'else', 'endif', 'include', 'error')


class Run:
    def __init__(self, stats=None, policy=(), stale_paint=False):
        self.macros = {}
        self.stats = stats
        self.policy = policy
        self.decisions = 0
        self.flags = set()
        self.tabhash = hash(())
        self.stale_paint = stale_paint
        self.stale = set()
        self.uid = 0
        self.defined = []

    # -- statistics ----------------------------------------------------------
    def _st(self, hs, depth, kind):
        s = self.stats
        h = hash((self.tabhash, hs, depth))
        s.states.add(h)
        s.transitions.add(hash((h, kind)))
        s.kinds[kind] = s.kinds.get(kind, 0) + 1

    def _newtable(self):
        self.tabhash = hash(tuple(sorted((n, m.sig) for n, m in self.macros.items())))

    # -- directives ----------------------------------------------------------
    def _directive(self, src, i):
        """src[i] is a '#' at the beginning of a line.  Returns the index just after the line."""
        n = len(src)
        j = i + 1
        while j < n and src[j][1] != 'nl':
            j += 1
        line = src[i + 1:j]
        nxt = j + 1 if j < n else j
        if not line:
            return nxt  # null directive
        d = line[0]
        if d[1] != 'ident':
            if d[1] == 'number':
                raise Undefined('gnu-line-marker')
            raise Reject('bad-directive')
        name = d[0]
        if name == 'define':
            self._define(line[1:])
        elif name == 'undef':
            if len(line) < 2 or line[1][1] != 'ident':
                raise Reject('undef-no-name')
            if len(line) > 2:
                raise Reject('undef-extra-tokens')
            if line[1][0] in ('defined', '__VA_ARGS__'):
                raise Undefined('undef-reserved')
            if self.macros.pop(line[1][0], None) is not None:
                self._newtable()
        elif name in OOS_DIRECTIVES:
            raise Reject('oos-directive-' + name)
        elif name == 'pragma':
            pass
        elif name == 'line':
            if len(line) in (2, 3) and line[1][1] == 'number' and line[1][0].isdigit() and \
                    (len(line) == 2 or (line[2][1] == 'string' and line[2][0][0] == '"')):
                pass
            else:
                raise Undefined('line-directive-form')
        else:
            raise Reject('bad-directive')
        return nxt

    def _define(self, line):
        if not line or line[0][1] != 'ident':
            raise Reject('define-no-name')
        name = line[0][0]
        if name == 'defined':
            raise Undefined('define-defined')   # 6.10.8.4: "shall not" outside a Constraints section
        if name == '__VA_ARGS__':
            raise Reject('va-args-as-macro-or-parameter-name')
        m = Macro()
        m.name = name
        m.params = ()
        m.variadic = False
        m.used = 0
        rest = line[1:]
        if rest and rest[0][0] == '(' and rest[0][1] == 'punct' and not rest[0][2]:
            m.func = True
            params = []
            k = 1
            # parameter list: [ident {, ident}] [, ...] | ...
            if k < len(rest) and rest[k][0] == ')':
                k += 1
            else:
                while True:
                    if k >= len(rest):
                        raise Reject('bad-param-list')
                    t = rest[k]
                    if t[0] == '...' and t[1] == 'punct':
                        m.variadic = True
                        params.append('__VA_ARGS__')
                        k += 1
                        if k >= len(rest) or rest[k][0] != ')':
                            raise Reject('bad-param-list')
                        k += 1
                        break
                    if t[1] != 'ident':
                        raise Reject('bad-param-list')
                    if t[0] == '__VA_ARGS__':
                        raise Reject('va-args-as-macro-or-parameter-name')
                    if t[0] in params:
                        raise Reject('dup-param')
                    params.append(t[0])
                    k += 1
                    if k >= len(rest):
                        raise Reject('bad-param-list')
                    if rest[k][0] == ')' and rest[k][1] == 'punct':
                        k += 1
                        break
                    if rest[k][0] != ',' or rest[k][1] != 'punct':
                        raise Reject('bad-param-list')
                    k += 1
            m.params = tuple(params)
            body = rest[k:]
        else:
            m.func = False
            body = rest
            if body and not body[0][2]:
                raise Reject('no-space-after-object-name')   # 6.10.3p3
        # replacement list
        comp = []
        m.haskw = False
        k = 0
        nb = len(body)
        while k < nb:
            t = body[k]
            sp = t[0]
            if t[1] == 'punct' and sp == '##':
                raise Reject('oos-hashhash')
            if t[1] == 'ident':
                if sp == '__VA_ARGS__' and not m.variadic:
                    raise Reject('va-args-outside-variadic' + ('/first-body-token' if k == 0 else ''))
                if sp in KEYWORDS:
                    m.haskw = True
            if m.func and t[1] == 'punct' and sp == '#':
                if k + 1 >= nb or body[k + 1][1] != 'ident' or body[k + 1][0] not in m.params:
                    if k + 1 < nb and body[k + 1][0] == '__VA_ARGS__':
                        raise Reject('va-args-outside-variadic')
                    raise Reject('hash-not-followed-by-param')
                comp.append(('#' + body[k + 1][0], 'string', t[2], 2, m.params.index(body[k + 1][0]), body[k + 1][2]))
                k += 2
                continue
            if m.func and t[1] == 'ident' and sp in m.params:
                comp.append((sp, 'ident', t[2], 1, m.params.index(sp)))
            else:
                comp.append((sp, t[1], t[2], 0, -1))
            k += 1
        m.body = comp
        # 6.10.3p2 identity: kind, parameters (number, order, spelling), tokens, white-space separation
        m.sig = (m.func, m.params, tuple((c[0], c[1], c[2] if x else False, c[5:]) for x, c in enumerate(comp)))
        old = self.macros.get(name)
        if old is not None:
            if old.sig != m.sig:
                if old.func != m.func:
                    raise Reject('redef-kind')
                if old.params != m.params:
                    raise Reject('redef-params')
                if tuple(c[:2] for c in old.sig[2]) != tuple(c[:2] for c in m.sig[2]):
                    raise Reject('redef-body')
                raise Reject('redef-space')
            self.flags.add('benign-redefinition')
        self.uid += 1
        m.uid = self.uid
        self.macros[name] = m
        if name not in self.defined:
            self.defined.append(name)
        self._newtable()

    # -- expansion -----------------------------------------------------------
    def _expand(self, src, top, depth):
        macros = self.macros
        stats = self.stats
        pend = []   # tokens produced by replacement, to be rescanned (stack: next token last)
        out = []
        i = 0
        n = len(src)
        dirstart = self.dirstart if top else ()
        while True:
            if pend:
                t = pend.pop()
                frompend = True
            elif i < n:
                if top and i in dirstart:
                    i = self._directive(src, i)
                    macros = self.macros
                    continue
                t = src[i]
                i += 1
                if t[1] == 'nl':
                    continue
                frompend = False
            else:
                break
            if t[1] != 'ident':
                out.append(t)
                continue
            name = t[0]
            hs = t[3]
            m = macros.get(name)
            if m is None:
                if stats is not None:
                    self._st(hs, depth, 'emit-not-a-macro')
                if self.stale_paint and t[4] is not None:
                    self.stale.add(t[4])      # the known wrong reading also paints a stored identifier that is not (yet) a macro name
                out.append(t)
                continue
            if name in hs:
                if stats is not None:
                    self._st(hs, depth, 'emit-hidden')
                if t[4] is not None:
                    self.stale.add(t[4])
                out.append(t)
                continue
            if not m.func:
                if stats is not None:
                    self._st(hs, depth, 'expand-object')
                m.used += 1
                pend.extend(reversed(self._subst(m, None, hs | {name}, t[2], depth)))
                continue
            # function-like: is the next preprocessing token a '(' ?
            self.flags.add('funclike-examined')
            if frompend and not pend:
                self.flags.add('funclike-name-ends-replacement-list')
            if pend:
                nx = pend[-1]
                k = -1
            else:
                k = i
                while k < n and src[k][1] == 'nl':
                    k += 1
                if k >= n:
                    nx = None
                elif top and k in dirstart:
                    nx = None
                    self.flags.add('funclike-name-then-directive')
                else:
                    nx = src[k]
                    if k > i:
                        self.flags.add('paren-search-crossed-newline')
            if nx is None or nx[0] != '(' or nx[1] != 'punct':
                if nx is not None and nx[1] == 'ident' and k >= 0:
                    m2 = macros.get(nx[0])
                    if m2 is not None and m2.func:
                        self.flags.add('uninvoked-funclike-name-followed-by-funclike-name')
                if stats is not None:
                    self._st(hs, depth, 'funclike-name-without-paren')
                out.append(t)
                continue
            if k < 0:
                pend.pop()
            else:
                i = k + 1
            # collect the arguments
            np = len(m.params)
            args = [[]]
            cur = args[0]
            par = 0
            nlspace = False
            while True:
                if pend:
                    a = pend.pop()
                elif i < n:
                    if top and i in dirstart:
                        raise Undefined('directive-in-args')
                    a = src[i]
                    i += 1
                    if a[1] == 'nl':
                        nlspace = True
                        self.flags.add('args-span-lines')
                        continue
                else:
                    if stats is not None:
                        self._st(hs, depth, 'reject-unterminated-args')
                    if not top:
                        self.flags.add('unterminated-inside-argument')
                    raise Reject('unterminated-args')
                if nlspace:
                    a = (a[0], a[1], True, a[3], a[4])
                    nlspace = False
                if a[1] == 'punct':
                    s = a[0]
                    if s == '(':
                        par += 1
                    elif s == ')':
                        if par == 0:
                            break
                        par -= 1
                    elif s == ',' and par == 0 and (not m.variadic or len(args) < np):
                        cur = []
                        args.append(cur)
                        continue
                cur.append(a)
            rp = a
            pieces = len(args)
            why = None
            if not m.variadic:
                if np == 0:
                    if pieces != 1 or args[0]:
                        why = 'too-many-args/zero-param'
                elif pieces < np:
                    why = 'too-few-args'
                elif pieces > np:
                    why = 'too-many-args' + ('/extra-empty-last' if pieces == np + 1 and not args[-1] else '')
            elif pieces < np:
                why = 'variadic-no-varargs' if pieces == np - 1 else 'too-few-args'
            if why:
                if stats is not None:
                    self._st(hs, depth, 'reject-' + why.split('/')[0])
                raise Reject(why)
            # hide set of the replacement; 6.10.3.4p4 decision point when the ')' is less hidden than the name
            nhs = (hs & rp[3]) | {name}
            if not hs <= rp[3]:
                d = self.decisions
                self.decisions += 1
                self.flags.add('unspecified-nesting')
                if d < len(self.policy) and self.policy[d]:
                    nhs = hs | {name}
            if stats is not None:
                self._st(hs, depth, 'expand-function/%d%s' % (np, 'v' if m.variadic else ''))
            m.used += 1
            pend.extend(reversed(self._subst(m, args, nhs, t[2], depth)))
        return out

    def _subst(self, m, args, nhs, space, depth):
        res = []
        expanded = {}
        stale = self.stale if self.stale_paint else None
        if m.haskw and m.used > 1:
            self.flags.add('keyword-body-expanded-twice')
        for idx, b in enumerate(m.body):
            kind = b[3]
            if kind == 0:
                if b[1] == 'ident':
                    org = (m.uid, idx)
                    if stale and org in stale:
                        res.append((b[0], 'ident', b[2], nhs | {b[0]}, org))
                    else:
                        res.append((b[0], 'ident', b[2], nhs, org))
                else:
                    res.append((b[0], b[1], b[2], nhs, None))
            elif kind == 1:
                ex = expanded.get(b[4])
                if ex is None:
                    if self.stats is not None:
                        self._st(nhs, depth + 1, 'argument-pre-expansion')
                    ex = expanded[b[4]] = self._expand(args[b[4]], False, depth + 1)
                first = True
                for a in ex:
                    res.append((a[0], a[1], b[2] if first else a[2], a[3] | nhs, None))
                    first = False
            else:
                if self.stats is not None:
                    self._st(nhs, depth + 1, 'argument-stringified')
                res.append((stringify(args[b[4]]), 'string', b[2], nhs, None))
        if res:
            r = res[0]
            res[0] = (r[0], r[1], space, r[3], r[4])
        return res

    def run(self, src):
        toks = lex_source(src)
        ds = set()
        bol = True
        for i, t in enumerate(toks):
            if t[1] == 'nl':
                bol = True
            else:
                if bol and t[0] == '#' and t[1] == 'punct':
                    ds.add(i)
                bol = False
        self.dirstart = ds
        try:
            out = self._expand(toks, True, 0)
            return Outcome('ok', tuple((t[1], t[0]) for t in out), None, self.flags, self.decisions, self.defined)
        except Reject as e:
            return Outcome('reject', None, e.reason, self.flags, self.decisions, self.defined)
        except Undefined as e:
            return Outcome('undefined', None, e.reason, self.flags, self.decisions, self.defined)


def stringify(arg):
    """Spelling of the string literal `# param` produces for the argument tokens (6.10.3.2p2)."""
    parts = []
    for k, a in enumerate(arg):
        if k and a[2]:
            parts.append(' ')
        s = a[0]
        if a[1] in ('string', 'char'):
            s = s.replace('\\', '\\\\').replace('"', '\\"')
        elif a[1] == 'other' and s in ('\\', '"', "'"):
            raise Undefined('stringify-invalid-literal')
        parts.append(s)
    return '"' + ''.join(parts) + '"'


def run(src, stats=None, policy=(), stale_paint=False):
    return Run(stats, policy, stale_paint).run(src)


def allowed(src, stats=None, cap=32):
    """(primary outcome, frozenset of every permitted observation).  An observation is 'reject' or a token tuple.
    More than one element only when 6.10.3.4p4 decision points were met."""
    first = run(src, stats)
    if first.status == 'undefined':
        return first, frozenset()
    obs = {first.tokens if first.status == 'ok' else 'reject'}
    if first.decisions:
        todo = [(0,) * j + (1,) for j in range(first.decisions)]
        seen = 1
        while todo and seen < cap:
            p = todo.pop()
            o = run(src, None, p)
            seen += 1
            if o.status == 'undefined':
                first.flags.add('undefined-on-alternative')
                continue
            obs.add(o.tokens if o.status == 'ok' else 'reject')
            for j in range(len(p), o.decisions):
                todo.append(p + (0,) * (j - len(p)) + (1,))
        if todo:
            first.flags.add('alternatives-capped')
    return first, frozenset(obs)


def _main(argv):
    """python3 -m vlib.cppref input.c                  print what the model expects
       python3 -m vlib.cppref input.c STATUS out.txt   compare with a `cproc-qbe -E` run; exit 1 when they disagree"""
    src = open(argv[0], 'rb').read()
    o, al = allowed(src)
    if len(argv) < 3:
        print(o.status, o.reason or '', sorted(o.flags))
        for a in al:
            print('reject' if a == 'reject' else render(a))
        return 0
    st = int(argv[1])
    if o.status == 'undefined':
        print('not judged:', o.reason)
        return 0
    got = 'reject' if st == 1 else relex(open(argv[2], 'rb').read()) if st == 0 else 'crash'
    if got in al:
        print('agrees with the reference model')
        return 0
    print('expected:', ' | '.join('reject (%s)' % o.reason if a == 'reject' else render(a) for a in al))
    print('observed:', got if isinstance(got, str) else render(got), '(status %d)' % st)
    return 1


if __name__ == '__main__':
    import sys
    sys.exit(_main(sys.argv[1:]))
