"""vbuild: build variants of $VERIF_REPO (default /repo) into /verif/build/<srchash>/.

Never writes into the repository, never uses its stale *.o / binaries.
"""
import fcntl
import glob
import hashlib
import os
import time
import re
import shutil
import subprocess
import sys

VERIF = os.path.dirname(os.path.dirname(os.path.abspath(__file__)))
BUILD = os.environ.get('VERIF_BUILD_DIR') or os.path.join(VERIF, 'build')   # VERIF_BUILD_DIR: scratch build cache (bin/mutsurvey)
HARNESS = os.path.join(VERIF, 'harness')


class BuildError(Exception):
    pass


def repo():
    return os.path.abspath(os.environ.get('VERIF_REPO', '/repo'))


def _sources():
    r = repo()
    fs = sorted(glob.glob(os.path.join(r, '*.c')) + glob.glob(os.path.join(r, '*.h')))
    return [f for f in fs if os.path.basename(f) != 'config.h']


_hash = None


def srchash():
    global _hash
    if _hash is None:
        h = hashlib.sha256()
        for f in _sources():
            h.update(os.path.basename(f).encode() + b'\0')
            h.update(open(f, 'rb').read())
            h.update(b'\0')
        _hash = h.hexdigest()[:16]
    return _hash


def root():
    d = os.path.join(BUILD, srchash())
    os.makedirs(d, exist_ok=True)
    return d


def compiler_srcs():
    """The object list of cproc-qbe as the Makefile states it (fallback: all but driver.c)."""
    r = repo()
    try:
        mk = open(os.path.join(r, 'Makefile')).read()
        m = re.search(r'^SRC=\\\n((?:\t.*\\\n)*\t.*\n)', mk, re.M)
        names = [x.strip().rstrip('\\').strip() for x in m.group(1).splitlines()]
        names = [n.replace('$(BACKEND)', 'qbe') for n in names if n]
        if all(os.path.exists(os.path.join(r, n)) for n in names) and names:
            return names
    except Exception:
        pass
    return sorted(os.path.basename(f) for f in glob.glob(os.path.join(r, '*.c')) if os.path.basename(f) != 'driver.c')


def run(cmd, cwd=None, env=None):
    p = subprocess.run(cmd, cwd=cwd, env=env, stdout=subprocess.PIPE, stderr=subprocess.STDOUT)
    if p.returncode != 0:
        raise BuildError('build command failed: %s\n%s' % (' '.join(cmd), p.stdout.decode(errors='replace')[-4000:]))
    return p.stdout


def srcdir():
    """A private copy of the repository sources for this hash."""
    d = os.path.join(root(), 'src')
    if not os.path.exists(os.path.join(d, '.done')):
        with _lock('src'):
            if not os.path.exists(os.path.join(d, '.done')):
                shutil.rmtree(d, ignore_errors=True)
                os.makedirs(d)
                for f in _sources():
                    shutil.copy(f, d)
                for extra in ('Makefile', 'configure', 'cproc.1'):
                    p = os.path.join(repo(), extra)
                    if os.path.exists(p):
                        shutil.copy(p, d)
                open(os.path.join(d, '.done'), 'w').close()
    return d


class _lock:
    def __init__(self, name):
        self.path = os.path.join(root(), '.lock-' + name)

    def __enter__(self):
        self.f = open(self.path, 'w')
        fcntl.flock(self.f, fcntl.LOCK_EX)

    def __exit__(self, *a):
        fcntl.flock(self.f, fcntl.LOCK_UN)
        self.f.close()


COV = bool(os.environ.get('VERIF_COV'))

SAN = ['-fsanitize=address,undefined', '-fno-sanitize-recover=undefined', '-fno-omit-frame-pointer']

VARIANTS = {
    # name: (cc, cflags, ldflags, forkserver?, extra defines for forksrv)
    'plain': ('gcc', ['-O2', '-w'], [], False),
    'fs': ('gcc', ['-O2', '-w'], [], True),
    'fs-asan': ('gcc', ['-O1', '-g', '-w'] + SAN, SAN, True),
    'asan': ('gcc', ['-O1', '-g', '-w'] + SAN, SAN, False),
    'clang': ('clang', ['-O2', '-w'], [], False),
    'msan': ('clang', ['-O1', '-g', '-w', '-fsanitize=memory', '-fsanitize-memory-track-origins', '-fno-omit-frame-pointer'],
             ['-fsanitize=memory'], False),
    'cov': ('gcc', ['-O0', '-w', '--coverage'], ['--coverage'], False),
    # anchor-coverage audit (bin/anchorcov, VERIF_COV=1): every compiler run of a check goes to these two
    'acov': ('gcc', ['-O0', '-w', '--coverage'], ['--coverage'], False),
    'fs-acov': ('gcc', ['-O0', '-w', '--coverage'], ['--coverage'], True),
    'alloc': ('gcc', ['-O2', '-w'], [os.path.join(HARNESS, 'allocpol.c')], False),
}


def _compile_objs(cc, cflags, outdir, mainflag):
    src = srcdir()
    os.makedirs(outdir, exist_ok=True)
    procs = []
    objs = []
    for n in compiler_srcs():
        o = os.path.join(outdir, n[:-2] + '.o')
        objs.append(o)
        fl = list(cflags)
        if n == 'main.c' and mainflag:
            fl.append('-Dmain=cproc_main')
        procs.append((n, subprocess.Popen([cc] + fl + ['-c', '-o', o, os.path.join(src, n)],
                                          stdout=subprocess.PIPE, stderr=subprocess.STDOUT)))
    for n, p in procs:
        out, _ = p.communicate()
        if p.returncode != 0:
            raise BuildError('compiling %s failed:\n%s' % (n, out.decode(errors='replace')[-4000:]))
    return objs


def get(variant):
    """Return the path of the executable for `variant`, building it if needed."""
    if variant == 'stage2':
        return stage2()[0]
    if variant == 'fs-stage2':
        return stage2()[1]
    if COV and variant in ('plain', 'asan', 'clang', 'alloc', 'fs', 'fs-asan'):
        variant = 'fs-acov' if variant.startswith('fs') else 'acov'
    cc, cflags, ldflags, isfs = VARIANTS[variant]
    d = os.path.join(root(), variant)
    exe = os.path.join(d, 'forksrv' if isfs else 'cproc-qbe')
    if os.path.exists(exe):
        return exe
    with _lock(variant):
        if os.path.exists(exe):
            return exe
        objs = _compile_objs(cc, cflags, d, isfs)
        tmp = exe + '.tmp'
        if isfs:
            fsflags = list(cflags) + ['-I', srcdir()]
            if 'asan' in variant:
                fsflags.append('-DFS_SANITIZED')
            run([cc] + fsflags + ['-o', tmp, os.path.join(HARNESS, 'forksrv.c')] + objs + ldflags)
        else:
            run([cc] + ['-o', tmp] + objs + ldflags)
        os.rename(tmp, exe)
    return exe


def obj(name, cflags=('-O1', '-g', '-w'), tag='obj'):
    """Compile one repository source to an object (for K1 harnesses)."""
    d = os.path.join(root(), tag)
    os.makedirs(d, exist_ok=True)
    o = os.path.join(d, name[:-2] + '.o')
    if not os.path.exists(o):
        with _lock(tag + name):
            if not os.path.exists(o):
                run(['gcc'] + list(cflags) + ['-c', '-o', o + '.tmp', os.path.join(srcdir(), name)])
                os.rename(o + '.tmp', o)
    return o


def prune(keep=3):
    """Remove all but the `keep` most recently used build trees."""
    if not os.path.isdir(BUILD):
        return
    ds = [os.path.join(BUILD, x) for x in os.listdir(BUILD)]
    ds = [x for x in ds if os.path.isdir(x) and re.fullmatch(r'[0-9a-f]{16}', os.path.basename(x))]
    ds.sort(key=lambda x: os.path.getmtime(x), reverse=True)
    cur = os.path.join(BUILD, srchash())
    now = time.time()
    for x in ds[keep:]:
        # a tree touched within the last three hours may belong to a check that is running right now against another copy
        if x != cur and now - os.path.getmtime(x) > 3 * 3600:
            shutil.rmtree(x, ignore_errors=True)


def touch():
    os.utime(root())




def harness(name, hsrcs, reposrcs, cflags=('-O2', '-g', '-w'), libs=('-lm',), cc='gcc'):
    """Build /verif/harness/<hsrcs> linked with repository sources <reposrcs> (compiled fresh)."""
    d = os.path.join(root(), 'harness-acov' if COV else 'harness')
    exe = os.path.join(d, name)
    srcs = [os.path.join(HARNESS, s) for s in hsrcs]
    newest = max(os.path.getmtime(s) for s in srcs)
    if os.path.exists(exe) and os.path.getmtime(exe) >= newest:
        return exe
    with _lock('h-' + name):
        if os.path.exists(exe) and os.path.getmtime(exe) >= newest:
            return exe
        os.makedirs(d, exist_ok=True)
        sd = srcdir()
        if COV:
            objs = []
            for s in reposrcs:
                o = os.path.join(d, s[:-2] + '.o')
                run(['gcc', '-O0', '-g', '-w', '--coverage', '-I', sd, '-c', '-o', o, os.path.join(sd, s)])
                objs.append(o)
            run([cc] + [f for f in cflags if 'sanitize' not in f] + ['-I', sd, '-o', exe + '.tmp'] + srcs + objs + list(libs) + ['--coverage'])
        else:
            run([cc] + list(cflags) + ['-I', sd, '-o', exe + '.tmp'] + srcs + [os.path.join(sd, s) for s in reposrcs] + list(libs))
        os.rename(exe + '.tmp', exe)
    return exe


CONFIG_H = '''static const char target[]               = "%s";
static const char *const startfiles[]    = {"-l", ":crt1.o", "-l", ":crti.o"};
static const char *const endfiles[]      = {"-l", "c", "-l", ":crtn.o"};
static const char *const preprocesscmd[] = {"PP", "-pp-base1", "-pp-base2"};
static const char *const codegencmd[]    = {"CG"};
static const char *const assemblecmd[]   = {"AS", "-as-base"};
static const char *const linkcmd[]       = {"LD", "-ld-base1", "-ld-base2"};
'''


def driver(triple, real=False):
    """Build /repo's driver.c against a generated config.h: with the simulated world (drvmc) or,
    real=True, as an ordinary executable whose tools are stub programs in tooldir."""
    tag = 'drv-%s%s%s' % (triple, '-real' if real else '', '-acov' if COV else '')
    covf = ['--coverage'] if COV else []
    d = os.path.join(root(), tag)
    exe = os.path.join(d, 'cproc' if real else 'drvmc')
    world = os.path.join(HARNESS, 'world.c')
    stub = os.path.join(HARNESS, 'stubtool.sh')
    if os.path.exists(exe) and os.path.getmtime(exe) >= os.path.getmtime(stub if real else world):
        return exe
    with _lock(tag):
        sd = srcdir()
        os.makedirs(d, exist_ok=True)
        cfg = CONFIG_H % triple
        if real:
            tooldir = os.path.join(d, 'tools')
            os.makedirs(tooldir, exist_ok=True)
            for name in ('PP', 'CG', 'AS', 'LD'):
                cfg = cfg.replace('"%s"' % name, '"%s"' % os.path.join(tooldir, name))
                shutil.copy(stub, os.path.join(tooldir, name))
                os.chmod(os.path.join(tooldir, name), 0o755)
            shutil.copy(stub, os.path.join(d, 'cproc-qbe'))
            os.chmod(os.path.join(d, 'cproc-qbe'), 0o755)
        with open(os.path.join(d, 'config.h'), 'w') as f:
            f.write(cfg)
        for n in ('driver.c', 'util.c', 'util.h'):
            shutil.copy(os.path.join(sd, n), d)
        if real:
            run(['gcc', '-O1', '-g', '-w', '-I', d, '-c', '-o', os.path.join(d, 'driver.o'), os.path.join(d, 'driver.c')] + covf)
            run(['gcc', '-O1', '-g', '-w', '-I', d, '-o', exe + '.tmp', os.path.join(d, 'driver.o'), os.path.join(d, 'util.c')] + covf)
        else:
            run(['gcc', '-O1', '-g', '-w', '-I', d, '-Dmain=driver_main', '-c', '-o', os.path.join(d, 'driver.o'), os.path.join(d, 'driver.c')] + covf)
            run(['gcc', '-O1', '-g', '-Wall', '-o', exe + '.tmp', world, os.path.join(d, 'driver.o'), os.path.join(d, 'util.c')] + covf)
        os.rename(exe + '.tmp', exe)
    return exe


def stage2(forkserver=True):
    """Stage 2: every compiler source preprocessed by cpp, compiled by the stage-1 cproc-qbe of the working
    tree, translated by il2c and compiled by gcc; linked as `cproc-qbe` and (main.c built with
    -Dmain=cproc_main) as a fork-server.  Returns (cproc-qbe path, forksrv path)."""
    try:
        from . import il2c, ilexec
    except ImportError:
        sys.path.insert(0, VERIF)
        from vlib import il2c, ilexec
    d = os.path.join(root(), 'stage2')
    exe = os.path.join(d, 'cproc-qbe')
    fsx = os.path.join(d, 'forksrv')
    il2c_src = os.path.join(VERIF, 'vlib', 'il2c.py')
    fresh = lambda p: os.path.exists(p) and os.path.getmtime(p) >= os.path.getmtime(il2c_src)
    if fresh(exe) and fresh(fsx):
        return exe, fsx
    with _lock('stage2'):
        if fresh(exe) and fresh(fsx):
            return exe, fsx
        os.makedirs(d, exist_ok=True)
        s1 = get('plain')
        sd = srcdir()
        ils = {}
        for variant, defs in (('', []), ('fsmain', ['-Dmain=cproc_main'])):
            for n in compiler_srcs():
                if variant and n != 'main.c':
                    continue
                p = subprocess.run(['cpp'] + ilexec.CPP_FLAGS + defs + [os.path.join(sd, n)], stdout=subprocess.PIPE, stderr=subprocess.PIPE)
                if p.returncode != 0:
                    raise BuildError('cpp failed on %s: %s' % (n, p.stderr.decode(errors='replace')[-500:]))
                q = subprocess.run([s1], input=p.stdout, stdout=subprocess.PIPE, stderr=subprocess.PIPE)
                if q.returncode != 0:
                    raise BuildError('stage 1 cannot compile %s: %s' % (n, q.stderr.decode(errors='replace')[-500:]))
                ils[(variant, n)] = q.stdout
        defined = set()
        for il in ils.values():
            for name, kind, exp in il2c.defined_symbols(il):
                if exp:
                    defined.add(name)
        same = {n: n for n in defined}
        procs = []
        objs = {'': [], 'fsmain': []}
        for (variant, n), il in ils.items():
            c = il2c.translate(il, prefix='s2l_', export_map=same, extern_map=same)
            cfile = os.path.join(d, '%s%s.il.c' % (variant, n[:-2]))
            with open(cfile, 'w') as f:
                f.write(c)
            o = cfile[:-2] + '.o'
            procs.append((n, subprocess.Popen(['gcc', '-O1', '-w', '-c', '-o', o, cfile], stdout=subprocess.PIPE, stderr=subprocess.STDOUT)))
            if n == 'main.c':
                objs[variant].append(o)
            else:
                objs[''].append(o)
                objs['fsmain'].append(o)
        for n, p in procs:
            out, _ = p.communicate()
            if p.returncode != 0:
                raise BuildError('gcc failed on the il2c output of %s:\n%s' % (n, out.decode(errors='replace')[-3000:]))
        run(['gcc', '-o', exe + '.tmp'] + objs[''])
        os.rename(exe + '.tmp', exe)
        run(['gcc', '-O1', '-w', '-I', sd, '-o', fsx + '.tmp', os.path.join(HARNESS, 'forksrv.c')] + objs['fsmain'])
        os.rename(fsx + '.tmp', fsx)
    return exe, fsx


if __name__ == '__main__':
    for v in sys.argv[1:] or ['plain', 'fs']:
        print(get(v))
