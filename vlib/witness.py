"""Witness compilers: gcc 12 (host x86_64) and clang 14 --target=<triple> (no sysroot, freestanding)."""
import os
import subprocess
import tempfile

TRIPLE = {
    'x86_64-sysv': 'x86_64-linux-gnu',
    'aarch64': 'aarch64-linux-gnu',
    'riscv64': 'riscv64-linux-gnu',
}
TARGETS = ('x86_64-sysv', 'aarch64', 'riscv64')
TMP = os.environ.get('VERIF_TMP') or tempfile.gettempdir()


def _run(cmd, src, timeout=120):
    if isinstance(src, str):
        src = src.encode()
    p = subprocess.run(cmd, input=src, stdout=subprocess.PIPE, stderr=subprocess.PIPE, timeout=timeout)
    return p.returncode, p.stdout, p.stderr


def gcc_accepts(src, std='c11', pedantic=True, extra=()):
    """(accepted, stderr) for gcc -fsyntax-only."""
    cmd = ['gcc', '-std=' + std, '-fsyntax-only', '-x', 'c', '-']
    if pedantic:
        cmd.insert(2, '-pedantic-errors')  # note: no -w, it would also silence the pedantic errors
    else:
        cmd.insert(2, '-w')
    cmd[1:1] = list(extra)
    rc, _, err = _run(cmd, src)
    return rc == 0, err


def clang_accepts(src, target='x86_64-sysv', std='c11', pedantic=True, extra=()):
    cmd = ['clang', '--target=' + TRIPLE[target], '-std=' + std, '-fsyntax-only', '-x', 'c', '-']
    if pedantic:
        cmd.insert(3, '-pedantic-errors')
    else:
        cmd.insert(3, '-w')
    cmd[1:1] = list(extra)
    rc, _, err = _run(cmd, src)
    return rc == 0, err


def clang_asm(src, target='x86_64-sysv', std='gnu11', extra=()):
    """(rc, asm text, stderr) of clang -S for a target."""
    cmd = ['clang', '--target=' + TRIPLE[target], '-std=' + std, '-S', '-O0', '-w', '-ffreestanding',
           '-fno-common', '-x', 'c', '-', '-o', '-'] + list(extra)
    return _run(cmd, src)


def gcc_asm(src, std='gnu11', extra=()):
    cmd = ['gcc', '-std=' + std, '-S', '-O0', '-w', '-ffreestanding', '-fno-common', '-fno-pic', '-x', 'c', '-', '-o', '-'] + list(extra)
    return _run(cmd, src)


def first_error_line(err):
    """(file, line) of the first 'file:line:' diagnostic in stderr of gcc/clang, or None."""
    import re
    for ln in err.decode(errors='replace').splitlines():
        m = re.match(r'^(.*?):(\d+):(?:\d+:)? (?:fatal )?error', ln)
        if m:
            return m.group(1), int(m.group(2))
    return None
