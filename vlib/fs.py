"""Client for harness/forksrv.c and a process pool whose workers each own fork-servers."""
import multiprocessing as mp
import os
import struct
import subprocess

from . import build

SAN_ENV = {
    'ASAN_OPTIONS': 'detect_leaks=0:exitcode=99:abort_on_error=0:allocator_may_return_null=1:detect_stack_use_after_return=0',
    'UBSAN_OPTIONS': 'halt_on_error=1:exitcode=98:print_stacktrace=1',
}


class Result:
    __slots__ = ('status', 'cpu_us', 'out', 'err')

    def __init__(self, status, cpu_us, out, err):
        self.status, self.cpu_us, self.out, self.err = status, cpu_us, out, err

    @property
    def signal(self):
        return self.status - 1000 if self.status >= 1000 else 0

    def obs(self):
        return (self.status, self.out, self.err)


class ForkServer:
    def __init__(self, variant='fs'):
        exe = build.get(variant)
        env = dict(os.environ)
        env.update(SAN_ENV)
        self.variant = variant
        self.p = subprocess.Popen([exe], stdin=subprocess.PIPE, stdout=subprocess.PIPE, env=env)

    def run(self, args=(), data=b'', mode=0, cpu_s=5):
        if isinstance(data, str):
            data = data.encode()
        msg = [struct.pack('<III', mode, cpu_s, len(args))]
        for a in args:
            if isinstance(a, str):
                a = a.encode()
            msg.append(struct.pack('<I', len(a)))
            msg.append(a)
        msg.append(struct.pack('<I', len(data)))
        msg.append(data)
        w = self.p.stdin
        w.write(b''.join(msg))
        w.flush()
        r = self.p.stdout
        hdr = self._read(8)
        status, cpu_us = struct.unpack('<iI', hdr)
        n, = struct.unpack('<I', self._read(4))
        out = self._read(n)
        n, = struct.unpack('<I', self._read(4))
        err = self._read(n)
        return Result(status, cpu_us, out, err)

    def _read(self, n):
        b = self.p.stdout.read(n)
        if len(b) != n:
            raise RuntimeError('fork-server died (variant %s)' % self.variant)
        return b

    def compile(self, src, target=None, pp=False, cpu_s=5):
        args = []
        if target:
            args += ['-t', target]
        if pp:
            args.append('-E')
        return self.run(args, src, 0, cpu_s)

    def tokens(self, src, newlines=False, cpu_s=5):
        return self.run([], src, 2 if newlines else 1, cpu_s)

    def close(self):
        try:
            self.p.stdin.write(struct.pack('<I', 9))
            self.p.stdin.flush()
            self.p.stdin.close()
            self.p.wait(timeout=5)
        except Exception:
            self.p.kill()


def parse_tokens(out):
    """Parse token-dump output into list of (class, spelling, line, col, space, file, kind)."""
    toks = []
    for ln in out.split(b'\n'):
        if not ln:
            continue
        f = ln.split(b'\t')
        if len(f) != 7:
            raise ValueError('bad token line %r' % ln)
        sp = _unesc(f[2])
        toks.append((f[0].decode(), sp, int(f[4]), int(f[5]), int(f[6]), f[3].decode(errors='replace'), int(f[1])))
    return toks


def _unesc(b):
    if b'\\' not in b:
        return b
    out = bytearray()
    i = 0
    while i < len(b):
        if b[i] == 0x5c and b[i + 1:i + 2] == b'x':
            out.append(int(b[i + 2:i + 4], 16))
            i += 4
        else:
            out.append(b[i])
            i += 1
    return bytes(out)


# ---------------------------------------------------------------------------
# worker pool: each worker lazily creates the fork-servers it needs

_servers = {}


def server(variant='fs'):
    s = _servers.get(variant)
    if s is None or s.p.poll() is not None:
        s = _servers[variant] = ForkServer(variant)
    return s


def child_limits(cpu_s=15, fsize=1 << 28):
    """preexec_fn for direct runs of a compiler or driver built from the tree under test: a changed compiler may loop or print
    without end; bounded CPU time (SIGXCPU) and file size (SIGXFSZ) keep such a run a finding instead of a resource problem."""
    def f():
        import resource
        resource.setrlimit(resource.RLIMIT_CPU, (cpu_s, cpu_s + 1))
        resource.setrlimit(resource.RLIMIT_FSIZE, (fsize, fsize))
        resource.setrlimit(resource.RLIMIT_CORE, (0, 0))
    return f


def nworkers():
    return int(os.environ.get('VERIF_JOBS', '0')) or min(16, os.cpu_count() or 1)


def pmap(func, items, chunksize=1, workers=None):
    """Ordered parallel map; func runs in worker processes (which may call server())."""
    items = list(items)
    if not items:
        return []
    n = workers or nworkers()
    if n <= 1 or len(items) == 1:
        return [func(x) for x in items]
    ctx = mp.get_context('fork')
    with ctx.Pool(n) as pool:
        return pool.map(func, items, chunksize)


def pimap(func, items, chunksize=1, workers=None):
    """Unordered parallel map yielding results as they complete."""
    n = workers or nworkers()
    ctx = mp.get_context('fork')
    pool = ctx.Pool(n)
    try:
        for r in pool.imap_unordered(func, items, chunksize):
            yield r
    finally:
        pool.terminate()
        pool.join()
