"""drvref: reference model of the cproc driver's command-line semantics, written from cproc(1),
README and the statement of property C17 (not from driver.c).

model(words, triple) -> ('usage',) | ('ambiguous', why) | ('run', [spawn...], link_or_None)
  spawn = dict(stage, argv, stdin (index of the producing spawn in the list or None), stdout ('pipe'|'inherit'))
Temporary object names are written TEMP1, TEMP2, ... in order of creation.
"""

ARCH = {
    'x86_64': ('x86_64-sysv', 'amd64_sysv'),
    'amd64': ('x86_64-sysv', 'amd64_sysv'),
    'aarch64': ('aarch64', 'arm64'),
    'riscv64': ('riscv64', 'rv64'),
}

PP, COMPILE, CODEGEN, ASSEMBLE, LINK = range(5)
STAGENAME = ['preprocess', 'compile', 'codegen', 'assemble', 'link']

TYPE_STAGES = {
    'c': {PP, COMPILE, CODEGEN, ASSEMBLE, LINK},
    'c-header': {PP},
    'cpp-output': {COMPILE, CODEGEN, ASSEMBLE, LINK},
    'qbe': {CODEGEN, ASSEMBLE, LINK},
    'assembler': {ASSEMBLE, LINK},
    'assembler-with-cpp': {PP, ASSEMBLE, LINK},
    'object': {LINK},
}
SUFFIX = {'c': 'c', 'h': 'c-header', 'i': 'cpp-output', 'qbe': 'qbe', 's': 'assembler', 'S': 'assembler-with-cpp'}

# base commands as generated into config.h by vlib/build.py
BASE = {
    PP: ['PP', '-pp-base1', '-pp-base2'],
    COMPILE: ['/world/bin/cproc-qbe'],
    CODEGEN: ['CG'],
    ASSEMBLE: ['AS', '-as-base'],
    LINK: ['LD', '-ld-base1', '-ld-base2'],
}
STARTFILES = ['-l', ':crt1.o', '-l', ':crti.o']
ENDFILES = ['-l', 'c', '-l', ':crtn.o']


def filetype(name):
    base = name
    if '.' in base:
        return SUFFIX.get(base.rsplit('.', 1)[1], 'object')
    return 'object'


def changeext(name, ext):
    base = name.rsplit('/', 1)[-1]
    if '.' in base:
        base = base.rsplit('.', 1)[0]
    return base + '.' + ext


class Usage(Exception):
    pass


def model(words, triple):
    arch = None
    for k, v in ARCH.items():
        if triple.startswith(k + '-'):
            arch = v
    if arch is None:
        return ('fatal',)
    opts = {PP: [], ASSEMBLE: [], LINK: []}
    last = LINK
    output = None
    nostdlib = False
    forced = None
    inputs = []   # (name, type, lib)
    w = list(words)
    i = 0

    def nextarg(attached):
        nonlocal i
        if attached != '':
            return attached
        i += 1
        if i >= len(w):
            raise Usage()
        return w[i]

    try:
        while i < len(w):
            a = w[i]
            if not a.startswith('-') or a == '-':
                if forced is not None:
                    t = forced
                elif a == '-':
                    raise Usage()
                else:
                    t = filetype(a)
                inputs.append((a, t, False))
            elif a == '-nostdlib':
                nostdlib = True
            elif a == '-nostdinc':
                opts[PP].append(a)
            elif a == '-static':
                opts[LINK].append(a)
            elif a == '-emit-qbe':
                last = COMPILE
            elif a in ('-include', '-idirafter', '-isystem', '-iquote'):
                opts[PP] += [a, nextarg('')]
            elif a in ('-pipe', '-pedantic'):
                pass
            elif a.startswith('-std='):
                opts[PP].append(a)
            elif a == '-pthread':
                opts[LINK] += ['-l', 'pthread']
            else:
                c, rest = a[1], a[2:]
                if c in 'cESsv' and rest:
                    raise Usage()
                if c == 'c':
                    last = ASSEMBLE
                elif c == 'E':
                    last = PP
                elif c == 'S':
                    last = CODEGEN
                elif c == 'D':
                    opts[PP] += ['-D', nextarg(rest)]
                elif c == 'U':
                    opts[PP] += ['-U', nextarg(rest)]
                elif c == 'I':
                    opts[PP] += ['-I', nextarg(rest)]
                elif c == 'L':
                    opts[LINK] += ['-L', nextarg(rest)]
                elif c == 'l':
                    inputs.append((nextarg(rest), 'object', True))
                elif c == 'o':
                    output = nextarg(rest)
                elif c in 'gO':
                    pass
                elif c == 'P':
                    if rest:
                        return ('ambiguous', '-P with trailing characters')
                    opts[PP].append('-P')
                elif c == 's':
                    opts[LINK].append('-s')
                elif c == 'v':
                    pass
                elif c == 'M':
                    if a in ('-M', '-MM'):
                        opts[PP].append(a)
                        last = PP
                    elif a in ('-MD', '-MMD'):
                        opts[PP].append(a)
                    elif a in ('-MT', '-MF'):
                        opts[PP] += [a, nextarg('')]
                    else:
                        raise Usage()
                elif c == 'W':
                    if len(a) > 3 and a[3] == ',':
                        tgt = {'p': PP, 'a': ASSEMBLE, 'l': LINK}.get(a[2])
                        if tgt is None:
                            raise Usage()
                        opts[tgt] += a[4:].split(',')
                elif c == 'x':
                    lang = nextarg(rest)
                    if lang == 'none':
                        forced = None
                    elif lang in ('c', 'c-header', 'cpp-output', 'qbe', 'assembler', 'assembler-with-cpp'):
                        forced = lang
                    else:
                        raise Usage()
                else:
                    raise Usage()
            i += 1
        if not inputs:
            raise Usage()
        if output is not None:
            if output == '-':
                if last >= ASSEMBLE:
                    raise Usage()
            elif last != LINK and len(inputs) > 1:
                raise Usage()
    except Usage:
        return ('usage',)

    if last == COMPILE and output is None:
        # cproc(1): "if -E or -emit-qbe is used, the output is written to standard output";
        # the implementation writes <name>.qbe.  Documented rule is the reference (finding C17/emit-qbe-output).
        pass
    if last == LINK and any(t == 'c-header' for _, t, _ in inputs):
        return ('ambiguous', 'header input when linking: not specified by cproc(1)')

    spawns = []
    linkinputs = []
    ntemp = 0
    for name, t, lib in inputs:
        st = set(TYPE_STAGES[t])
        if last not in st:
            if last == LINK:
                pass
            linkinputs.append((name, lib))
            continue
        st = sorted(s for s in st if s <= last and s != LINK)
        if not st:
            linkinputs.append((name, lib))
            continue
        if last == LINK:
            ntemp += 1
            out = 'TEMP%d' % ntemp
        elif output is not None:
            out = None if output == '-' else output
        elif last == ASSEMBLE:
            out = changeext(name, 'o')
        elif last == CODEGEN:
            out = changeext(name, 's')
        else:
            out = None  # -E and -emit-qbe: standard output
        prev = None
        for k, s in enumerate(st):
            argv = list(BASE[s])
            if s == COMPILE:
                argv += ['-t', arch[0]]
            elif s == CODEGEN:
                argv += ['-t', arch[1]]
            argv += opts.get(s, [])
            is_last = k == len(st) - 1
            if is_last and out is not None:
                argv += ['-o', out]
            if k == 0 and name != '-':
                argv.append(name)
            spawns.append(dict(stage=s, argv=argv, stdin=prev, stdout='inherit' if is_last else 'pipe'))
            prev = len(spawns) - 1
        linkinputs.append((out, False))
    link = None
    if last == LINK:
        argv = list(BASE[LINK]) + opts[LINK] + ['-o', output if output is not None else 'a.out']
        if not nostdlib:
            argv += STARTFILES
        for n, lib in linkinputs:
            if lib:
                argv.append('-l')
            argv.append(n)
        if not nostdlib:
            argv += ENDFILES
        link = dict(stage=LINK, argv=argv, stdin=None, stdout='inherit')
    return ('run', spawns, link, ntemp)
