"""Parser for QBE IL (grammar of QBE 1.2), independent of what cproc emits today.

Module -> types (TypeDef), data (DataDef), funcs (Func).  ParseError on malformed text.
"""
import re
import struct


class ParseError(Exception):
    pass


BASE = ('w', 'l', 's', 'd')
EXT = BASE + ('b', 'h')
SUBW = ('sb', 'ub', 'sh', 'uh')

_tok = re.compile(r'''
    (?P<ws>[ \t]+)
  | (?P<comment>\#[^\n]*)
  | (?P<nl>\n)
  | (?P<str>"(?:[^"\\\n]|\\.)*")
  | (?P<flt>[sd]_[-+]?(?:inf|nan|[0-9.]+(?:[eE][-+]?[0-9]+)?|0x[0-9a-fA-F.]+(?:p[-+]?[0-9]+)?))
  | (?P<glo>\$[A-Za-z0-9_.$]+|\$"[^"]*")
  | (?P<tmp>%[A-Za-z0-9_.$]+)
  | (?P<lbl>@[A-Za-z0-9_.$]+)
  | (?P<ty>:[A-Za-z0-9_.$]+)
  | (?P<int>-?[0-9]+)
  | (?P<dots>\.\.\.)
  | (?P<word>[A-Za-z_][A-Za-z0-9_.]*)
  | (?P<punct>[=,(){}+])
''', re.X)


class Tok:
    __slots__ = ('k', 'v', 'line')

    def __init__(self, k, v, line):
        self.k, self.v, self.line = k, v, line

    def __repr__(self):
        return '%s:%r@%d' % (self.k, self.v, self.line)


def lex(text):
    toks = []
    pos, line, n = 0, 1, len(text)
    while pos < n:
        m = _tok.match(text, pos)
        if not m:
            raise ParseError('line %d: unexpected character %r' % (line, text[pos:pos + 10]))
        k = m.lastgroup
        if k == 'nl':
            if toks and toks[-1].k != 'nl':
                toks.append(Tok('nl', '\n', line))
            line += 1
        elif k not in ('ws', 'comment'):
            toks.append(Tok(k, m.group(), line))
        pos = m.end()
    if toks and toks[-1].k != 'nl':
        toks.append(Tok('nl', '\n', line))
    toks.append(Tok('eof', '', line))
    return toks


class TypeDef:
    def __init__(self, name, align, kind, fields, size=None, line=0):
        self.name, self.align, self.kind, self.fields, self.size, self.line = name, align, kind, fields, size, line


class DataDef:
    def __init__(self, name, linkage, align, items, line=0):
        self.name, self.linkage, self.align, self.items, self.line = name, linkage, align, items, line

    @property
    def export(self):
        return 'export' in self.linkage

    @property
    def thread(self):
        return 'thread' in self.linkage


class Func:
    def __init__(self, name, linkage, retty, params, variadic, env, blocks, line=0):
        self.name, self.linkage, self.retty, self.params = name, linkage, retty, params
        self.variadic, self.env, self.blocks, self.line = variadic, env, blocks, line

    @property
    def export(self):
        return 'export' in self.linkage


class Block:
    def __init__(self, name, line):
        self.name, self.line = name, line
        self.phis, self.insts, self.jump = [], [], None


class Inst:
    __slots__ = ('res', 'cls', 'op', 'args', 'callargs', 'vararg_at', 'envarg', 'line')

    def __init__(self, res, cls, op, args, line, callargs=None, vararg_at=None, envarg=None):
        self.res, self.cls, self.op, self.args, self.line = res, cls, op, args, line
        self.callargs, self.vararg_at, self.envarg = callargs, vararg_at, envarg


class Phi:
    __slots__ = ('res', 'cls', 'args', 'line')

    def __init__(self, res, cls, args, line):
        self.res, self.cls, self.args, self.line = res, cls, args, line


class Jump:
    __slots__ = ('op', 'arg', 'targets', 'line')

    def __init__(self, op, arg, targets, line):
        self.op, self.arg, self.targets, self.line = op, arg, targets, line


class Module:
    def __init__(self):
        self.types = {}
        self.typeorder = []
        self.data = []
        self.funcs = []
        self.order = []  # ('type'|'data'|'func', obj) in file order


def _unescape(s):
    """Bytes of a QBE string item (assembler .ascii escapes)."""
    out = bytearray()
    i, n = 1, len(s) - 1
    while i < n:
        c = s[i]
        if c != '\\':
            out += c.encode('latin-1') if ord(c) < 256 else c.encode()
            i += 1
            continue
        i += 1
        c = s[i]
        if c in '01234567':
            j = i
            while j < n and j < i + 3 and s[j] in '01234567':
                j += 1
            out.append(int(s[i:j], 8) & 0xff)
            i = j
        elif c == 'x':
            j = i + 1
            while j < n and s[j] in '0123456789abcdefABCDEF':
                j += 1
            out.append(int(s[i + 1:j], 16) & 0xff)
            i = j
        else:
            out.append({'n': 10, 't': 9, 'r': 13, 'b': 8, 'f': 12, '"': 34, '\\': 92, 'a': 7, 'v': 11}.get(c, ord(c)))
            i += 1
    return bytes(out)


def parse_float(lit):
    body = lit[2:]
    try:
        if body.lower().lstrip('+-').startswith('0x'):
            return float.fromhex(body)
        return float(body)
    except ValueError:
        raise ParseError('bad float literal %r' % lit)


class Parser:
    def __init__(self, text):
        if isinstance(text, bytes):
            text = text.decode('latin-1')
        self.t = lex(text)
        self.i = 0

    def peek(self):
        return self.t[self.i]

    def next(self):
        t = self.t[self.i]
        self.i += 1
        return t

    def err(self, msg, t=None):
        t = t or self.peek()
        raise ParseError('line %d: %s (at %r)' % (t.line, msg, t.v))

    def expect(self, k, v=None):
        t = self.next()
        if t.k != k or (v is not None and t.v != v):
            self.err('expected %s' % (v or k), t)
        return t

    def accept(self, k, v=None):
        t = self.peek()
        if t.k == k and (v is None or t.v == v):
            self.i += 1
            return t
        return None

    def skipnl(self):
        while self.accept('nl'):
            pass

    def module(self):
        m = Module()
        while True:
            self.skipnl()
            t = self.peek()
            if t.k == 'eof':
                break
            if t.k != 'word':
                self.err('expected definition')
            if t.v == 'type':
                td = self.typedef()
                if td.name in m.types:
                    self.err('type %s redefined' % td.name, t)
                m.types[td.name] = td
                m.typeorder.append(td.name)
                m.order.append(('type', td))
                continue
            if t.v in ('dbgfile',):
                self.next()
                self.expect('str')
                continue
            linkage = []
            while True:
                t = self.peek()
                if t.k == 'word' and t.v in ('export', 'thread'):
                    linkage.append(self.next().v)
                    self.skipnl()
                elif t.k == 'word' and t.v == 'section':
                    self.next()
                    sec = self.expect('str').v
                    fl = self.accept('str')
                    linkage.append(('section', sec, fl.v if fl else None))
                    self.skipnl()
                else:
                    break
            t = self.peek()
            if t.k == 'word' and t.v == 'data':
                d = self.datadef(linkage)
                m.data.append(d)
                m.order.append(('data', d))
            elif t.k == 'word' and t.v == 'function':
                f = self.funcdef(linkage)
                m.funcs.append(f)
                m.order.append(('func', f))
            else:
                self.err('expected data or function')
        return m

    def typedef(self):
        line = self.expect('word', 'type').line
        name = self.expect('ty').v
        self.expect('punct', '=')
        align = None
        if self.accept('word', 'align'):
            align = int(self.expect('int').v)
        self.expect('punct', '{')
        t = self.peek()
        if t.k == 'int':
            size = int(self.next().v)
            self.expect('punct', '}')
            if align is None:
                self.err('opaque type needs align')
            return TypeDef(name, align, 'opaque', [], size, line)
        if t.k == 'punct' and t.v == '{':
            alts = []
            while self.accept('punct', '{'):
                alts.append(self.fields())
            self.expect('punct', '}')
            return TypeDef(name, align, 'union', alts, None, line)
        fl = self.fields()
        return TypeDef(name, align, 'struct', fl, None, line)

    def fields(self):
        fl = []
        while True:
            t = self.next()
            if t.k == 'punct' and t.v == '}':
                return fl
            if t.k == 'ty' or (t.k == 'word' and t.v in EXT):
                cnt = 1
                c = self.accept('int')
                if c:
                    cnt = int(c.v)
                fl.append((t.v, cnt))
            else:
                self.err('bad type field', t)
            t = self.peek()
            if t.k == 'punct' and t.v == ',':
                self.next()
            elif not (t.k == 'punct' and t.v == '}'):
                self.err('expected , or } in type')

    def datadef(self, linkage):
        line = self.expect('word', 'data').line
        name = self.expect('glo').v
        self.expect('punct', '=')
        align = None
        if self.accept('word', 'align'):
            align = int(self.expect('int').v)
        self.skipnl()
        self.expect('punct', '{')
        items = []
        while True:
            self.skipnl()
            t = self.next()
            if t.k == 'punct' and t.v == '}':
                break
            if t.k != 'word' or t.v not in EXT + ('z',):
                self.err('bad data item type', t)
            if t.v == 'z':
                items.append(('z', int(self.expect('int').v)))
            else:
                n = 0
                while True:
                    p = self.peek()
                    if p.k == 'glo':
                        self.next()
                        off = 0
                        if self.accept('punct', '+'):
                            off = int(self.expect('int').v)
                        items.append((t.v, ('sym', p.v, off)))
                    elif p.k == 'str':
                        self.next()
                        items.append((t.v, ('str', _unescape(p.v))))
                    elif p.k == 'int':
                        self.next()
                        items.append((t.v, ('int', int(p.v))))
                    elif p.k == 'flt':
                        self.next()
                        items.append((t.v, ('flt', parse_float(p.v), p.v[0])))
                    else:
                        break
                    n += 1
                if n == 0:
                    self.err('data item without value')
            self.skipnl()
            t = self.peek()
            if t.k == 'punct' and t.v == ',':
                self.next()
            elif not (t.k == 'punct' and t.v == '}'):
                self.err('expected , or } in data')
        return DataDef(name, linkage, align, items, line)

    def abity(self, allow_sub=True):
        t = self.next()
        if t.k == 'ty':
            return t.v
        if t.k == 'word' and (t.v in BASE or (allow_sub and t.v in SUBW)):
            return t.v
        self.err('expected type', t)

    def funcdef(self, linkage):
        line = self.expect('word', 'function').line
        retty = None
        if self.peek().k != 'glo':
            retty = self.abity()
        name = self.expect('glo').v
        self.expect('punct', '(')
        params, variadic, env = [], False, None
        while not self.accept('punct', ')'):
            if params or env or variadic:
                self.expect('punct', ',')
            if variadic:
                self.err('parameter after ...')
            if self.accept('dots'):
                variadic = True
                continue
            if self.accept('word', 'env'):
                if params or env:
                    self.err('env must be first')
                env = self.expect('tmp').v
                continue
            ty = self.abity()
            params.append((ty, self.expect('tmp').v))
        self.skipnl()
        self.expect('punct', '{')
        self.expect('nl')
        blocks = []
        cur = None
        while True:
            self.skipnl()
            t = self.peek()
            if t.k == 'punct' and t.v == '}':
                self.next()
                break
            if t.k == 'lbl':
                self.next()
                self.expect('nl')
                cur = Block(t.v, t.line)
                blocks.append(cur)
                continue
            if cur is None:
                self.err('instruction before first block label')
            if cur.jump is not None:
                self.err('instruction after jump in block %s' % cur.name)
            self.statement(cur)
        if not blocks:
            self.err('function without blocks')
        return Func(name, linkage, retty, params, variadic, env, blocks, line)

    def value(self):
        t = self.next()
        if t.k == 'tmp':
            return ('tmp', t.v)
        if t.k == 'int':
            return ('int', int(t.v))
        if t.k == 'flt':
            return (t.v[0], parse_float(t.v))
        if t.k == 'glo':
            return ('glo', t.v, False)
        if t.k == 'word' and t.v == 'thread':
            g = self.expect('glo')
            return ('glo', g.v, True)
        self.err('expected value', t)

    def statement(self, blk):
        t = self.peek()
        line = t.line
        if t.k == 'tmp':
            res = self.next().v
            self.expect('punct', '=')
            cls = self.abity()
            op = self.expect('word').v
            if op == 'phi':
                if cls not in BASE:
                    self.err('phi class')
                if blk.insts:
                    self.err('phi after instruction')
                args = []
                while True:
                    l = self.expect('lbl').v
                    v = self.value()
                    args.append((l, v))
                    if not self.accept('punct', ','):
                        break
                self.expect('nl')
                blk.phis.append(Phi(res, cls, args, line))
                return
            if op == 'call':
                blk.insts.append(self.call(res, cls, line))
                return
            if cls not in BASE:
                self.err('result class must be a base type')
            args = self.args()
            blk.insts.append(Inst(res, cls, op, args, line))
            return
        if t.k != 'word':
            self.err('expected instruction')
        op = self.next().v
        if op == 'call':
            blk.insts.append(self.call(None, None, line))
        elif op == 'jmp':
            l = self.expect('lbl').v
            self.expect('nl')
            blk.jump = Jump('jmp', None, [l], line)
        elif op == 'jnz':
            v = self.value()
            self.expect('punct', ',')
            a = self.expect('lbl').v
            self.expect('punct', ',')
            b = self.expect('lbl').v
            self.expect('nl')
            blk.jump = Jump('jnz', v, [a, b], line)
        elif op == 'ret':
            v = None
            if self.peek().k != 'nl':
                v = self.value()
            self.expect('nl')
            blk.jump = Jump('ret', v, [], line)
        elif op == 'hlt':
            self.expect('nl')
            blk.jump = Jump('hlt', None, [], line)
        else:
            args = self.args()
            blk.insts.append(Inst(None, None, op, args, line))

    def args(self):
        args = []
        if self.peek().k != 'nl':
            args.append(self.value())
            while self.accept('punct', ','):
                args.append(self.value())
        self.expect('nl')
        return args

    def call(self, res, cls, line):
        callee = self.value()
        self.expect('punct', '(')
        cargs, vararg_at, envarg = [], None, None
        first = True
        while not self.accept('punct', ')'):
            if not first:
                self.expect('punct', ',')
            first = False
            if self.accept('dots'):
                if vararg_at is not None:
                    self.err('two ... in call')
                vararg_at = len(cargs)
                continue
            if self.accept('word', 'env'):
                envarg = self.value()
                continue
            ty = self.abity()
            cargs.append((ty, self.value()))
        self.expect('nl')
        return Inst(res, cls, 'call', [callee], line, cargs, vararg_at, envarg)


def parse(text):
    return Parser(text).module()


# ---------------------------------------------------------------------------
# data images

ITEMSIZE = {'b': 1, 'h': 2, 'w': 4, 'l': 8, 's': 4, 'd': 8}


def data_image(d):
    """(bytes, relocs[(offset, size, symbol, addend)]) of a DataDef; little endian."""
    img = bytearray()
    rel = []
    for ty, v in d.items:
        if ty == 'z':
            img += bytes(v)
            continue
        sz = ITEMSIZE[ty]
        if v[0] == 'int':
            img += (v[1] % (1 << (8 * sz))).to_bytes(sz, 'little')
        elif v[0] == 'flt':
            # QBE stores the bit pattern of the literal in ITS precision (s_ / d_) and emits the low
            # bytes of it for the item's width, whatever the item type letter is
            try:
                bits = struct.pack('<f', v[1]) if v[2] == 's' else struct.pack('<d', v[1])
            except OverflowError:
                bits = struct.pack('<f', float('inf') if v[1] > 0 else float('-inf'))
            img += (bits + b'\0' * 8)[:sz]
        elif v[0] == 'str':
            img += v[1]
        elif v[0] == 'sym':
            rel.append((len(img), sz, v[1], v[2]))
            img += b'\0' * sz
    return bytes(img), rel


def type_layout(m, name, _depth=0):
    """(size, align, leaves[(offset, size, kind)]) of an aggregate type; kind in 'i','f','o'(opaque)."""
    td = m.types[name]
    if _depth > 64:
        raise ParseError('type recursion')

    def sub(ty):
        if ty.startswith(':'):
            if ty not in m.types:
                raise ParseError('undefined type %s' % ty)
            return type_layout(m, ty, _depth + 1)
        s = ITEMSIZE[ty]
        return s, s, [(0, s, 'f' if ty in 'sd' else 'i')]

    def struct_layout(fields):
        off, al, leaves = 0, 1, []
        for ty, cnt in fields:
            s, a, lv = sub(ty)
            al = max(al, a)
            off = (off + a - 1) // a * a
            for _ in range(cnt):
                leaves += [(off + o, z, k) for o, z, k in lv]
                off += s
        return off, al, leaves

    if td.kind == 'opaque':
        return td.size, td.align, [(0, td.size, 'o')]
    if td.kind == 'struct':
        size, al, leaves = struct_layout(td.fields)
    else:
        size, al, leaves = 0, 1, []
        for alt in td.fields:
            s, a, lv = struct_layout(alt)
            size, al = max(size, s), max(al, a)
            leaves += lv
    if td.align is not None and td.align > al:
        al = td.align  # QBE: an explicit alignment can only raise the natural one (parsefields)
    size = (size + al - 1) // al * al
    return size, al, leaves
