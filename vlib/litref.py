"""litref — reference model for C11 character constants and string literals (DESIGN.md E.5, property C14).

Written from the C11 text (5.1.1.2 phases 2, 5, 6; 6.4.4.4; 6.4.5) and Unicode 3.9 table 3-7
(well-formed UTF-8 byte sequences), independent of cproc's expr.c/utf.c:

  * phase 2: backslash-newline pairs are deleted first;
  * the literal is scanned by an explicit finite automaton over *byte classes*
    (state = where we are inside one character of the literal); its accumulated value lives beside it.
    The automaton is also the reference machine whose (prefix, state) / (prefix, state, byte class)
    pairs are counted for the evidence;
  * escapes denote code units (range-checked against the element type, 6.4.4.4p9), other bytes are
    strict UTF-8 (no overlong forms, no surrogates, <= 10FFFF) denoting scalar values that are then
    encoded for the element type (UTF-8 / UTF-16 / UTF-32).

`expect(kind, text, target)` returns an `Expect` describing every outcome the standard admits.
`quirks` (default none) switch on *deliberately wrong* readings; they are never used to judge, only by
the check to name the root-cause family of an already established violation.
"""

PREFIXES = ('', 'u8', 'u', 'U', 'L')
TARGETS = ('x86_64-sysv', 'aarch64', 'riscv64')
CHAR_SIGNED = {'x86_64-sysv': True, 'aarch64': False, 'riscv64': False}
WCHAR_SIGNED = {'x86_64-sysv': True, 'aarch64': False, 'riscv64': True}
WIDTH = {'': 1, 'u8': 1, 'u': 2, 'U': 4, 'L': 4}

# type names used in the _Generic probes of the check
STR_ELEM = {'': 'char', 'u8': 'char', 'u': 'ushort', 'U': 'uint'}      # L: per target
CHR_TYPE = {'': 'int', 'u8': 'uchar', 'u': 'ushort', 'U': 'uint'}       # L: per target; u8 is C23 (N2418)

QUIRKS = ('oct8', 'overlong', 'surr', 'trunc', 'nosx')


def wchar_type(target):
    return 'int' if WCHAR_SIGNED[target] else 'uint'


class Reject(Exception):
    def __init__(self, reason):
        Exception.__init__(self, reason)
        self.reason = reason


# ---------------------------------------------------------------------------
# byte classes (the transition alphabet of the reference automaton)

def _mkclasses():
    cl = [None] * 256
    for b in range(256):
        c = chr(b)
        if b == 0:
            k = 'nul'
        elif b == 0x0a:
            k = 'nl'
        elif c == "'":
            k = 'sq'
        elif c == '"':
            k = 'dq'
        elif c == '\\':
            k = 'bs'
        elif c == '?':
            k = 'qm'
        elif c in '01234567':
            k = 'oct'
        elif c in '89':
            k = 'd89'
        elif c in 'abf':
            k = 'hexesc'        # hexadecimal digit that is also a simple-escape letter
        elif c in 'cdeABCDEF':
            k = 'hex'
        elif c in 'nrtv':
            k = 'esc'
        elif c == 'x':
            k = 'x'
        elif b < 0x80:
            k = 'asc'
        elif b <= 0x8f:
            k = 'c80'
        elif b <= 0x9f:
            k = 'c90'
        elif b <= 0xbf:
            k = 'ca0'
        elif b <= 0xc1:
            k = 'l2over'
        elif b <= 0xdf:
            k = 'l2'
        elif b == 0xe0:
            k = 'e0'
        elif b == 0xed:
            k = 'ed'
        elif b <= 0xef:
            k = 'l3'
        elif b == 0xf0:
            k = 'f0'
        elif b <= 0xf3:
            k = 'l4'
        elif b == 0xf4:
            k = 'f4'
        else:
            k = 'lbad'
        cl[b] = k
    return cl


BYTECLASS = _mkclasses()
_SIMPLE = {'a': 7, 'b': 8, 'f': 12, 'n': 10, 'r': 13, 't': 9, 'v': 11, "'": 39, '"': 34, '?': 63, '\\': 92}
_CONT = ('c80', 'c90', 'ca0')
# allowed classes of the FIRST continuation byte after a lead (table 3-7)
_FIRSTCONT = {'C1': _CONT, 'C2': _CONT, 'C2lo': ('ca0',), 'C2hi': ('c80', 'c90'),
              'C3': _CONT, 'C3lo': ('c90', 'ca0'), 'C3hi': ('c80',)}
_WHYBAD = {'C2lo': 'utf8-overlong', 'C2hi': 'utf8-surrogate', 'C3lo': 'utf8-overlong', 'C3hi': 'utf8-too-large'}
_AFTER = {'C2': 'C1', 'C2lo': 'C1', 'C2hi': 'C1', 'C3': 'C2', 'C3lo': 'C2', 'C3hi': 'C2', 'C1': 'S'}


def splice(text):
    """Translation phase 2."""
    return text.replace(b'\\\n', b'')


def scan_literal(prefix, quote, data, pos, trace=None, quirks=()):
    """Scan one literal body starting after the opening quote at data[pos:].
    Returns (items, endpos) with endpos just after the closing quote.
    items: ('esc', value) | ('chr', scalar) | ('bad', raw bytes, reason).
    Raises Reject for lexical errors (unterminated, bad escape)."""
    items = []
    st = 'S'
    acc = 0
    raw = bytearray()
    n = len(data)
    q = ord(quote)
    oct8 = 'oct8' in quirks
    overlong = 'overlong' in quirks
    surr = 'surr' in quirks
    while True:
        if pos >= n:
            raise Reject('unterminated')
        b = data[pos]
        k = BYTECLASS[b]
        if trace is not None:
            trace.add((prefix, st, k))
        if st == 'S':
            if b == q:
                return items, pos + 1
            if k == 'nl':
                raise Reject('unterminated')
            if k == 'bs':
                st = 'E'
            elif b < 0x80:
                items.append(('chr', b))
            elif k == 'l2':
                st, acc, raw = 'C1', b & 0x1f, bytearray([b])
            elif k == 'l2over':
                if overlong:
                    st, acc, raw = 'C1', b & 0x1f, bytearray([b])
                else:
                    items.append(('bad', bytes([b]), 'utf8-overlong'))
            elif k in ('e0', 'ed', 'l3'):
                st = 'C2lo' if k == 'e0' else 'C2hi' if k == 'ed' else 'C2'
                if k == 'e0' and overlong:
                    st = 'C2'
                acc, raw = b & 0x0f, bytearray([b])
            elif k in ('f0', 'l4', 'f4'):
                st = 'C3lo' if k == 'f0' else 'C3hi' if k == 'f4' else 'C3'
                if k == 'f0' and overlong:
                    st = 'C3'
                acc, raw = b & 0x07, bytearray([b])
            else:   # continuation byte as lead, or F5..FF
                items.append(('bad', bytes([b]), 'utf8-bad-lead' if k in _CONT else 'utf8-too-large' if b <= 0xf7 else 'utf8-bad-lead'))
            pos += 1
        elif st == 'E':
            c = chr(b)
            if k == 'oct':
                st, acc = 'O1', b - 48
            elif k == 'x':
                st, acc = 'X0', 0
            elif c in _SIMPLE:
                items.append(('esc', _SIMPLE[c]))
                st = 'S'
            else:
                raise Reject('bad-escape')
            pos += 1
        elif st in ('O1', 'O2'):
            if k == 'oct' or (oct8 and b == 0x38):
                acc = acc * 8 + (b - 48)
                pos += 1
                if st == 'O2':
                    items.append(('esc', acc))
                    st = 'S'
                else:
                    st = 'O2'
            else:
                items.append(('esc', acc))
                st = 'S'        # re-examine this byte as the start of the next character
        elif st in ('X0', 'X'):
            if k in ('oct', 'd89', 'hexesc', 'hex'):
                acc = acc * 16 + int(chr(b), 16)
                st = 'X'
                pos += 1
            elif st == 'X0':
                raise Reject('bad-escape')
            else:
                items.append(('esc', acc))
                st = 'S'
        else:   # inside a multi-byte UTF-8 sequence
            allowed = _FIRSTCONT[st]
            if surr and st == 'C2hi' and b >= 0xa8 and k in _CONT:
                allowed = _CONT
            if k in allowed:
                acc = acc << 6 | b & 0x3f
                raw.append(b)
                st = _AFTER[st]
                if st == 'S':
                    items.append(('chr', acc))
                pos += 1
            elif k in _CONT:
                # a continuation byte, but outside what table 3-7 allows after this lead
                raw.append(b)
                items.append(('bad', bytes(raw), _WHYBAD[st]))
                st = 'S'
                pos += 1
            else:
                items.append(('bad', bytes(raw), 'utf8-truncated'))
                st = 'S'        # re-examine (it may be the closing quote)


def lex(kind, text, trace=None, quirks=()):
    """Split the initializer text into literals: [(prefix, items)]; Reject when it is not a sequence of
    complete literals of the given kind ('str' or 'chr')."""
    data = splice(text)
    quote = '"' if kind == 'str' else "'"
    q = ord(quote)
    pos, n = 0, len(data)
    out = []
    while True:
        while pos < n and data[pos] in b' \t':
            pos += 1
        if pos >= n:
            break
        pfx = None
        for p in ('u8', 'u', 'U', 'L', ''):
            if data.startswith(p.encode(), pos) and pos + len(p) < n and data[pos + len(p)] == q:
                pfx = p
                break
        if pfx is None:
            raise Reject('syntax')
        items, pos = scan_literal(pfx, quote, data, pos + len(pfx) + 1, trace, quirks)
        out.append((pfx, items))
    if not out:
        raise Reject('syntax')
    if kind == 'chr' and len(out) != 1:
        raise Reject('syntax')
    return out


# ---------------------------------------------------------------------------
# encoders

def utf8(cp):
    if cp < 0x80:
        return [cp]
    if cp < 0x800:
        return [0xc0 | cp >> 6, 0x80 | cp & 0x3f]
    if cp < 0x10000:
        return [0xe0 | cp >> 12, 0x80 | cp >> 6 & 0x3f, 0x80 | cp & 0x3f]
    return [0xf0 | cp >> 18, 0x80 | cp >> 12 & 0x3f, 0x80 | cp >> 6 & 0x3f, 0x80 | cp & 0x3f]


def utf16(cp):
    if cp < 0x10000:
        return [cp]
    cp -= 0x10000
    return [0xd800 | cp >> 10, 0xdc00 | cp & 0x3ff]


def encode(cp, width):
    return utf8(cp) if width == 1 else utf16(cp) if width == 2 else [cp]


def raw_utf8(cp):
    """Generalised (possibly ill-formed) UTF-8 of any value < 0x200000: used by the check to WRITE
    surrogates and values above 10FFFF into test inputs."""
    return bytes(utf8(cp))


# ---------------------------------------------------------------------------

class Expect:
    """What C11 admits for one case.
    must_reject: reason string when the only admissible outcome is a diagnostic.
    reject_ok:   a diagnostic is admissible (together with `alts`).
    alts:        admissible (width, units) lists for strings / admissible values for character constants.
    vrange:      for character constants with an implementation-defined value: admissible range.
    type:        the type name the literal must have.
    ambiguous:   reason why this case is not judged at all."""
    __slots__ = ('kind', 'must_reject', 'reject_ok', 'alts', 'vrange', 'type', 'ambiguous', 'width', 'final_prefix', 'reason')

    def __init__(self, kind):
        self.kind = kind
        self.must_reject = None
        self.reject_ok = False
        self.alts = []
        self.vrange = None
        self.type = None
        self.ambiguous = None
        self.width = None
        self.final_prefix = None
        self.reason = None      # why a diagnostic is admissible when reject_ok

    @property
    def strict_valid(self):
        return self.ambiguous is None and self.must_reject is None and not self.reject_ok

    def admits_status(self, accepted):
        if self.must_reject:
            return not accepted
        if not accepted:
            return self.reject_ok
        return True

    def admits_value(self, width, val):
        """val: list of units (str) or integer (chr); only meaningful when the case was accepted."""
        if self.must_reject:
            return False
        if self.kind == 'chr':
            if self.vrange is not None and self.vrange[0] <= val <= self.vrange[1]:
                return True
            return val in self.alts
        return any(w == width and list(u) == list(val) for w, u in self.alts)

    def describe(self):
        if self.ambiguous:
            return 'ambiguous(%s)' % self.ambiguous
        if self.must_reject:
            return 'reject(%s)' % self.must_reject
        s = []
        if self.reject_ok:
            s.append('reject(%s)' % self.reason)
        if self.kind == 'chr':
            s += ['value %d' % v for v in self.alts]
            if self.vrange:
                s.append('any value in [%d, %d]' % self.vrange)
        else:
            s += ['%d-byte units %s' % (w, ' '.join('%x' % x for x in u)) for w, u in self.alts]
        return ' or '.join(s) + ' : ' + str(self.type)


def expect(kind, text, target, trace=None, quirks=()):
    e = Expect(kind)
    try:
        lits = lex(kind, text, trace, quirks)
    except Reject as r:
        e.must_reject = r.reason
        return e
    if b'\r' in text:
        # whether a lone carriage return ends a source line is part of the implementation-defined phase-1
        # mapping of the physical source file (clang: it does; gcc, cproc: it does not)
        e.ambiguous = 'raw-cr'
        return e
    if kind == 'chr':
        return _expect_chr(e, lits[0], target, quirks)
    return _expect_str(e, lits, target, quirks)


def _expect_str(e, lits, target, quirks):
    trunc = 'trunc' in quirks
    pfx = sorted({p for p, _ in lits if p})
    if len(pfx) > 1:
        # 6.4.5p2 (u8 with a wide prefix: constraint) / 6.4.5p5 (other mixtures: implementation-defined
        # whether supported; gcc, clang and cproc all reject them)
        e.must_reject = 'mixed-prefix'
        return e
    final = pfx[0] if pfx else ''
    e.final_prefix = final
    width = e.width = WIDTH[final]
    e.type = wchar_type(target) if final == 'L' else STR_ELEM[final]
    maxv = (1 << 8 * width) - 1
    units = []
    bad = None
    for own, items in lits:
        for it in items:
            if it[0] == 'esc':
                v = it[1]
                if v > maxv:
                    if trunc:
                        v &= maxv if width < 4 else 0xffffffff
                    else:
                        e.must_reject = 'escape-out-of-range'
                        return e
                elif v > (1 << 8 * WIDTH[own]) - 1 and not trunc:
                    # in range for the concatenated literal but not for the piece it is written in:
                    # phase 5 precedes phase 6, compilers differ
                    e.ambiguous = 'escape-range-across-concatenation'
                    return e
                units.append(v)
            elif it[0] == 'chr':
                if it[1] == 0 and 'overlong' not in quirks:
                    e.ambiguous = 'raw-nul'     # not a member of the source character set
                    return e
                if 0xd800 <= it[1] <= 0xdfff and width < 4:
                    e.ambiguous = 'quirk-only'  # reachable only under the `surr` quirk
                    return e
                units += encode(it[1], width)
            else:
                bad = bad or it[2]
                units += list(it[1])
    units.append(0)
    if bad:
        if width == 1:
            # ill-formed UTF-8 in a char/u8 literal: "rejected rather than altered" — a diagnostic, or
            # (gcc) the bytes passed through untouched; anything else alters the program
            e.reject_ok = True
            e.reason = bad
            e.alts = [(1, units)]
            return e
        e.must_reject = bad
        return e
    e.alts = [(width, units)]
    return e


def _expect_chr(e, lit, target, quirks):
    trunc = 'trunc' in quirks
    prefix, items = lit
    e.final_prefix = prefix
    e.type = wchar_type(target) if prefix == 'L' else CHR_TYPE[prefix]
    if not items:
        e.must_reject = 'empty-charconst'
        return e
    if len(items) > 1:
        e.ambiguous = 'multichar'       # 6.4.4.4p10/p11: implementation-defined
        return e
    it = items[0]
    width = WIDTH[prefix]
    if it[0] == 'bad':
        if prefix == '':
            e.ambiguous = 'ill-formed-utf8-in-plain-charconst'
        else:
            e.must_reject = it[2]
        return e
    if it[0] == 'esc':
        v = it[1]
        if v > (1 << 8 * width) - 1:
            if not trunc:
                e.must_reject = 'escape-out-of-range'
                return e
            v &= 0xffffffff     # the wrong reading: value kept unreduced
            e.alts = [v]
            return e
        if prefix == '':
            if v >= 0x80 and CHAR_SIGNED[target] and 'nosx' not in quirks:
                v -= 0x100      # 6.4.4.4p10: value of an object of type char converted to int
        elif prefix == 'L':
            if v >= 1 << 31 and WCHAR_SIGNED[target] and 'nosx' not in quirks:
                v -= 1 << 32
        e.alts = [v]
        return e
    cp = it[1]
    if cp == 0 and 'overlong' not in quirks:
        e.ambiguous = 'raw-nul'
        return e
    if prefix == '':
        if cp >= 0x80:
            e.ambiguous = 'multibyte-char-in-plain-charconst'    # 6.4.4.4p10 implementation-defined
            return e
    elif prefix == 'u8':
        if cp >= 0x80:
            e.must_reject = 'u8-charconst-not-single-code-unit'   # C23 6.4.4.4 (N2418) constraint
            return e
    elif prefix == 'u':
        if cp > 0xffff:
            # maps to two char16_t: implementation-defined value (6.4.4.4p11), but a value of type char16_t
            e.reject_ok = True
            e.reason = 'needs-surrogate-pair'
            e.vrange = (0, 0xffff)
            return e
    e.alts = [cp]
    return e
