"""Catalogue of constraint violations and documented-unsupported features for property C10.

Each entry: (id, kind, text, lang) where kind in
  decl  - one or more file-scope declarations (also placeable at block scope when blockok)
  stmt  - statements inside a function body
  expr  - an expression (placed as `(void)(E);`, as an initializer, as a call argument, ...)
  line  - source lines starting with a directive
lang = True: a violation of the C language that gcc and clang -pedantic-errors must reject too (guards
the catalogue); False: a cproc-specific documented limitation (no witness).
The texts may refer to the prelude below.
"""

PRELUDE = '''
struct cs { int m; int bf : 3; char arr[4]; };
struct cinc;
union cu { int i; float f; };
enum ce { CE0, CE1 };
typedef int ctd;
int cobj; const int cconst = 1; int *cptr; double *cdptr; float cflt; struct cs cstr; int carr[4];
int cfn1(int); void cvoidfn(void); int cfn0(void); int cfn3(int, int, int);
'''

E = []


def add(id, kind, text, lang=True, blockok=True):
    E.append(dict(id=id, kind=kind, text=text, lang=lang, blockok=blockok))


# --- identifiers and redeclaration
add('undeclared-identifier', 'expr', 'cundeclared + 1')
add('undeclared-function-call', 'expr', 'cundeclaredfn(1)')
add('redeclared-object-different-type', 'decl', 'extern int r1; extern long r1;')
add('redeclared-different-kind', 'decl', 'extern int r2; typedef int r2;')
add('redefined-typedef-different-type', 'decl', 'typedef int r3; typedef long r3;')
add('redeclared-enumerator', 'decl', 'enum { r4 }; enum { r4 };')
add('enumerator-vs-object', 'decl', 'enum { r5 }; extern int r5;')
add('redefined-struct-tag', 'decl', 'struct r6 { int a; }; struct r6 { int a; };')
add('redefined-enum-tag', 'decl', 'enum r7 { r7a }; enum r7 { r7b };')
add('tag-kind-mismatch', 'decl', 'struct r8 { int a; }; union r8 x8;')
add('object-redefined', 'decl', 'int r9 = 1; int r9 = 2;', blockok=False)
add('function-redefined', 'decl', 'int r10(void) { return 1; } int r10(void) { return 2; }', blockok=False)
# a second definition with every combination of function specifiers and storage classes on the first and the second one
for _i, _a in enumerate(('', 'inline', 'static', 'static inline', 'extern', 'extern inline')):
    for _j, _b in enumerate(('', 'inline', 'static', 'static inline', 'extern', 'extern inline')):
        if ('static' in _a) != ('static' in _b) and _a and _b and 'static' in _b:
            continue        # static after non-static is a linkage error of its own (covered elsewhere)
        if (_a, _b) == ('', ''):
            continue
        add('function-redefined/%s-then-%s' % (_a.replace(' ', '-') or 'plain', _b.replace(' ', '-') or 'plain'), 'decl',
            '%s int r3%d%d(void) { return 1; } %s int r3%d%d(void) { return 2; }' % (_a, _i, _j, _b, _i, _j), blockok=False)
add('block-object-redeclared', 'stmt', 'int b1; int b1;')
add('block-object-redeclared-different-type', 'stmt', 'int b2; long b2;')
add('parameter-redeclared-in-body', 'decl', 'void r11(int p) { int p; }', blockok=False)
add('duplicate-parameter-names', 'decl', 'void r12(int a, int a);')
add('duplicate-member-names', 'decl', 'struct r13 { int a; int a; };')
add('static-after-extern', 'decl', 'extern int r14; static int r14;', blockok=False)
add('function-declared-incompatibly', 'decl', 'int r15(int); int r15(long);')
add('function-return-type-mismatch', 'decl', 'int r16(void); long r16(void);')
# function types that differ only in the number of parameters, in both directions and in every position a function type can occur
add('function-redeclared-more-parameters', 'decl', 'int r17(int); int r17(int, int);')
add('function-redeclared-fewer-parameters', 'decl', 'int r18(int, int); int r18(int);')
add('function-redeclared-void-then-one', 'decl', 'int r19(void); int r19(int);')
add('function-redeclared-one-then-void', 'decl', 'int r20(int); int r20(void);')
add('function-defined-more-parameters', 'decl', 'int r21(int); int r21(int a, int b) { return a + b; }', blockok=False)
add('function-defined-fewer-parameters', 'decl', 'int r22(int, int); int r22(int a) { return a; }', blockok=False)
add('function-redeclared-variadic-added', 'decl', 'int r23(int); int r23(int, ...);')
add('function-redeclared-variadic-dropped', 'decl', 'int r24(int, ...); int r24(int);')
add('function-pointer-parameter-more-parameters', 'decl', 'void r25(int (*)(int)); void r25(int (*)(int, int));')
add('function-pointer-parameter-fewer-parameters', 'decl', 'void r26(int (*)(int, int)); void r26(int (*)(int));')
add('function-pointer-object-more-parameters', 'decl', 'extern int (*r27)(int); extern int (*r27)(int, long);')
add('function-pointer-assign-more-parameters', 'stmt', 'int (*fp1)(int) = 0; int (*fp2)(int, int) = fp1;')
add('function-pointer-assign-fewer-parameters', 'stmt', 'int (*fp3)(int, int) = 0; int (*fp4)(int) = fp3;')
add('function-returning-pointer-to-function-more-parameters', 'decl', 'int (*r28(void))(int); int (*r28(void))(int, int);')
add('function-redeclared-last-parameter-type', 'decl', 'int r29(int, int, long); int r29(int, int, int);')
add('function-redeclared-first-parameter-type', 'decl', 'int r30(long, int, int); int r30(int, int, int);')
# --- assignment / lvalues / const
add('assign-to-const', 'stmt', 'cconst = 2;')
add('assign-to-const-member', 'stmt', 'const struct cs k1 = {0}; k1.m = 1;')
add('increment-const', 'stmt', 'cconst++;')
add('compound-assign-const', 'stmt', 'cconst += 1;')
add('assign-to-rvalue', 'stmt', '1 = 2;')
add('assign-to-expression', 'stmt', '(cobj + 1) = 2;')
add('assign-to-array', 'stmt', 'int a1[2], a2[2]; a1 = a2;')
add('assign-to-function', 'stmt', 'cfn0 = 0;')
add('increment-rvalue', 'expr', '1++')
add('increment-function-pointer', 'stmt', 'int (*ifp)(int) = cfn1; ifp++;')
add('preincrement-function-pointer', 'stmt', 'int (*ifp2)(int) = cfn1; ++ifp2;')
add('decrement-void-pointer', 'stmt', 'void *ivp = 0; ivp--;')
add('increment-pointer-to-incomplete-struct', 'stmt', 'struct cinc *iip = 0; ++iip;')
add('increment-pointer-to-incomplete-array', 'stmt', 'int (*iap)[] = 0; iap++;')
add('compound-add-void-pointer', 'stmt', 'void *ivp2 = 0; ivp2 += 1;')
add('compound-subtract-function-pointer', 'stmt', 'int (*ifp3)(int) = cfn1; ifp3 -= 1;')
add('increment-struct', 'stmt', 'cstr++;')
add('increment-array', 'stmt', 'carr++;')
add('decrement-rvalue', 'expr', '--(cobj + 1)')
add('address-of-rvalue', 'expr', '&1')
add('address-of-bitfield', 'expr', '&cstr.bf')
add('address-of-register', 'stmt', 'register int rg; int *prg = &rg;')
add('assign-struct-to-int', 'stmt', 'cobj = cstr;')
add('assign-int-to-struct', 'stmt', 'cstr = 1;')
add('assign-incompatible-pointers', 'stmt', 'cptr = cdptr;')
add('assign-pointer-to-int', 'stmt', 'cobj = cptr;')
add('assign-int-to-pointer', 'stmt', 'cptr = 5;')
add('assign-discards-const', 'stmt', 'const int *pc = &cconst; cptr = pc;')
add('init-incompatible-pointer', 'stmt', 'double *ip = &cobj;')
add('assign-void-value', 'stmt', 'cobj = cvoidfn();')
# every kind of expression that is not an lvalue x every operator that requires a modifiable lvalue or an lvalue (6.5.16p2, 6.5.2.4p1, 6.5.3.1p1, 6.5.3.2p1)
_NONLV = (('folded-conditional-true', '(1 ? cobj : cobj)'), ('folded-conditional-false', '(0 ? cobj : cobj)'), ('folded-conditional-float', '(1.5 ? cobj : cobj)'),
          ('conditional', '(cobj ? cobj : cobj)'), ('folded-conditional-member', '(1 ? cstr : cstr).m'), ('conditional-member', '(cobj ? cstr : cstr).m'),
          ('comma', '(cobj, cobj)'), ('cast', '(int)cobj'), ('assignment', '(cobj = 1)'), ('compound-assignment', '(cobj += 1)'), ('pre-increment', '(++cobj)'),
          ('post-increment', '(cobj++)'), ('unary-plus', '(+cobj)'), ('negation', '(-cobj)'), ('call', 'cfn0()'), ('sum', '(cobj + 0)'), ('address', '(&cobj)'),
          ('folded-logical', '(1 && cobj)'), ('sizeof', 'sizeof(cobj)'), ('enum-constant', 'CE1'), ('compound-literal-value', '((int){1} + 0)'), ('generic-rvalue', '_Generic(0, int: cobj + 0)'))
_NONLV += (('unary-plus-float', '(+cflt)'), ('negation-float', '(-cflt)'), ('cast-float', '(float)cflt'), ('cast-to-same-type-float', '(float)(cflt)'), ('conditional-float', '(cobj ? cflt : cflt)'),
           ('folded-conditional-float-operands', '(1 ? cflt : cflt)'), ('comma-float', '(cobj, cflt)'), ('assignment-float', '(cflt = 1)'), ('sum-float', '(cflt + 0)'),
           ('folded-conditional-pointer', '(1 ? cptr : cptr)'), ('cast-pointer', '(int *)cptr'), ('conditional-pointer', '(cobj ? cptr : cptr)'), ('sum-pointer', '(cptr + 0)'),
           ('unary-plus-bit-field', '(+cstr.bf)'), ('unary-plus-member', '(+cstr.m)'), ('unary-plus-char-element', '(+cstr.arr[1])'), ('unary-plus-long', '(+*(long *)cptr)'),
           ('unary-plus-double', '(+*cdptr)'), ('negation-double', '(-*cdptr)'), ('cast-double', '(double)*cdptr'), ('unary-plus-enum', '(+*(enum ce *)cptr)'), ('unary-plus-bool', '(+*(_Bool *)cptr)'))
_LVOPS = (('assigned', '%s = 3;'), ('compound-assigned', '%s += 3;'), ('post-incremented', '%s++;'), ('pre-decremented', '--%s;'), ('address-taken', '(void)&%s;'))
for _n, _e in _NONLV:
    for _on, _o in _LVOPS:
        add('non-lvalue/%s/%s' % (_n, _on), 'stmt', _o % _e)
add('assign-to-incomplete-struct-deref', 'stmt', 'struct cinc *pi = 0; *pi = *pi;')
# every path by which a const qualifier reaches an lvalue x every operator that modifies its operand (6.5.16p2, 6.5.2.4p1, 6.5.3.1p1) and the
# initialisation that would discard the qualifier (6.5.16.1p1); the qualifier may sit on the object, on an enclosing aggregate, on the pointed-to
# type, on a typedef'd array type or on a member, and must survive member access, subscripting and array-to-pointer conversion
QPRE = ('struct qs { int m; int arr[3]; int mm[2][2]; struct cs in; }; struct qc { const int c; int d; }; typedef int qarr[3]; '
        'union qu { int i; int ua[2]; }; ')
QPATHS = [
    ('object', 'const int q = 1;', 'q', 'int'),
    ('member-of-const-struct', 'const struct qs q = {0};', 'q.m', 'int'),
    ('member-through-pointer-to-const', 'struct qs qo; const struct qs *q = &qo;', 'q->m', 'int'),
    ('element-of-const-array', 'const int q[3] = {0};', 'q[1]', 'int'),
    ('deref-of-const-array', 'const int q[3] = {0};', '*q', 'int'),
    ('array-member-of-const-struct', 'const struct qs q = {0};', 'q.arr[1]', 'int'),
    ('array-member-through-pointer-to-const', 'struct qs qo; const struct qs *q = &qo;', 'q->arr[1]', 'int'),
    ('deref-array-member-of-const-struct', 'const struct qs q = {0};', '*q.arr', 'int'),
    ('2d-array-member-of-const-struct', 'const struct qs q = {0};', 'q.mm[1][1]', 'int'),
    ('nested-member-of-const-struct', 'const struct qs q = {0};', 'q.in.m', 'int'),
    ('nested-array-member-of-const-struct', 'const struct qs q = {0};', 'q.in.arr[1]', 'char'),
    ('const-typedef-array', 'const qarr q = {0};', 'q[0]', 'int'),
    ('const-typedef-array-2d', 'const qarr q[2] = {{0}};', 'q[1][0]', 'int'),
    ('pointer-to-const', 'const int *q = &cobj;', '*q', 'int'),
    ('pointer-to-const-subscript', 'const int *q = carr;', 'q[2]', 'int'),
    ('pointer-to-const-array', 'const int (*q)[4] = &carr;', '(*q)[0]', 'int'),
    ('const-member', 'struct qc q = {1, 2};', 'q.c', 'int'),
    ('const-member-through-pointer', 'struct qc qo = {1, 2}; struct qc *q = &qo;', 'q->c', 'int'),
    ('const-pointer', 'int *const q = &cobj;', 'q', 'int *'),
    ('member-of-const-union', 'const union qu q = {0};', 'q.i', 'int'),
    ('array-member-of-const-union', 'const union qu q = {0};', 'q.ua[1]', 'int'),
    ('const-compound-literal', 'int q;', '(const int){1}', 'int'),
    ('member-of-const-compound-literal', 'int q;', '((const struct qs){0}).arr[0]', 'int'),
    ('element-of-const-parameter-array', 'void qf(const int q[]);', '((const int *)carr)[0]', 'int'),
]
QOPS = [('assign', '%s = 1;'), ('add-assign', '%s += 1;'), ('shift-assign', '%s <<= 1;'), ('post-increment', '%s++;'), ('pre-increment', '++%s;'),
        ('post-decrement', '%s--;'), ('pre-decrement', '--%s;')]
for qn, qd, ql, qt in QPATHS:
    for on, ot in QOPS:
        if qt == 'int *' and on == 'shift-assign':
            continue
        add('const-via-%s/%s' % (qn, on), 'stmt', QPRE + qd + ' ' + ot % ql)
    if qt != 'int *':
        add('const-via-%s/address-discards-qualifier' % qn, 'stmt', QPRE + qd + ' %s *z = &%s;' % (qt, ql))
for qn, qd, ql, qt in (('array-member-of-const-struct', 'const struct qs q = {0};', 'q.arr', 'int'), ('array-member-through-pointer-to-const', 'struct qs qo; const struct qs *q = &qo;', 'q->arr', 'int'),
                       ('const-typedef-array', 'const qarr q = {0};', 'q', 'int'), ('row-of-2d-array-member', 'const struct qs q = {0};', 'q.mm[1]', 'int'),
                       ('array-member-of-const-union', 'const union qu q = {0};', 'q.ua', 'int')):
    add('const-via-%s/decay-discards-qualifier' % qn, 'stmt', QPRE + qd + ' %s *z = %s;' % (qt, ql))
    add('const-via-%s/decay-argument-discards-qualifier' % qn, 'stmt', QPRE + qd + ' void qg(%s *); qg(%s);' % (qt, ql))
add('assign-struct-with-const-member', 'stmt', QPRE + 'struct qc q1 = {1, 2}, q2 = {3, 4}; q1 = q2;')
add('assign-struct-with-nested-const-member', 'stmt', 'struct qn { struct { const int c; } in; int d; } q1 = {{1}, 2}, q2 = {{3}, 4}; q1 = q2;')
# --- operand types
add('modulo-float', 'expr', '1.5 % 2')
add('bitnot-float', 'expr', '~1.5')
add('shift-float', 'expr', '1 << 1.5')
add('bitand-float', 'expr', '1 & 1.5')
add('multiply-pointer', 'expr', 'cptr * 2')
add('add-two-pointers', 'expr', 'cptr + cptr')
add('subtract-incompatible-pointers', 'expr', 'cptr - cdptr')
add('add-struct', 'expr', 'cstr + 1')
add('negate-pointer', 'expr', '-cptr')
add('negate-struct', 'expr', '-cstr')
add('logical-not-struct', 'expr', '!cstr')
add('logical-and-struct', 'expr', 'cstr && 1')
add('compare-struct', 'expr', 'cstr == cstr')
add('compare-pointer-with-float', 'expr', 'cptr < 1.5')
add('compare-incompatible-pointers', 'expr', 'cptr < cdptr')
add('deref-int', 'expr', '*cobj')
add('deref-void-pointer-value', 'stmt', 'void *vp = 0; cobj = *vp;')
add('subscript-non-pointer', 'expr', 'cobj[1]')
add('subscript-with-float', 'expr', 'carr[1.5]')
add('member-of-non-struct', 'expr', 'cobj.m')
add('unknown-member', 'expr', 'cstr.nomember')
add('arrow-on-non-pointer', 'expr', 'cstr->m')
add('dot-on-pointer', 'stmt', 'struct cs *ps = &cstr; cobj = ps.m;')
add('member-of-incomplete', 'stmt', 'struct cinc *pq = 0; cobj = pq->m;')
add('cast-to-struct', 'expr', '(struct cs)1')
add('cast-struct-to-int', 'expr', '(int)cstr')
add('cast-to-array', 'expr', '(int[2])cobj')
add('cast-pointer-to-float', 'expr', '(float)cptr')
add('cast-float-to-pointer', 'expr', '(int *)1.5')
add('conditional-struct-int', 'expr', 'cobj ? cstr : 1')
add('conditional-incompatible-pointers', 'expr', 'cobj ? cptr : cdptr')
add('conditional-struct-condition', 'expr', 'cstr ? 1 : 2')
add('sizeof-function', 'expr', 'sizeof(cfn0)')
add('sizeof-incomplete', 'expr', 'sizeof(struct cinc)')
add('sizeof-bitfield', 'expr', 'sizeof(cstr.bf)')
add('sizeof-void', 'expr', 'sizeof(void)')
add('alignof-incomplete', 'expr', '_Alignof(struct cinc)')
add('alignof-function-type', 'expr', '_Alignof(int (void))')
# --- calls
add('too-many-arguments', 'expr', 'cfn1(1, 2)')
add('too-few-arguments', 'expr', 'cfn1()')
add('arguments-to-void-prototype', 'expr', 'cfn0(1)')
add('call-non-function', 'expr', 'cobj(1)')
add('argument-struct-for-int', 'expr', 'cfn1(cstr)')
add('argument-incompatible-pointer', 'stmt', 'int takesp(int *); takesp(cdptr);')
add('use-void-result', 'expr', 'cvoidfn() + 1')
# --- statements
add('duplicate-case', 'stmt', 'switch (cobj) { case 1: ; case 1: ; }')
add('duplicate-default', 'stmt', 'switch (cobj) { default: ; default: ; }')
add('case-outside-switch', 'stmt', 'case 1: ;')
add('default-outside-switch', 'stmt', 'default: ;')
add('case-non-constant', 'stmt', 'switch (cobj) { case cobj: ; }')
add('duplicate-case-after-conversion-to-unsigned', 'stmt', 'unsigned du1 = 0; switch (du1) { case -1: ; case 4294967295u: ; }')
add('duplicate-case-after-conversion-to-int', 'stmt', 'switch (cobj) { case 1: ; case 4294967297: ; }')
add('duplicate-case-after-conversion-to-unsigned-long', 'stmt', 'unsigned long du2 = 0; switch (du2) { case -1: ; case 18446744073709551615u: ; }')
add('duplicate-case-after-promotion-of-unsigned-char', 'stmt', 'unsigned char du3 = 0; switch (du3) { case 1: ; case 4294967297: ; }')
add('case-float', 'stmt', 'switch (cobj) { case 1.5: ; }')
add('switch-on-float', 'stmt', 'switch (cflt) { case 1: ; }')
add('switch-on-pointer', 'stmt', 'switch (cptr) { default: ; }')
add('break-outside-loop', 'stmt', 'break;')
add('continue-outside-loop', 'stmt', 'continue;')
add('continue-in-switch-only', 'stmt', 'switch (cobj) { case 1: continue; }')
add('duplicate-label', 'stmt', 'dl1: ; dl1: ;')
add('goto-undefined-label', 'stmt', 'goto nolabel_anywhere;')
add('if-struct-condition', 'stmt', 'if (cstr) ;')
add('while-struct-condition', 'stmt', 'while (cstr) ;')
add('for-struct-condition', 'stmt', 'for (; cstr; ) ;')
add('do-struct-condition', 'stmt', 'do ; while (cstr);')
add('return-value-from-void', 'decl', 'void rv1(void) { return 1; }', blockok=False)
add('return-nothing-from-int', 'decl', 'int rv2(void) { return; }', blockok=False)
add('return-struct-from-int', 'decl', 'int rv3(void) { return cstr; }', blockok=False)
add('return-incompatible-pointer', 'decl', 'int *rv4(void) { return cdptr; }', blockok=False)
# --- specifiers and declarators
add('long-short', 'decl', 'long short s1;')
add('signed-unsigned', 'decl', 'signed unsigned s2;')
add('int-float', 'decl', 'int float s3;')
add('long-long-long', 'decl', 'long long long s4;')
add('unsigned-double', 'decl', 'unsigned double s5;')
add('short-char', 'decl', 'short char s6;')
add('two-storage-classes', 'decl', 'static extern int s7;')
add('typedef-static', 'decl', 'typedef static int s8;')
add('thread-local-function', 'decl', '_Thread_local int s9(void);', blockok=False)
add('inline-object', 'decl', 'inline int s10;')
add('noreturn-object', 'decl', '_Noreturn int s11;')
add('register-at-file-scope', 'decl', 'register int s12;', blockok=False)
add('auto-at-file-scope', 'decl', 'auto int s13;', blockok=False)
add('void-object', 'decl', 'void s14;')
add('restrict-non-pointer', 'decl', 'restrict int s15;')
add('no-type-specifier', 'decl', 'static s16;')
add('struct-and-int', 'decl', 'struct cs int s17;')
add('two-tagged-types', 'decl', 'struct cs union cu s38;')
add('typedef-name-then-struct', 'decl', 'ctd struct cs s39;')
add('typedef-name-then-int', 'decl', 'ctd int s40;')
add('enum-then-struct', 'decl', 'enum ce struct cs s41;')
add('int-then-struct', 'decl', 'int struct cs s42;')
add('typeof-then-int', 'decl', 'typeof(cobj) int s43;')
add('struct-then-typeof', 'decl', 'struct cs typeof(cobj) s44;')
add('unsigned-typedef-name', 'decl', 'unsigned ctd s45b, s45;')
add('parameter-extern', 'decl', 'void s46(extern int p);')
add('parameter-typedef', 'decl', 'void s47(typedef int p);')
add('parameter-thread-local', 'decl', 'void s48(_Thread_local int p);')
add('function-returning-array', 'decl', 'int s18(void)[2];')
add('function-returning-function', 'decl', 'int s19(void)(void);')
add('array-of-functions', 'decl', 'int s20[2](void);')
add('array-of-void', 'decl', 'void s21[2];')
add('array-of-incomplete', 'decl', 'struct cinc s22[2];')
add('named-void-parameter', 'decl', 'void s23(void v);')
add('void-among-parameters', 'decl', 'void s24(int, void);')
add('parameter-storage-class', 'decl', 'void s25(static int p);')
add('block-function-static', 'stmt', 'static int bfs(void);')
add('block-extern-with-initializer', 'stmt', 'extern int bei = 1;')
add('thread-local-auto', 'stmt', '_Thread_local int tla;')
add('incomplete-object', 'decl', 'struct cinc s26;', blockok=True)
add('incomplete-array-block', 'stmt', 'int ia[];')
add('struct-contains-itself', 'decl', 'struct s27 { struct s27 x; };')
add('flexible-array-not-last', 'decl', 'struct s28 { int n; int fa[]; int after; };')
add('flexible-array-only-member', 'decl', 'struct s29 { int fa[]; };')
add('member-function-type', 'decl', 'struct s30 { int f(void); };')
add('member-incomplete-type', 'decl', 'struct s31 { struct cinc x; };')
add('member-void', 'decl', 'struct s32 { void v; };')
add('member-storage-class', 'decl', 'struct s33 { static int x; };')
add('empty-enum', 'decl', 'enum s34 { };')
add('enumerator-non-constant', 'decl', 'enum { s35 = cobj };')
add('enumerator-float', 'decl', 'enum { s36 = 1.5 };')
add('forward-enum-use', 'decl', 'enum s37fw; enum s37fw s37;', lang=False)
# --- bit-fields, alignment, arrays
add('bitfield-too-wide', 'decl', 'struct b1 { int x : 33; };')
add('bitfield-negative', 'decl', 'struct b2 { int x : -1; };')
add('bitfield-named-zero', 'decl', 'struct b3 { int x : 0; };')
add('bitfield-float', 'decl', 'struct b4 { float x : 3; };')
add('bitfield-non-constant', 'decl', 'struct b5 { int x : cobj; };')
add('bitfield-pointer', 'decl', 'struct b6 { int *x : 3; };')
add('alignas-not-power-of-two', 'decl', '_Alignas(3) int al1;')
add('alignas-weaker', 'decl', '_Alignas(1) int al2;')
add('alignas-function', 'decl', '_Alignas(8) int al3(void);', blockok=False)
add('alignas-parameter', 'decl', 'void al4(_Alignas(8) int p);')
add('alignas-register', 'stmt', '_Alignas(8) register int al5;')
add('alignas-bitfield', 'decl', 'struct al6 { _Alignas(8) int x : 3; };')
add('alignas-typedef', 'decl', 'typedef _Alignas(8) int al7;')
add('alignas-negative', 'decl', '_Alignas(-8) int al8;')
add('array-negative-size', 'decl', 'int ar1[-1];')
add('array-float-size', 'decl', 'int ar2[1.5];')
add('array-too-large', 'decl', 'char ar3[0xffffffffffffffff][2];')
add('vla-at-file-scope', 'decl', 'int ar4[cobj];', blockok=False)
add('vla-static', 'stmt', 'static int ar5[cobj];')
add('vla-with-initializer', 'stmt', 'int ar6[cobj] = {1};')
add('vla-extern', 'stmt', 'extern int ar7[cobj];')
add('vla-member', 'stmt', 'struct ar8 { int m[cobj]; };')
add('star-array-in-definition', 'stmt', 'int ar9[*];')
# --- initializers
add('static-init-non-constant', 'decl', 'int in1 = cobj;', blockok=False)
add('static-init-call', 'decl', 'int in2 = cfn0();', blockok=False)
add('static-local-init-non-constant', 'stmt', 'static int in3 = cobj;')
add('init-designator-on-scalar', 'decl', 'int in4 = { .a = 1 };')
add('init-array-designator-on-struct', 'decl', 'struct cs in5 = { [0] = 1 };')
add('init-member-designator-on-array', 'decl', 'int in6[2] = { .m = 1 };')
add('init-unknown-member-designator', 'decl', 'struct cs in7 = { .nomember = 1 };')
add('init-designator-out-of-range', 'decl', 'int in8[2] = { [5] = 1 };')
# a block-scope declaration with linkage is compared with the file-scope declaration of the same name even when a local without linkage
# hides it in between (6.2.2p4, 6.7p4; seeded round 10: the comparison used the innermost visible declaration)
for _i, (_fs, _loc, _blk) in enumerate((('int %s;', 'int %s = 0;', 'extern char %s;'), ('extern long %s;', 'char %s = 0;', 'extern int %s;'), ('int %s(void);', 'int %s = 0;', 'extern long %s(void);'),
                                        ('int %s(void);', 'int %s = 0;', 'long %s(void);'), ('int %s;', 'int %s = 0;', 'extern int %s(void);'), ('int %s(void);', 'int %s = 0;', 'extern int %s;'),
                                        ('static int %s;', 'long %s = 0;', 'extern char %s;'), ('extern int %s[4];', 'int %s = 0;', 'extern int %s[5];'),
                                        ('int %s;', 'struct { int x; } %s = {0};', 'extern unsigned %s;'), ('int %s;', 'typedef int %s;', 'extern char %s;'))):
    _n = 'hb%d' % _i
    add('block-extern-behind-local/%d' % _i, 'decl', '%s void hbf%d(int n) { %s { %s } }' % (_fs % _n, _i, _loc % _n, _blk % _n), blockok=False)
    add('block-extern-behind-parameter/%d' % _i, 'decl', '%s void hbg%d(int %s) { { %s } }' % (_fs % _n, _i, _n, _blk % _n), blockok=False)
    add('block-extern-behind-two-locals/%d' % _i, 'decl', '%s void hbh%d(int n) { %s { int %s = 1; { %s } } }' % (_fs % _n, _i, _loc % _n, _n, _blk % _n), blockok=False)
# jumps into the scope of an identifier with variably modified type (6.8.6.1p1, 6.8.4.2p2): forward and backward goto, case and default
# labels, for arrays, pointers to arrays and typedefs
for _i, _vm in enumerate(('int jv[cobj];', 'int (*jv)[cobj] = 0;', 'typedef int jv[cobj];', 'int jv[2][cobj];')):
    _use = '(void)sizeof(jv);'
    add('goto-into-vm-scope/forward/%d' % _i, 'stmt', 'goto jl%d; { %s jl%d: %s }' % (_i, _vm, _i, _use))
    add('goto-into-vm-scope/forward-same-block/%d' % _i, 'decl', 'void jf%d(void) { goto jm%d; %s jm%d: %s }' % (_i, _i, _vm, _i, _use), blockok=False)
    add('goto-into-vm-scope/backward/%d' % _i, 'stmt', '{ %s jb%d: %s } goto jb%d;' % (_vm, _i, _use, _i))
    add('goto-into-vm-scope/nested/%d' % _i, 'stmt', 'goto jn%d; { int q = 1; { %s { jn%d: %s } } (void)q; }' % (_i, _vm, _i, _use))
    add('switch-into-vm-scope/case/%d' % _i, 'stmt', 'switch (cobj) { case 1: { %s %s case 2: %s } }' % (_vm, _use, _use))
    add('switch-into-vm-scope/default/%d' % _i, 'stmt', 'switch (cobj) { %s default: %s }' % (_vm, _use))
    add('switch-into-vm-scope/first-case/%d' % _i, 'stmt', 'switch (cobj) { %s case 0: %s }' % (_vm, _use))
# a structure with a flexible array member must not be a member of a structure or an element of an array, also when it gets there
# through unions, anonymous or named, at any depth (6.7.2.1p3; seeded round 11: the mark was not passed on through a union)
_FAM = 'struct fx%d { int n; int d[]; };'
for _i, _wrap in enumerate(('struct fo%d { struct fx%d a; int y; };', 'union fu%d { struct fx%d a; long x; }; struct fo%d { union fu%d u; int y; };',
                            'struct fo%d { union { struct fx%d a; long x; }; int y; };', 'union fu%d { struct fx%d a; long x; }; union fv%d { union fu%d u; char c; }; struct fo%d { union fv%d v; int y; };',
                            'struct fo%d { int y; union { union { struct fx%d a; } in; long x; } u; };', 'struct fx%d fa%d[2];', 'union fu%d { struct fx%d a; long x; }; union fu%d fb%d[2];',
                            'struct fo%d { int y; struct fx%d last; }; struct fp%d { struct fo%d o; };')):
    _k = 100 + _i
    add('flexible-struct-as-member/%d' % _i, 'decl', (_FAM + ' ' + _wrap) % ((_k,) * (1 + _wrap.count('%d'))), blockok=False)
add('init-negative-designator', 'decl', 'int in9[2] = { [-1] = 1 };')
# boundary versions of the range checks (index == length, width == type width + 1, value == max + 1)
add('init-designator-equal-to-length', 'decl', 'int in8b[3] = { 1, [3] = 7 };')
add('init-designator-equal-to-length-only', 'decl', 'int in8e[3] = { [3] = 7 };')
add('init-inner-designator-equal-to-length', 'decl', 'struct { int m[2][2]; int z; } in8c = { .m[1][2] = 3 };')
add('init-2d-designator-equal-to-length', 'decl', 'int in8d[2][3] = { [1][3] = 1 };')
add('init-outer-designator-equal-to-length', 'decl', 'int in8f[2][3] = { [2][0] = 1 };')
add('init-char-designator-equal-to-length', 'decl', 'char in8g[4] = { [4] = 1 };')
add('bitfield-char-width-9', 'decl', 'struct b7 { unsigned char x : 9; };')
add('bitfield-short-width-17', 'decl', 'struct b8 { short x : 17; };')
add('bitfield-long-width-65', 'decl', 'struct b9 { long x : 65; };')
add('bitfield-bool-width-2', 'decl', 'struct b10 { _Bool x : 2; };')
# width constraints of bit-fields as a product: type x named/unnamed x struct/union x position in the member list (seeded round 8:
# the width check skipped for unnamed bit-fields)
_bfn = 0
for _t, _bits in (('unsigned char', 8), ('signed char', 8), ('short', 16), ('unsigned short', 16), ('int', 32), ('unsigned', 32), ('long', 64), ('unsigned long long', 64), ('_Bool', 1)):
    for _nm in ('x', ''):
        for _su in ('struct', 'union'):
            for _pos, _fmt in (('alone', '%(t)s %(n)s : %(w)d;'), ('after-member', 'int a; %(t)s %(n)s : %(w)d;'), ('later-in-list', '%(t)s a : 1, %(n)s : %(w)d;'),
                               ('first-in-list', '%(t)s %(n)s : %(w)d, b : 1;'), ('before-member', '%(t)s %(n)s : %(w)d; int z;')):
                _bfn += 1
                add('bitfield-width/%s/%s/%s/%s/one-too-wide' % (_t.replace(' ', '-'), 'named' if _nm else 'unnamed', _su, _pos), 'decl',
                    '%s bw%d { %s };' % (_su, _bfn, _fmt % dict(t=_t, n=_nm, w=_bits + 1)))
    for _su in ('struct', 'union'):
        _bfn += 1
        add('bitfield-width/%s/unnamed/%s/negative' % (_t.replace(' ', '-'), _su), 'decl', '%s bw%d { int a; %s : -1; };' % (_su, _bfn, _t))
        _bfn += 1
        add('bitfield-width/%s/named/%s/zero-later-in-list' % (_t.replace(' ', '-'), _su), 'decl', '%s bw%d { %s a : 1, b : 0; };' % (_su, _bfn, _t))
add('fixed-enum-value-one-past-max', 'decl', 'enum fe1 : unsigned char { FE1 = 256 };', lang=False)
add('fixed-enum-value-negative-for-unsigned', 'decl', 'enum fe2 : unsigned { FE2 = -1 };', lang=False)
add('fixed-enum-implicit-value-overflows', 'decl', 'enum fe3 : unsigned char { FE3 = 255, FE3b };', lang=False)
add('alignas-zero-is-ok-but-3-not', 'decl', '_Alignas(6) char al9;')
add('static-assert-false-after-arith', 'decl', '_Static_assert(sizeof(int) == 3, "no");')
add('array-size-zero-minus-one', 'decl', 'int ar1b[1 - 2];')
add('too-many-arguments-by-one-of-three', 'expr', 'cfn3(1, 2, 3, 4)')
add('too-few-arguments-by-one-of-three', 'expr', 'cfn3(1, 2)')
add('excess-initializer-scalar', 'decl', 'int in17 = { 1, 2 };')
add('excess-initializer-array-by-one', 'decl', 'int in18[2] = { 1, 2, 3 };')
add('excess-initializer-struct-by-one', 'decl', 'struct cu3 { int a; int b; } in19 = { 1, 2, 3 };')
add('init-non-constant-designator', 'stmt', 'int in10[2] = { [cobj] = 1 };')
add('init-struct-with-scalar-expr-of-struct', 'decl', 'int in11 = (struct cs){0};', blockok=False)
add('init-function', 'decl', 'int in12(void) = 0;')
add('init-typedef', 'decl', 'typedef int in13 = 1;')
add('init-char-array-with-wide-string', 'decl', 'char in14[] = L"x";')
add('init-int-array-with-string', 'decl', 'int in15[] = "x";')
add('init-array-from-array', 'stmt', 'int in16[4] = carr;')
add('compound-literal-incomplete', 'expr', '(struct cinc){0}')
add('compound-literal-function-type', 'expr', '(int (void)){0}')
# --- static assertions, generic, builtins
add('static-assert-false', 'decl', '_Static_assert(0, "no");')
add('static-assert-non-constant', 'decl', '_Static_assert(cobj, "no");')
add('static-assert-float', 'decl', '_Static_assert(1.5, "no");', lang=False)
add('generic-no-match', 'expr', '_Generic(cobj, float: 1)')
add('generic-two-defaults', 'expr', '_Generic(cobj, default: 1, default: 2)')
add('generic-duplicate-compatible', 'expr', '_Generic(cobj, int: 1, ctd: 2)')
add('generic-incomplete-association', 'expr', '_Generic(cobj, struct cinc: 1, default: 2)')
add('generic-function-association', 'expr', '_Generic(cobj, int (void): 1, default: 2)')
add('offsetof-non-struct', 'expr', '__builtin_offsetof(int, m)')
add('offsetof-unknown-member', 'expr', '__builtin_offsetof(struct cs, nomember)')
add('va-arg-non-valist', 'expr', '__builtin_va_arg(cobj, int)', lang=False)
# --- literals
add('empty-char-constant', 'expr', "''")
add('bad-escape', 'expr', '"\\q"')
add('bad-hex-escape', 'expr', '"\\x"')
add('bad-exponent', 'expr', '1e')
add('bad-hex-prefix', 'expr', '0x')
add('bad-octal-digit', 'expr', '08')
add('bad-float-suffix', 'expr', '1.5xf')
add('bad-integer-suffix', 'expr', '1uu')
add('bad-binary', 'expr', '0b2')
add('hex-float-without-exponent', 'expr', '0x1.5')
add('integer-too-large', 'expr', '99999999999999999999999')
add('mixed-string-prefixes', 'expr', 'u"a" U"b"')
add('unterminated-string', 'line', 'char *us = "abc;')
add('unterminated-char', 'line', "int uc = 'a;")
add('unterminated-comment', 'line', 'int ucm; /* never closed')
add('stray-backslash', 'expr', '1 \\ 2')
add('stray-at', 'expr', '1 @ 2')
add('stray-dollar-op', 'expr', '1 ` 2')
# --- directives
add('unknown-directive', 'line', '#bogus')
add('include-directive', 'line', '#include <stdio.h>', lang=False)
add('if-directive', 'line', '#if 1\n#endif', lang=False)
add('ifdef-directive', 'line', '#ifdef X\n#endif', lang=False)
add('ifndef-directive', 'line', '#ifndef X\n#endif', lang=False)
add('elif-directive', 'line', '#elif 1')
add('endif-directive', 'line', '#endif')
add('error-directive', 'line', '#error stop')
add('token-paste', 'line', '#define PASTE(a, b) a ## b\nint PASTE(x, y);', lang=False)
add('define-without-name', 'line', '#define')
add('define-number', 'line', '#define 1 2')
add('define-duplicate-parameter', 'line', '#define DP(a, a) a')
add('define-bad-parameter-list', 'line', '#define BP(a b) a')
add('define-unterminated-parameters', 'line', '#define UP(a')
add('stringize-non-parameter', 'line', '#define SN(a) #b')
add('va-args-in-non-variadic', 'line', '#define VA(a) __VA_ARGS__')
add('incompatible-redefinition', 'line', '#define RD 1\n#define RD 2')
add('incompatible-redefinition-params', 'line', '#define RF(a) a\n#define RF(b) b')
add('undef-without-name', 'line', '#undef')
add('undef-extra-tokens', 'line', '#define UX 1\n#undef UX extra')
add('line-zero-or-bad', 'line', '#line x')
add('macro-too-few-arguments', 'line', '#define TF(a, b) a\nint tf = TF(1);')
add('macro-too-many-arguments', 'line', '#define TM(a) a\nint tm = TM(1, 2);')
add('macro-unterminated-invocation', 'line', '#define UI(a) a\nint ui = UI(1;')
# --- documented unsupported features (README "What's missing")
add('volatile-store', 'stmt', 'volatile int vs; vs = 1;', lang=False)
add('long-double-arithmetic', 'stmt', 'long double ld = 1.0L; ld = ld + 1;', lang=False)
add('long-double-conversion', 'stmt', 'long double ld2 = 1.0L; cobj = (int)ld2;', lang=False)
add('atomic-specifier', 'decl', '_Atomic int at1;', lang=False)
add('atomic-type-name', 'decl', '_Atomic(int) at2;', lang=False)
add('complex', 'decl', '_Complex double cx1;', lang=False)
add('imaginary', 'decl', '_Imaginary double im1;', lang=False)
add('inline-asm-statement', 'stmt', '__asm__("nop");', lang=False)
add('inline-asm-file-scope', 'decl', '__asm__("nop");', lang=False, blockok=False)
add('bitint', 'decl', '_BitInt(7) bi1;', lang=False)
add('decimal-float', 'decl', '_Decimal32 df1;', lang=False)
add('digraph', 'decl', 'int dg1<:2:>;', lang=False)
add('packed-bitfield', 'decl', 'struct __attribute__((packed)) pb1 { int a : 3; };', lang=False)
add('va-arg-struct', 'decl', 'struct cs vas(int n, ...) { __builtin_va_list ap; __builtin_va_start(ap, n); return __builtin_va_arg(ap, struct cs); }', lang=False, blockok=False)
add('typeof-bitfield', 'stmt', 'typeof(cstr.bf) tb;')
add('constexpr-unsupported', 'decl', 'constexpr int cx2 = 1;', lang=False)

ENTRIES = E
