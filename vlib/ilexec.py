"""ilexec: compile C with the cproc under test, translate the IL with il2c, build and run natively;
and the reference path (the same C through gcc / clang directly).

All scratch files live in a caller-provided directory (use workdir()) which the caller removes.
"""
import os
import shutil
import subprocess
import tempfile

from . import build, fs, il2c

CPP_FLAGS = ['-P', '-U__GNUC__', '-U__GNUC_MINOR__', '-D__STDC_NO_ATOMICS__', '-D__STDC_NO_COMPLEX__',
             '-U__SIZEOF_INT128__', '-U__PIC__', '-D__extension__=']


class CompileError(Exception):
    """cproc rejected or crashed on the source"""

    def __init__(self, status, err):
        Exception.__init__(self, 'cproc status %s: %s' % (status, err[:300]))
        self.status, self.err = status, err


def workdir(prefix='ilexec.'):
    base = os.environ.get('VERIF_TMP') or tempfile.gettempdir()
    return tempfile.mkdtemp(prefix=prefix, dir=base)


def cproc_il(src, target='x86_64-sysv', variant='fs'):
    """IL text (bytes) for C source `src` (bytes/str) via the fork-server of the working tree."""
    r = fs.server(variant).compile(src, target=target, cpu_s=20)
    if r.status != 0:
        raise CompileError(r.status, r.err.decode(errors='replace'))
    return r.out


def il_to_c(il, prefix='il_', export_map=None, extern_map=None):
    return il2c.translate(il, prefix=prefix, export_map=export_map, extern_map=extern_map)


def cc(cfiles, exe, cc='gcc', opt='-O0', sanitize=True, extra=(), timeout=600):
    """Compile and link C files into exe.  Returns (ok, diagnostics)."""
    cmd = [cc, opt, '-w', '-fno-builtin', '-o', exe] + list(extra)
    if sanitize:
        cmd += ['-fsanitize=address', '-fno-omit-frame-pointer']
    cmd += list(cfiles) + ['-lm']
    p = subprocess.run(cmd, stdout=subprocess.PIPE, stderr=subprocess.STDOUT, timeout=timeout)
    return p.returncode == 0, p.stdout.decode(errors='replace')


def cc_obj(cfile, obj, cc='gcc', opt='-O0', sanitize=False, extra=(), timeout=600):
    cmd = [cc, opt, '-w', '-fno-builtin', '-c', '-o', obj, cfile] + list(extra)
    if sanitize:
        cmd += ['-fsanitize=address', '-fno-omit-frame-pointer']
    p = subprocess.run(cmd, stdout=subprocess.PIPE, stderr=subprocess.STDOUT, timeout=timeout)
    return p.returncode == 0, p.stdout.decode(errors='replace')


def run(exe, args=(), stdin=b'', timeout=60):
    """(status, stdout, stderr); status = exit code or -signal; 'timeout' on expiry."""
    env = dict(os.environ, ASAN_OPTIONS='detect_leaks=0:exitcode=99', UBSAN_OPTIONS='halt_on_error=1:exitcode=98')
    try:
        p = subprocess.run([exe] + list(args), input=stdin, stdout=subprocess.PIPE, stderr=subprocess.PIPE, timeout=timeout, env=env)
    except subprocess.TimeoutExpired:
        return 'timeout', b'', b''
    return p.returncode, p.stdout, p.stderr


def build_via_cproc(src, d, name='t', prefix='il_', export_map=None, extern_map=None, target='x86_64-sysv'):
    """C source -> IL (kept as d/name.qbe) -> C (d/name.il.c).  Returns the path of the generated C file."""
    if isinstance(src, str):
        src = src.encode()
    il = cproc_il(src, target)
    with open(os.path.join(d, name + '.qbe'), 'wb') as f:
        f.write(il)
    c = il_to_c(il, prefix, export_map, extern_map)
    p = os.path.join(d, name + '.il.c')
    with open(p, 'w') as f:
        f.write(c)
    return p


def exec_program(src, d, name='p', cc_list=('gcc',), sanitize=True):
    """Whole program `src` (with main) through cproc+il2c: {$main -> main}.  Returns (status, stdout, stderr)."""
    cfile = build_via_cproc(src, d, name, export_map={'main': 'main'})
    exe = os.path.join(d, name + '.cproc.exe')
    ok, diag = cc([cfile], exe, sanitize=sanitize)
    if not ok:
        from .runner import SubjectFailure
        raise SubjectFailure('il-untranslatable/%s' % name, 'the IL emitted for a program of the %s stream translates to C that does not compile (malformed IL): %s' % (name, diag[-600:]),
                             files={'input.c': src if isinstance(src, bytes) else src.encode(), 'diagnostics.txt': diag.encode()}, cmd='$CPROC_QBE input.c')
    return run(exe)


def exec_reference(src, d, name='p', compiler='gcc', ubsan=True):
    """The same program compiled directly by gcc or clang (+UBSan): (status, stdout, stderr)."""
    if isinstance(src, str):
        src = src.encode()
    cfile = os.path.join(d, name + '.ref.c')
    with open(cfile, 'wb') as f:
        f.write(src)
    exe = os.path.join(d, '%s.%s.exe' % (name, compiler))
    cmd = [compiler, '-std=gnu11', '-O0', '-w', '-fno-builtin', '-o', exe, cfile, '-lm']
    if ubsan:
        cmd[3:3] = ['-fsanitize=undefined,float-cast-overflow,address', '-fno-sanitize-recover=all']
    p = subprocess.run(cmd, stdout=subprocess.PIPE, stderr=subprocess.STDOUT, timeout=600)
    if p.returncode != 0:
        return 'compile-error', p.stdout, b''
    return run(exe)
