"""layout — reference model R for C object layout (DESIGN.md appendix E.2) and the helpers the layout /
initialiser checks (C06, C07) share:

* a tiny type model (Scalar, Array, Record/Member, Enum) that renders itself as C,
* `layout(record, target)`: the run of the layout machine (bit position, alignment, flexible flag) over the
  member list for x86_64 SysV, AAPCS64 and RISC-V LP64 — bit-fields incl. zero-width and unnamed, packed,
  _Alignas, flexible array members; `enum_underlying` for enums (GNU / N3029 rule),
* `parse_asm(text)`: data objects (size, alignment, bytes, relocations) out of gcc / clang `-S` output,
* `parse_qbe_data(il)`: the same out of cproc's IL (fast path for units with thousands of definitions).

Nothing here looks at cproc's sources: the rules are those of the psABI documents as implemented by the
platform compilers, which the checks consult as witnesses wherever cproc and this model disagree.
"""
import re
import struct

TARGETS = ('x86_64-sysv', 'aarch64', 'riscv64')
MAX_OBJECT = 1 << 24        # larger data objects are treated as unreadable


def alignup(x, a):
    return (x + a - 1) // a * a


# ---------------------------------------------------------------------------
# types


class Scalar:
    """Arithmetic or pointer type.  All three targets are LP64 with identical sizes/alignments for these."""
    kind = 'scalar'

    def __init__(self, cname, size, cls, signed=True, align=None):
        self.cname, self.size, self.cls, self.signed = cname, size, cls, signed
        self.align = align or size

    def decl(self, name):
        if self.cls == 'ptr':
            return self.cname.replace('@', name or '')
        return (self.cname + ' ' + name) if name else self.cname

    def __repr__(self):
        return self.cname.replace('@', '')

    def minus_one(self):
        """bytes of the value the C expression -1 (or (T)-1) converts to"""
        if self.cls == 'float':
            return struct.pack('<f' if self.size == 4 else '<d', -1.0)
        if self.cls == 'bool':
            return b'\x01'
        return b'\xff' * self.size


CHAR = Scalar('char', 1, 'int')          # signedness of plain char is target dependent, irrelevant for layout
SCHAR = Scalar('signed char', 1, 'int')
UCHAR = Scalar('unsigned char', 1, 'int', False)
SHORT = Scalar('short', 2, 'int')
USHORT = Scalar('unsigned short', 2, 'int', False)
INT = Scalar('int', 4, 'int')
UINT = Scalar('unsigned', 4, 'int', False)
LONG = Scalar('long', 8, 'int')
ULONG = Scalar('unsigned long', 8, 'int', False)
LLONG = Scalar('long long', 8, 'int')
ULLONG = Scalar('unsigned long long', 8, 'int', False)
BOOL = Scalar('_Bool', 1, 'bool', False)
FLOAT = Scalar('float', 4, 'float')
DOUBLE = Scalar('double', 8, 'float')
LDOUBLE = Scalar('long double', 16, 'float')
PTR = Scalar('void *@', 8, 'ptr', False)
INTPTR = Scalar('int *@', 8, 'ptr', False)
CHARPTR = Scalar('const char *@', 8, 'ptr', False)
FUNCPTR = Scalar('int (*@)(void)', 8, 'ptr', False)


class Array:
    kind = 'array'

    def __init__(self, elem, n):
        self.elem, self.n = elem, n      # n None: incomplete / flexible

    def decl(self, name):
        return self.elem.decl('%s[%s]' % (name or '', '' if self.n is None else self.n))

    def __repr__(self):
        return '%r[%s]' % (self.elem, '' if self.n is None else self.n)


class Member:
    def __init__(self, name, type, width=None, alignas=None, alignas_spelling=None):
        self.name, self.type, self.width = name, type, width
        self.alignas = alignas                    # effective requested alignment (int) or None
        self.alignas_spelling = alignas_spelling  # text put in front of the declaration

    def symbol(self):
        """the member symbol of the layout machine's alphabet"""
        if self.width is not None:
            return '%r:%d%s' % (self.type, self.width, '' if self.name else 'u')
        s = repr(self.type)
        if self.alignas:
            s = 'A%d ' % self.alignas + s
        return s

    def decl(self):
        pre = (self.alignas_spelling + ' ') if self.alignas_spelling else ''
        if self.width is not None:
            return '%s%s : %d;' % (pre, self.type.decl(self.name or '').rstrip(), self.width)
        if self.name is None:           # anonymous struct/union
            return pre + self.type.decl('').rstrip() + ';'
        return pre + self.type.decl(self.name) + ';'


class Record:
    def __init__(self, kind, tag, members, packed=False, inline=False):
        self.kind, self.tag, self.members, self.packed = kind, tag, members, packed
        self.inline = inline        # render the definition at every use (anonymous members, nested definitions)

    def spec(self):
        if self.inline or self.tag is None:
            return self.definition(False)
        return '%s %s' % (self.kind, self.tag)

    def definition(self, semi=True):
        return '%s %s%s{ %s }%s' % (self.kind, '__attribute__((packed)) ' if self.packed else '',
                                    (self.tag + ' ') if self.tag else '', ' '.join(m.decl() for m in self.members), ';' if semi else '')

    def decl(self, name):
        return (self.spec() + ' ' + name) if name else self.spec()

    def __repr__(self):
        return '%s{%s}' % (self.kind[0], ','.join(m.symbol() for m in self.members))


# ---------------------------------------------------------------------------
# the layout machine


class Field:
    __slots__ = ('member', 'bitoff', 'bits')

    def __init__(self, member, bitoff, bits):
        self.member, self.bitoff, self.bits = member, bitoff, bits

    @property
    def offset(self):
        return self.bitoff // 8


class RecLayout:
    __slots__ = ('size', 'align', 'fields', 'flexible')

    def __init__(self, size, align, fields, flexible):
        self.size, self.align, self.fields, self.flexible = size, align, fields, flexible

    def field(self, name):
        for f in self.fields:
            if f.member.name == name:
                return f
        raise KeyError(name)


def is_flexible(t, target='x86_64-sysv'):
    if isinstance(t, Array):
        return t.n is None
    if isinstance(t, Record):
        return layout(t, target).flexible
    return False


def size_align(t, target='x86_64-sysv'):
    if isinstance(t, Scalar):
        return t.size, t.align
    if isinstance(t, Array):
        s, a = size_align(t.elem, target)
        return s * (t.n or 0), a
    if isinstance(t, Record):
        l = layout(t, target)
        return l.size, l.align
    if isinstance(t, Enum):
        u = t.underlying()
        return u.size, u.align
    raise TypeError(t)


_cache = {}


def layout(rec, target='x86_64-sysv', trace=None):
    """Run the layout machine over rec.members.  `trace(state, symbol)` is called before every member with
    state = (bit position mod 64, alignment so far, flexible flag)."""
    key = (id(rec), target)
    if trace is None and key in _cache and _cache[key][0] is rec:
        return _cache[key][1]
    struct_ = rec.kind == 'struct'
    bitpos = 0          # struct: next free bit; union: widest member so far
    align = 1
    flex = False
    fields = []
    for m in rec.members:
        if trace is not None:
            trace((bitpos % 64, align, flex), m.symbol())
        s, a = size_align(m.type, target)
        if m.width is None:
            fl = is_flexible(m.type, target)
            if rec.packed:
                a = 1
            if m.alignas and m.alignas > a:
                a = m.alignas
            if struct_:
                off = alignup((bitpos + 7) // 8, a)
                fields.append(Field(m, off * 8, s * 8))
                bitpos = 8 * (off + s)
            else:
                fields.append(Field(m, 0, s * 8))
                bitpos = max(bitpos, 8 * s)
            align = max(align, a)
            flex = flex or fl
        else:
            u, w = 8 * s, m.width
            if struct_:
                if w == 0:
                    bitpos = alignup(bitpos, u)
                else:
                    if bitpos % u + w > u:
                        bitpos = alignup(bitpos, u)
                    if m.name:
                        fields.append(Field(m, bitpos, w))
                    bitpos += w
            else:
                if m.name:
                    fields.append(Field(m, 0, w))
                bitpos = max(bitpos, w)
            # x86-64 psABI / RISC-V: "unnamed bit-fields' types do not affect the alignment of a structure";
            # AAPCS64: the container type of every bit-field, named or not, zero-width or not, contributes
            if m.name or target == 'aarch64':
                align = max(align, a)
    size = alignup((bitpos + 7) // 8, align)
    res = RecLayout(size, align, fields, flex)
    if trace is None:
        _cache[key] = (rec, res)
    return res


def leaves(t, target='x86_64-sysv', base=0, path=()):
    """All scalar leaves of a type as (path, bit offset, bits, scalar type, is_bitfield); path elements are
    member names, array indices, or None for anonymous members."""
    if isinstance(t, (Scalar, Enum)):
        s, _ = size_align(t, target)
        yield path, base, 8 * s, t, False
    elif isinstance(t, Array):
        s, _ = size_align(t.elem, target)
        for i in range(t.n or 0):
            yield from leaves(t.elem, target, base + 8 * s * i, path + (i,))
    else:
        for f in layout(t, target).fields:
            if f.member.width is not None:
                yield path + (f.member.name,), base + f.bitoff, f.bits, f.member.type, True
            else:
                yield from leaves(f.member.type, target, base + f.bitoff, path + (f.member.name,))


def value_mask(t, target='x86_64-sysv'):
    """bytes object with 1-bits where the representation of t holds a member value (0 = padding)."""
    s, _ = size_align(t, target)
    m = 0
    for _, off, bits, _, _ in leaves(t, target):
        m |= ((1 << bits) - 1) << off
    return m.to_bytes(s, 'little')


def set_bits(img, bitoff, bits, value):
    """store `value` (int) into bits [bitoff, bitoff+bits) of bytearray img (little endian)"""
    n = int.from_bytes(img, 'little')
    mask = ((1 << bits) - 1) << bitoff
    n = (n & ~mask) | ((value << bitoff) & mask)
    img[:] = n.to_bytes(len(img), 'little')


# ---------------------------------------------------------------------------
# enums


class Enum:
    """enum with enumerators [(name, value expression text or None, value)]; `fixed` = Scalar or None."""
    kind = 'enum'

    def __init__(self, tag, enumerators, fixed=None):
        self.tag, self.enumerators, self.fixed = tag, enumerators, fixed

    def underlying(self):
        return self.fixed or enum_underlying([v for _, _, v in self.enumerators])

    def decl(self, name):
        return ('enum %s %s' % (self.tag, name)) if name else 'enum ' + self.tag

    def definition(self):
        return 'enum %s%s { %s };' % (self.tag, (' : ' + self.fixed.cname) if self.fixed else '',
                                      ', '.join(n if e is None else '%s = %s' % (n, e) for n, e, _ in self.enumerators))


INT_MIN, INT_MAX, UINT_MAX = -2**31, 2**31 - 1, 2**32 - 1
LONG_MIN, LONG_MAX, ULONG_MAX = -2**63, 2**63 - 1, 2**64 - 1


def enum_underlying(values):
    """Underlying type the platform compilers (gcc, clang; all three LP64 ABIs) choose: unsigned int when no
    enumerator is negative and all fit, int when all fit, otherwise the first of long / unsigned long that
    holds them all.  None when no integer type can."""
    lo, hi = min(values), max(values)
    if lo >= 0:
        if hi <= UINT_MAX:
            return UINT
        return ULONG if hi <= ULONG_MAX else None
    if lo >= INT_MIN and hi <= INT_MAX:
        return INT
    if lo >= LONG_MIN and hi <= LONG_MAX:
        return LONG
    return None


def fits(t, v):
    if t.cls == 'bool':
        return v in (0, 1)
    if t.signed:
        return -(1 << (8 * t.size - 1)) <= v < (1 << (8 * t.size - 1))
    return 0 <= v < (1 << (8 * t.size))


# ---------------------------------------------------------------------------
# data objects in assembler text written by gcc / clang

class DataObj:
    __slots__ = ('name', 'size', 'align', 'image', 'relocs')

    def __init__(self, name, size=None, align=1, image=b'', relocs=()):
        self.name, self.size, self.align, self.image, self.relocs = name, size, align, image, list(relocs)

    def key(self):
        return (self.image, tuple(self.relocs))


class AsmError(Exception):
    pass


_INT_DIRS = {
    '.byte': 1, '.short': 2, '.value': 2, '.hword': 2, '.half': 2, '.2byte': 2,
    '.long': 4, '.word': 4, '.int': 4, '.4byte': 4,
    '.quad': 8, '.xword': 8, '.dword': 8, '.8byte': 8,
}
_IGNORED = {'.type', '.globl', '.global', '.local', '.weak', '.file', '.ident', '.addrsig', '.addrsig_sym', '.text', '.option',
            '.attribute', '.arch', '.cfi_startproc', '.cfi_endproc', '.loc', '.hidden', '.protected', '.internal', '.cfi_def_cfa',
            '.cfi_offset', '.cfi_def_cfa_offset', '.cfi_def_cfa_register', '.cfi_restore', '.variant_pcs', '.intel_syntax', '.set'}
_SECTION_DIRS = {'.section', '.data', '.bss', '.rodata', '.text', '.pushsection', '.popsection', '.previous', '.tbss', '.tdata'}
_comment_re = re.compile(r'\s+(?:#|//).*$')
_label_re = re.compile(r'^([A-Za-z_.$][\w.$]*):\s*(.*)$')
_sym_re = re.compile(r'^\(?([A-Za-z_.$][\w.$]*)\)?\s*(?:([+-])\s*(\d+|0x[0-9a-fA-F]+))?$')
_ESC = {'n': 10, 't': 9, 'b': 8, 'f': 12, 'r': 13, 'v': 11, 'a': 7, '\\': 0x5c, '"': 0x22, "'": 0x27}


def _asm_strings(arg):
    """bytes of every "..." literal in the operand of .ascii/.asciz/.string"""
    out = []
    i, n = 0, len(arg)
    while i < n:
        if arg[i] != '"':
            if arg[i] in ' \t,':
                i += 1
                continue
            if arg[i] == '#' or arg[i:i + 2] == '//':
                break
            raise AsmError('bad string operand %r' % arg)
        i += 1
        b = bytearray()
        while True:
            if i >= n:
                raise AsmError('unterminated string %r' % arg)
            c = arg[i]
            if c == '"':
                i += 1
                break
            if c == '\\':
                c = arg[i + 1]
                if c in '01234567':
                    j = i + 1
                    while j < n and j < i + 4 and arg[j] in '01234567':
                        j += 1
                    b.append(int(arg[i + 1:j], 8) & 0xff)
                    i = j
                elif c == 'x':
                    j = i + 2
                    while j < n and arg[j] in '0123456789abcdefABCDEF':
                        j += 1
                    b.append(int(arg[i + 2:j], 16) & 0xff)
                    i = j
                elif c in _ESC:
                    b.append(_ESC[c])
                    i += 2
                else:
                    raise AsmError('unknown escape in %r' % arg)
            else:
                b += c.encode('latin-1')
                i += 1
        out.append(bytes(b))
    return out


def _asm_int(s):
    s = s.strip()
    try:
        return int(s, 0)
    except ValueError:
        return None


def _split_operands(arg):
    return [a.strip() for a in arg.split(',') if a.strip()]


def parse_asm(text, align_is_p2=False):
    """{name: DataObj} for every labelled data object in gcc/clang assembler output.  `.align n` is bytes
    (gcc on x86) unless align_is_p2.  Raises AsmError on anything that looks like data and is not understood."""
    if isinstance(text, bytes):
        text = text.decode('latin-1')
    objs = {}
    sizes = {}
    cur = None          # current DataObj being filled
    curimg = None
    pend_align = 1
    in_text = False
    for raw in text.split('\n'):
        ln = raw.strip()
        if not ln or ln[0] in '#@' or ln.startswith('//'):
            continue
        if '"' not in ln:
            ln = _comment_re.sub('', ln)
        m = _label_re.match(ln)
        if m and not ln.startswith('.ascii') and not ln.startswith('.string'):
            name, ln = m.group(1), m.group(2).strip()
            if cur is not None:
                cur.image = bytes(curimg)
            if in_text:
                cur = None
            else:
                cur = objs[name] = DataObj(name, None, pend_align)
                curimg = bytearray()
            pend_align = 1
            if not ln:
                continue
        sp = ln.split(None, 1)
        d = sp[0]
        arg = sp[1] if len(sp) > 1 else ''
        if d[0] != '.':
            if not in_text:
                raise AsmError('instruction outside a text section: %r' % ln)
            continue
        if d in _SECTION_DIRS:
            if d == '.text' or (d in ('.section', '.pushsection') and re.match(r'\.?(text|init|fini)', arg.lstrip('"'))):
                in_text = True
            elif d in ('.popsection', '.previous'):
                pass
            else:
                in_text = False
            continue
        if d in ('.p2align', '.align', '.balign'):
            ops = _split_operands(arg)
            v = _asm_int(ops[0])
            if v is None:
                raise AsmError('bad alignment %r' % ln)
            if d == '.p2align' or (d == '.align' and align_is_p2):
                v = 1 << v
            pend_align = v
            continue
        if d == '.size':
            ops = _split_operands(arg)
            v = _asm_int(ops[1]) if len(ops) > 1 else None
            if v is not None:
                sizes[ops[0]] = v
            continue
        if d in ('.comm', '.lcomm'):
            ops = _split_operands(arg)
            sz = _asm_int(ops[1])
            al = _asm_int(ops[2]) if len(ops) > 2 else 1
            o = objs[ops[0]] = DataObj(ops[0], sz, al, bytes(sz))
            sizes[ops[0]] = sz
            continue
        if in_text or cur is None:
            if d in _IGNORED or in_text:
                continue
            if d in _INT_DIRS or d in ('.zero', '.space', '.skip', '.ascii', '.asciz', '.string', '.fill'):
                raise AsmError('data directive without a label: %r' % ln)
            continue
        if d in _INT_DIRS:
            sz = _INT_DIRS[d]
            for op in _split_operands(arg):
                v = _asm_int(op)
                if v is not None:
                    curimg += (v % (1 << (8 * sz))).to_bytes(sz, 'little')
                    continue
                ms = _sym_re.match(op)
                if not ms:
                    raise AsmError('bad operand %r in %r' % (op, ln))
                add = int(ms.group(3), 0) if ms.group(3) else 0
                if ms.group(2) == '-':
                    add = -add
                cur.relocs.append((len(curimg), sz, ms.group(1), add))
                curimg += bytes(sz)
        elif d in ('.zero', '.space', '.skip'):
            ops = _split_operands(arg)
            n = _asm_int(ops[0])
            fill = _asm_int(ops[1]) if len(ops) > 1 else 0
            if n is None or fill is None or not 0 <= n <= MAX_OBJECT:
                raise AsmError('bad %r' % ln)
            curimg += bytes([fill & 0xff]) * n
        elif d == '.fill':
            ops = _split_operands(arg)
            rep = _asm_int(ops[0])
            sz = _asm_int(ops[1]) if len(ops) > 1 else 1
            val = _asm_int(ops[2]) if len(ops) > 2 else 0
            curimg += (val % (1 << (8 * sz))).to_bytes(sz, 'little') * rep
        elif d == '.ascii':
            for s in _asm_strings(arg):
                curimg += s
        elif d in ('.asciz', '.string'):
            for s in _asm_strings(arg):
                curimg += s + b'\0'
        elif d in _IGNORED:
            continue
        else:
            raise AsmError('unknown directive inside data object %s: %r' % (cur.name, ln))
    if cur is not None:
        cur.image = bytes(curimg)
    for name, o in list(objs.items()):
        if name in sizes:
            o.size = sizes[name]
            if len(o.image) != o.size:
                raise AsmError('object %s: .size %d but %d bytes of data' % (name, o.size, len(o.image)))
        else:
            o.size = len(o.image)
    return objs


def resolve_relocs(objs, o, strsyms=('.L',)):
    """relocations of o with references to anonymous string objects replaced by their contents:
    [(offset, size, ('sym', name) | ('str', bytes), addend)]"""
    out = []
    for off, sz, sym, add in o.relocs:
        if sym.startswith(strsyms) and sym in objs:
            out.append((off, sz, ('str', objs[sym].image), add))
        else:
            out.append((off, sz, ('sym', sym), add))
    return out


# ---------------------------------------------------------------------------
# data definitions in cproc's IL — fast path

_qbe_def_re = re.compile(r'^(?:(?:export|thread|section\s+"[^"]*"(?:\s+"[^"]*")?)\s+)*data\s+(\$[^\s=]+)\s*=\s*(?:align\s+(\d+)\s*)?\{(.*)\}\s*$')
_qbe_tok_re = re.compile(r'\s*(?:([bhwlsdz])\s+|"((?:[^"\\]|\\.)*)"|(\$[^\s,+]+)(?:\s*\+\s*(\d+))?|([sd])_(\S+?)(?=[,\s]|$)|(-?\d+)|,)')
_QSIZE = {'b': 1, 'h': 2, 'w': 4, 'l': 8, 's': 4, 'd': 8}


def _qbe_unescape(s):
    out = bytearray()
    i, n = 0, len(s)
    while i < n:
        c = s[i]
        if c == '\\':
            j = i + 1
            if s[j] in '01234567':
                k = j
                while k < n and k < j + 3 and s[k] in '01234567':
                    k += 1
                out.append(int(s[j:k], 8) & 0xff)
                i = k
                continue
            out.append(_ESC.get(s[j], ord(s[j])))
            i += 2
            continue
        out += c.encode('latin-1')
        i += 1
    return bytes(out)


def parse_qbe_data(il):
    """{name without '$': DataObj} for every one-line `data` definition of cproc's output."""
    if isinstance(il, bytes):
        il = il.decode('latin-1')
    objs = {}
    for ln in il.split('\n'):
        if 'data ' not in ln or ln.startswith(('\t', '@', 'function', 'type')):
            continue
        m = _qbe_def_re.match(ln)
        if not m:
            continue
        name, al, body = m.group(1), int(m.group(2) or 1), m.group(3)
        img = bytearray()
        rel = []
        ty = None
        pos = 0
        body = body.strip()
        while pos < len(body):
            t = _qbe_tok_re.match(body, pos)
            if not t:
                raise AsmError('cannot parse data item at %r' % body[pos:pos + 40])
            pos = t.end()
            if t.group(1):
                ty = t.group(1)
            elif t.group(2) is not None:
                img += _qbe_unescape(t.group(2))
            elif t.group(3):
                rel.append((len(img), _QSIZE[ty], t.group(3)[1:], int(t.group(4) or 0)))
                img += bytes(_QSIZE[ty])
            elif t.group(5):
                v = float(t.group(6))
                try:
                    bits = struct.pack('<f', v) if t.group(5) == 's' else struct.pack('<d', v)
                except OverflowError:
                    bits = struct.pack('<f', float('inf') if v > 0 else float('-inf'))
                img += (bits + bytes(8))[:_QSIZE[ty]]
            elif t.group(7) is not None:
                v = int(t.group(7))
                if ty == 'z':
                    if not 0 <= v <= MAX_OBJECT:
                        raise AsmError('absurd zero fill of %d bytes in %s' % (v, name))
                    img += bytes(v)
                else:
                    img += (v % (1 << (8 * _QSIZE[ty]))).to_bytes(_QSIZE[ty], 'little')
        objs[name[1:]] = DataObj(name[1:], len(img), al, bytes(img), rel)
    return objs
