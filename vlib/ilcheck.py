"""ilcheck: independent validator for QBE IL modules (property C03).

check(text) -> list of problem strings (empty = well-formed).  Rules: DESIGN.md 3.3 / appendix A.
Each problem string starts with a stable class tag, e.g. 'undefined-block: ...'.
"""
from . import ilparse

BASE = ('w', 'l', 's', 'd')
INT = ('w', 'l')
FLT = ('s', 'd')

# op -> (allowed result classes, argument spec)
# argument spec entries: 'T' same as result class, 'w','l','s','d','m' fixed, 'I' w or l by suffix... see table
ARITH = {'add': 'wlsd', 'sub': 'wlsd', 'div': 'wlsd', 'mul': 'wlsd'}
INTOPS = ('udiv', 'rem', 'urem', 'or', 'xor', 'and')
SHIFTS = ('sar', 'shr', 'shl')
LOADS = {'loadsb': 'wl', 'loadub': 'wl', 'loadsh': 'wl', 'loaduh': 'wl', 'loadsw': 'wl', 'loaduw': 'wl', 'loadw': 'wl',
         'loadl': 'l', 'loads': 's', 'loadd': 'd', 'load': 'wlsd'}
STORES = {'storeb': 'w', 'storeh': 'w', 'storew': 'w', 'storel': 'l', 'stores': 's', 'stored': 'd'}
EXTS = {'extsb': ('wl', 'w'), 'extub': ('wl', 'w'), 'extsh': ('wl', 'w'), 'extuh': ('wl', 'w'),
        'extsw': ('l', 'w'), 'extuw': ('l', 'w'), 'exts': ('d', 's'), 'truncd': ('s', 'd'),
        'stosi': ('wl', 's'), 'stoui': ('wl', 's'), 'dtosi': ('wl', 'd'), 'dtoui': ('wl', 'd'),
        'swtof': ('sd', 'w'), 'uwtof': ('sd', 'w'), 'sltof': ('sd', 'l'), 'ultof': ('sd', 'l')}
CMPI = ('eq', 'ne', 'sle', 'slt', 'sge', 'sgt', 'ule', 'ult', 'uge', 'ugt')
CMPF = ('eq', 'ne', 'le', 'lt', 'ge', 'gt', 'o', 'uo')
CMP = {}
for c in CMPI:
    CMP['c' + c + 'w'] = 'w'
    CMP['c' + c + 'l'] = 'l'
for c in CMPF:
    CMP['c' + c + 's'] = 's'
    CMP['c' + c + 'd'] = 'd'


def _cls_of_abity(ty):
    if ty in BASE:
        return ty
    if ty in ilparse.SUBW:
        return 'w'
    return 'l'  # aggregate: address


class FuncCheck:
    def __init__(self, mod, f, sigs, out):
        self.m, self.f, self.sigs, self.out = mod, f, sigs, out
        self.defs = {}     # temp -> (class, block index, position) position -1 = parameter, -0.5 phi
        self.blocks = {b.name: i for i, b in enumerate(f.blocks)}

    def err(self, tag, msg, line=None):
        self.out.append('%s: function %s%s: %s' % (tag, self.f.name, ' line %d' % line if line else '', msg))

    def define(self, name, cls, bi, pos, line):
        if name in self.defs:
            self.err('temporary-redefined', '%s defined more than once' % name, line)
            return
        self.defs[name] = (cls, bi, pos)

    def run(self):
        f = self.f
        if len(self.blocks) != len(f.blocks):
            self.err('duplicate-block', 'a block label is defined twice')
        if f.retty and f.retty.startswith(':') and f.retty not in self.m.types:
            self.err('undefined-type', 'return type %s' % f.retty, f.line)
        for ty, name in f.params:
            if ty.startswith(':') and ty not in self.m.types:
                self.err('undefined-type', 'parameter type %s' % ty, f.line)
            self.define(name, _cls_of_abity(ty), 0, -1, f.line)
        if f.env:
            self.define(f.env, 'l', 0, -1, f.line)
        for bi, b in enumerate(f.blocks):
            for ph in b.phis:
                self.define(ph.res, ph.cls, bi, -0.5, ph.line)
            for k, ins in enumerate(b.insts):
                if ins.res is not None:
                    self.define(ins.res, _cls_of_abity(ins.cls) if ins.op == 'call' else ins.cls, bi, k, ins.line)
        # CFG
        n = len(f.blocks)
        succ = [[] for _ in range(n)]
        for bi, b in enumerate(f.blocks):
            j = b.jump
            if j is None:
                if bi + 1 < n:
                    succ[bi].append(bi + 1)
                else:
                    self.err('unterminated-function', 'last block %s has no jump' % b.name, b.line)
            elif j.op in ('jmp', 'jnz'):
                for t in j.targets:
                    if t not in self.blocks:
                        self.err('undefined-block', 'jump to %s which does not exist' % t, j.line)
                    else:
                        succ[bi].append(self.blocks[t])
        pred = [[] for _ in range(n)]
        for a in range(n):
            for s in succ[a]:
                if a not in pred[s]:
                    pred[s].append(a)
        # reachability + dominators (iterative, sets)
        reach = set()
        stack = [0]
        while stack:
            x = stack.pop()
            if x in reach:
                continue
            reach.add(x)
            stack += succ[x]
        order = [i for i in range(n) if i in reach]
        dom = {i: set(order) for i in order}
        dom[0] = {0}
        changed = True
        while changed:
            changed = False
            for i in order:
                if i == 0:
                    continue
                ps = [p for p in pred[i] if p in reach]
                new = set.intersection(*(dom[p] for p in ps)) if ps else set()
                new = new | {i}
                if new != dom[i]:
                    dom[i] = new
                    changed = True
        self.dom, self.reach, self.pred = dom, reach, pred
        # uses
        for bi, b in enumerate(f.blocks):
            for ph in b.phis:
                labs = [l for l, _ in ph.args]
                want = sorted(f.blocks[p].name for p in pred[bi])
                if bi in reach and sorted(labs) != want:
                    self.err('phi-predecessors', 'phi %s in %s names %s but the predecessors are %s' % (ph.res, b.name, sorted(labs), want), ph.line)
                for l, v in ph.args:
                    if l not in self.blocks:
                        self.err('undefined-block', 'phi source %s does not exist' % l, ph.line)
                        continue
                    self.use(v, ph.cls, self.blocks[l], 10 ** 9, ph.line, 'phi operand')
            for k, ins in enumerate(b.insts):
                self.inst(ins, bi, k)
            j = b.jump
            if j is not None:
                if j.op == 'jnz':
                    self.use(j.arg, 'w', bi, 10 ** 9, j.line, 'jnz argument')
                elif j.op == 'ret':
                    if j.arg is not None:
                        if f.retty is None:
                            self.err('return-class', 'ret with a value in a function without return type', j.line)
                        else:
                            self.use(j.arg, _cls_of_abity(f.retty), bi, 10 ** 9, j.line, 'ret value')
                    # `ret` without a value in a function with a return type is accepted by QBE (Jret0):
                    # a C function that falls off its end is valid as long as the value is not used

    def use(self, v, want, bi, pos, line, what):
        """v used at (block bi, position pos) where class `want` ('w','l','s','d','m') is expected."""
        if want == 'm':
            want = 'l'
        k = v[0]
        if k == 'int':
            if want not in INT:
                self.err('operand-class', '%s: integer constant where class %s is expected' % (what, want), line)
            return
        if k in ('s', 'd'):
            if want not in FLT:
                self.err('operand-class', '%s: floating constant where class %s is expected' % (what, want), line)
            return
        if k == 'glo':
            if want not in INT:
                self.err('operand-class', '%s: address %s where class %s is expected' % (what, v[1], want), line)
            return
        name = v[1]
        d = self.defs.get(name)
        if d is None:
            self.err('undefined-temporary', '%s: %s is never defined' % (what, name), line)
            return
        cls, dbi, dpos = d
        ok = cls == want or (want == 'w' and cls == 'l')
        if not ok:
            self.err('operand-class', '%s: %s has class %s where %s is expected' % (what, name, cls, want), line)
        if bi in self.reach:
            if dbi == bi:
                if not dpos < pos:
                    self.err('use-before-definition', '%s: %s is used before its definition in the same block' % (what, name), line)
            elif dbi not in self.dom.get(bi, ()):
                self.err('definition-does-not-dominate-use', '%s: definition of %s (block %s) does not dominate block %s' % (
                    what, name, self.f.blocks[dbi].name, self.f.blocks[bi].name), line)

    def inst(self, ins, bi, k):
        op, line = ins.op, ins.line
        a = ins.args
        res = ins.cls

        def need(n):
            if len(a) != n:
                self.err('operand-count', '%s takes %d operands, has %d' % (op, n, len(a)), line)
                return False
            return True

        def result(allowed):
            if ins.res is None:
                self.err('missing-result', '%s needs a result' % op, line)
                return False
            if res not in allowed:
                self.err('result-class', '%s cannot produce class %s' % (op, res), line)
                return False
            return True

        def noresult():
            if ins.res is not None:
                self.err('unexpected-result', '%s has no result' % op, line)

        u = lambda v, want, what='operand': self.use(v, want, bi, k, line, '%s %s' % (op, what))
        if op == 'call':
            self.call(ins, bi, k)
        elif op in ARITH:
            if need(2) and result(ARITH[op]):
                u(a[0], res), u(a[1], res)
        elif op == 'neg':
            if need(1) and result('wlsd'):
                u(a[0], res)
        elif op in INTOPS:
            if need(2) and result('wl'):
                u(a[0], res), u(a[1], res)
        elif op in SHIFTS:
            if need(2) and result('wl'):
                u(a[0], res), u(a[1], 'w')
        elif op in CMP:
            if need(2) and result('wl'):
                u(a[0], CMP[op]), u(a[1], CMP[op])
        elif op in LOADS:
            if need(1) and result(LOADS[op]):
                u(a[0], 'm')
        elif op in STORES:
            noresult()
            if need(2):
                u(a[0], STORES[op]), u(a[1], 'm')
        elif op in EXTS:
            if need(1) and result(EXTS[op][0]):
                u(a[0], EXTS[op][1])
        elif op == 'cast':
            if need(1) and result('wlsd'):
                u(a[0], {'w': 's', 'l': 'd', 's': 'w', 'd': 'l'}[res])
        elif op == 'copy':
            if need(1) and result('wlsd'):
                u(a[0], res)
        elif op in ('alloc4', 'alloc8', 'alloc16'):
            if need(1) and result('l'):
                u(a[0], 'l')
        elif op == 'blit':
            noresult()
            if need(3):
                u(a[0], 'm'), u(a[1], 'm')
                if a[2][0] != 'int' or a[2][1] < 0:
                    self.err('operand-class', 'blit size must be a non-negative integer constant', line)
        elif op == 'vastart':
            noresult()
            if need(1):
                u(a[0], 'm')
        elif op == 'vaarg':
            if need(1) and result('wlsd'):
                u(a[0], 'm')
        elif op in ('dbgloc', 'nop'):
            pass
        else:
            self.err('unknown-instruction', op, line)

    def call(self, ins, bi, k):
        line = ins.line
        callee = ins.args[0]
        self.use(callee, 'm', bi, k, line, 'call target')
        if ins.cls is not None and ins.cls.startswith(':') and ins.cls not in self.m.types:
            self.err('undefined-type', 'call result type %s' % ins.cls, line)
        for ty, v in ins.callargs:
            if ty.startswith(':'):
                if ty not in self.m.types:
                    self.err('undefined-type', 'call argument type %s' % ty, line)
                self.use(v, 'l', bi, k, line, 'aggregate argument')
            else:
                self.use(v, _cls_of_abity(ty), bi, k, line, 'call argument')
        if ins.envarg is not None:
            self.use(ins.envarg, 'l', bi, k, line, 'env argument')
        if callee[0] == 'glo' and callee[1] in self.sigs:
            g = self.sigs[callee[1]]
            named = ins.callargs if ins.vararg_at is None else ins.callargs[:ins.vararg_at]
            if g.variadic:
                if ins.vararg_at is None or ins.vararg_at != len(g.params):
                    self.err('call-signature', 'call of variadic %s: variadic marker at %s, callee has %d named parameters' % (
                        callee[1], ins.vararg_at, len(g.params)), line)
            elif ins.vararg_at is not None or len(ins.callargs) != len(g.params):
                self.err('call-signature', 'call of %s with %d arguments%s, definition has %d parameters' % (
                    callee[1], len(ins.callargs), ' and a variadic marker' if ins.vararg_at is not None else '', len(g.params)), line)
            for (aty, _), (pty, _) in zip(named, g.params):
                if _abi_norm(aty) != _abi_norm(pty):
                    self.err('call-signature', 'call of %s passes %s where the definition takes %s' % (callee[1], aty, pty), line)
            if ins.res is not None:
                if g.retty is None:
                    self.err('call-signature', 'result taken from %s which returns nothing' % callee[1], line)
                elif _abi_norm(ins.cls) != _abi_norm(g.retty):
                    self.err('call-signature', 'call of %s expects %s, definition returns %s' % (callee[1], ins.cls, g.retty), line)


def _abi_norm(ty):
    return 'w' if ty in ilparse.SUBW else ty


def check(text, parsed=None):
    out = []
    try:
        m = parsed or ilparse.parse(text)
    except ilparse.ParseError as e:
        return ['parse-error: %s' % e], None
    # types defined before use, in file order
    seen = set()
    names = {}
    for kind, obj in m.order:
        if kind == 'type':
            fl = obj.fields if obj.kind != 'union' else [x for alt in obj.fields for x in alt]
            for ty, cnt in fl:
                if ty.startswith(':') and ty not in seen:
                    out.append('undefined-type: type %s uses %s before its definition' % (obj.name, ty))
                if cnt < 0:     # 0 is accepted by QBE's parsefields (no field, but the alignment counts): a flexible array member
                    out.append('bad-type: type %s has a field count %d' % (obj.name, cnt))
            if obj.align is not None and (obj.align <= 0 or obj.align & (obj.align - 1)):
                out.append('bad-type: type %s has alignment %s' % (obj.name, obj.align))
            seen.add(obj.name)
        elif kind == 'data':
            if obj.name in names:
                out.append('symbol-defined-twice: %s' % obj.name)
            names[obj.name] = 'data'
            if obj.align is not None and (obj.align <= 0 or obj.align & (obj.align - 1)):
                out.append('bad-data: %s has alignment %s' % (obj.name, obj.align))
            for ty, v in obj.items:
                if ty == 'z':
                    if v < 0:
                        out.append('bad-data: %s has z %d' % (obj.name, v))
                elif v[0] == 'str' and ty != 'b':
                    out.append('bad-data: %s has a string in a %s item' % (obj.name, ty))
                elif v[0] == 'flt' and ty not in 'sd':
                    pass
        else:
            if obj.name in names:
                out.append('symbol-defined-twice: %s' % obj.name)
            names[obj.name] = 'func'
            # aggregate types used by a function must be defined before it
            for ty in [obj.retty] + [p[0] for p in obj.params]:
                if ty and ty.startswith(':') and ty not in seen:
                    out.append('undefined-type: function %s uses %s before its definition' % (obj.name, ty))
    sigs = {f.name: f for f in m.funcs}
    for f in m.funcs:
        FuncCheck(m, f, sigs, out).run()
    return out, m
