"""c01gen: a small, boring model of C arithmetic (types, promotions, usual arithmetic conversions, where
behaviour is undefined) and the case generators of check C01 (strata S1..S5).

The model is used ONLY to decide which operand tuples have defined behaviour (so that the generated
programs are UBSan-clean); the expected *values* come from the reference compilers, never from here.

A case is a C function plus data tables plus a driver statement that calls it on every tuple and prints
the results; cases are independent, so a unit (translation unit with a generated main) can hold any
subset of them.  In the texts the character '@' stands for the case's number inside its unit.
"""
import math
import struct


class UB(Exception):
    """the evaluation has undefined behaviour"""


class Invalid(Exception):
    """constraint violation: not a valid C expression (C10's business)"""


class CT:
    __slots__ = ('name', 'ab', 'kind', 'bits', 'sgn', 'rank', 'size')

    def __init__(self, name, ab, kind, bits, sgn, rank):
        self.name, self.ab, self.kind, self.bits, self.sgn, self.rank = name, ab, kind, bits, sgn, rank
        self.size = 1 if kind == 'bool' else bits // 8

    def __repr__(self):
        return self.name


BOOL = CT('_Bool', 'b', 'bool', 1, False, 0)
CHAR = CT('char', 'c', 'int', 8, None, 1)       # signedness from the target
SCHAR = CT('signed char', 'sc', 'int', 8, True, 1)
UCHAR = CT('unsigned char', 'uc', 'int', 8, False, 1)
SHORT = CT('short', 's', 'int', 16, True, 2)
USHORT = CT('unsigned short', 'us', 'int', 16, False, 2)
INT = CT('int', 'i', 'int', 32, True, 3)
UINT = CT('unsigned', 'u', 'int', 32, False, 3)
LONG = CT('long', 'l', 'int', 64, True, 4)
ULONG = CT('unsigned long', 'ul', 'int', 64, False, 4)
LLONG = CT('long long', 'll', 'int', 64, True, 5)
ULLONG = CT('unsigned long long', 'ull', 'int', 64, False, 5)
FLOAT = CT('float', 'f', 'float', 32, True, 10)
DOUBLE = CT('double', 'd', 'float', 64, True, 11)

T14 = (BOOL, CHAR, SCHAR, UCHAR, SHORT, USHORT, INT, UINT, LONG, ULONG, LLONG, ULLONG, FLOAT, DOUBLE)
INTS = T14[:12]
BYAB = {t.ab: t for t in T14}

F32MAX = (2 - 2.0 ** -23) * 2.0 ** 127


def f32(x):
    """round a Python float (double) to the nearest float value"""
    try:
        return struct.unpack('<f', struct.pack('<f', x))[0]
    except OverflowError:
        return math.copysign(math.inf, x)


def int_to_f32(v):
    """exact round-to-nearest-even of an integer to float (no double rounding)"""
    n = abs(v)
    if n < (1 << 24):
        r = float(n)
    else:
        e = n.bit_length() - 24
        q, rem = n >> e, n & ((1 << e) - 1)
        half = 1 << (e - 1)
        if rem > half or (rem == half and (q & 1)):
            q += 1
        r = float(q << e)
    return -r if v < 0 else r


def fbits(t, x):
    """bit pattern of a floating value of type t"""
    if t is FLOAT:
        return struct.unpack('<I', struct.pack('<f', x))[0]
    return struct.unpack('<Q', struct.pack('<d', x))[0]


class Model:
    """C arithmetic for one target convention (cs = plain char is signed)."""

    def __init__(self, cs=True):
        self.cs = cs

    def signed(self, t):
        return self.cs if t.sgn is None else t.sgn

    def tmin(self, t):
        return -(1 << (t.bits - 1)) if t.kind == 'int' and self.signed(t) else 0

    def tmax(self, t):
        if t.kind == 'bool':
            return 1
        return (1 << (t.bits - 1)) - 1 if self.signed(t) else (1 << t.bits) - 1

    def inrange(self, t, v):
        return self.tmin(t) <= v <= self.tmax(t)

    # -- conversions ---------------------------------------------------
    def conv(self, v, t):
        """convert value v (int or float) to type t"""
        isf = isinstance(v, float)
        if t.kind == 'bool':
            return int(v != 0)
        if t.kind == 'int':
            if isf:
                if v != v or v in (math.inf, -math.inf):
                    raise UB('float->int of nan/inf')
                v = int(v)  # truncation toward zero
                if not self.inrange(t, v):
                    raise UB('float->int out of range')
                return v
            if self.signed(t):
                v &= (1 << t.bits) - 1
                return v - (1 << t.bits) if v >> (t.bits - 1) else v
            return v & ((1 << t.bits) - 1)
        if t is FLOAT:
            return f32(v) if isf else int_to_f32(v)
        return v if isf else float(v)

    def promote(self, t):
        if t.kind in ('bool', 'int') and t.rank < INT.rank:
            return INT
        return t

    def uac(self, a, b):
        """usual arithmetic conversions"""
        if a is DOUBLE or b is DOUBLE:
            return DOUBLE
        if a is FLOAT or b is FLOAT:
            return FLOAT
        a, b = self.promote(a), self.promote(b)
        if a is b:
            return a
        sa, sb = self.signed(a), self.signed(b)
        if sa == sb:
            return a if a.rank > b.rank else b
        u, s = (b, a) if sa else (a, b)
        if u.rank >= s.rank:
            return u
        if s.bits > u.bits:
            return s
        return {LONG: ULONG, LLONG: ULLONG, INT: UINT}[s]

    # -- operators ---------------------------------------------------
    def restype(self, op, t1, t2):
        if op in ('<<', '>>', '%', '&', '|', '^') and (t1.kind == 'float' or t2.kind == 'float'):
            raise Invalid(op)
        if op in ('<', '>', '<=', '>=', '==', '!=', '&&', '||'):
            return INT
        if op in ('<<', '>>'):
            return self.promote(t1)
        return self.uac(t1, t2)

    def binop(self, op, t1, v1, t2, v2):
        """(result type, value) of `v1 op v2` with operand types t1, t2; raises UB / Invalid"""
        r = self.restype(op, t1, t2)
        if op == '&&':
            return r, int(bool(v1 != 0) and bool(v2 != 0))
        if op == '||':
            return r, int(bool(v1 != 0) or bool(v2 != 0))
        if op in ('<<', '>>'):
            a, b = self.conv(v1, r), self.conv(v2, self.promote(t2))
            if b < 0 or b >= r.bits:
                raise UB('shift count')
            if op == '>>':
                return r, a >> b   # signed: arithmetic (implementation-defined, all agree)
            if self.signed(r):
                if a < 0:
                    raise UB('negative << ')
                if (a << b) > self.tmax(r):
                    raise UB('<< overflow')
                return r, a << b
            return r, self.conv(a << b, r)
        c = self.uac(t1, t2)
        a, b = self.conv(v1, c), self.conv(v2, c)
        if op in ('<', '>', '<=', '>=', '==', '!='):
            return r, int({'<': a < b, '>': a > b, '<=': a <= b, '>=': a >= b, '==': a == b, '!=': a != b}[op])
        if c.kind == 'float':
            return r, self.conv(self._farith(op, a, b), c)
        if op in ('/', '%'):
            if b == 0:
                raise UB('division by zero')
            if self.signed(c) and a == self.tmin(c) and b == -1:
                raise UB('MIN / -1')
            q = abs(a) // abs(b)
            if (a < 0) != (b < 0):
                q = -q
            v = q if op == '/' else a - q * b
        else:
            v = {'+': a + b, '-': a - b, '*': a * b, '&': a & b, '|': a | b, '^': a ^ b}[op]
        if self.signed(c):
            if not self.inrange(c, v):
                raise UB('signed overflow')
            return r, v
        return r, self.conv(v, c)

    @staticmethod
    def _farith(op, a, b):
        if op == '/':
            if b == 0:
                if a != a or a == 0:
                    return math.nan
                return math.copysign(math.inf, a) * math.copysign(1.0, b)
            try:
                return a / b
            except OverflowError:
                return math.copysign(math.inf, a) * math.copysign(1.0, b)
        try:
            return {'+': a + b, '-': a - b, '*': a * b}[op]
        except OverflowError:
            return math.inf
        # inf - inf etc. give nan in Python as in IEEE

    def unop(self, op, t, v):
        if op == '!':
            return INT, int(v == 0)
        if op == '~' and t.kind == 'float':
            raise Invalid(op)
        r = self.promote(t)
        a = self.conv(v, r)
        if op == '+':
            return r, a
        if op == '-':
            if r.kind == 'float':
                return r, -a
            if self.signed(r):
                if a == self.tmin(r):
                    raise UB('-MIN')
                return r, -a
            return r, self.conv(-a, r)
        return r, self.conv(~a, r)

    def compound(self, op, t1, v1, t2, v2):
        """value stored by `lhs op= rhs` (lhs of type t1)"""
        r, v = self.binop(op, t1, v1, t2, v2)
        return self.conv(v, t1)

    # -- value sets ---------------------------------------------------
    def values(self, t, n=None, extra=False):
        """V(t), simplest first; n = how many (None = all); extra = thorough-tier additions"""
        if t.kind == 'bool':
            return [0, 1]
        if t.kind == 'int':
            w = t.bits
            mx, mn = self.tmax(t), self.tmin(t)
            cand = [0, 1, 2, -1, mx, mn, mx - 1, mn + 1, int('55' * (w // 8), 16), w - 1, w, 1 << (w // 2)]
            if extra:
                cand += [-2, 3, (1 << 62) + (1 << 38) + 1, (1 << 63) + (1 << 39) + 1, (1 << 31), (1 << 24) + 1, -(1 << 31) - 1, 255, 128, -128]
        else:
            cand = [0.0, 1.0, -1.0, 0.5, -1.5, 2.0 ** 24 + 1, 2.0 ** 31, 2.0 ** 32, 2.0 ** 53 + 1, 2.0 ** 63, 2.0 ** 64 - 2.0 ** 11,
                    1e-30, 3.4e38]
            if t is DOUBLE:
                cand.append(1e300)
            if extra:
                cand += [-0.0, -0.5, 255.5, 65535.5, 2147483647.5, -2147483648.5, -2.0 ** 63, 3.0, math.inf, -math.inf, math.nan]
            if t is FLOAT:
                cand = [f32(x) for x in cand]
        out, seen = [], set()
        for v in cand:
            if t.kind == 'int' and not self.inrange(t, v):
                continue
            k = fbits(DOUBLE, v) if t.kind == 'float' else v
            if k in seen:
                continue
            seen.add(k)
            out.append(v)
        return out if n is None else out[:n]


# ---------------------------------------------------------------------------
# C spelling of values and tables

def lit(m, t, v):
    """C constant of type t with value v (for an initializer); floats are given as bit patterns"""
    if t.kind == 'float':
        return ('0x%xu' if t is FLOAT else '0x%xull') % fbits(t, v)
    if t.kind == 'bool':
        return str(v)
    suf = {3: '', 4: 'L', 5: 'LL'}.get(t.rank, '')
    if not m.signed(t):
        return '%d%s' % (v, 'U' + suf if t.rank >= 3 else '')
    if v == m.tmin(t) and t.rank >= 3:
        return '(-%d%s-1)' % (-(v + 1), suf)
    return '%d%s' % (v, suf)


def tab(m, t, name, vals):
    """static table holding vals for parameters of type t"""
    et = t.name if t.kind != 'float' else ('unsigned' if t is FLOAT else 'unsigned long long')
    return 'static %s %s[] = {%s};\n' % (et, name, ','.join(lit(m, t, v) for v in vals))


def arg(t, e):
    """expression reading a table element as a value of type t"""
    if t is FLOAT:
        return 'bf(%s)' % e
    if t is DOUBLE:
        return 'bd(%s)' % e
    return e


def outfn(t):
    return {'float': 'outd' if t is DOUBLE else 'outf'}.get(t.kind, 'out')


def show(t, v):
    if isinstance(v, float):
        return repr(v)
    return str(v)


PRELUDE = r'''int printf(const char *, ...);
int fflush(void *);
static int cnt;
static void mark(int k) { printf("#%d\n", k); fflush(0); }
static void out(unsigned long long x) { cnt++; printf("%llx\n", x); }
static void outf(float x) { union { float f; unsigned u; } v; v.f = x; if ((v.u & 0x7fffffffu) > 0x7f800000u) v.u = 0x7fc00000u; cnt++; printf("f%x\n", v.u); }
static void outd(double x) { union { double f; unsigned long long u; } v; v.f = x; if ((v.u & 0x7fffffffffffffffull) > 0x7ff0000000000000ull) v.u = 0x7ff8000000000000ull; cnt++; printf("d%llx\n", v.u); }
static float bf(unsigned u) { union { float f; unsigned u; } v; v.u = u; return v.f; }
static double bd(unsigned long long u) { union { double f; unsigned long long u; } v; v.u = u; return v.f; }
'''


class Case:
    """one independent test function.  decl/drive use '@' for the case number in its unit.
    inputs: one label per operand tuple; lines_per: output lines printed per tuple (None: free-form output)."""
    __slots__ = ('stratum', 'key', 'desc', 'decl', 'drive', 'inputs', 'lines_per', 'filtered', 'charty')

    def __init__(self, stratum, key, desc, decl, drive, inputs, lines_per=1, filtered=0, charty=False):
        self.stratum, self.key, self.desc, self.decl, self.drive = stratum, key, desc, decl, drive
        self.inputs, self.lines_per, self.filtered, self.charty = inputs, lines_per, filtered, charty


def build_unit(cases, group=24, extra_decl=''):
    """C source of a unit holding the cases (numbered 0..n-1) and a main that runs them in order."""
    parts = [PRELUDE, extra_decl]
    drv = []
    for k, c in enumerate(cases):
        parts.append(c.decl.replace('@', str(k)))
    for g in range(0, len(cases), group):
        body = ''.join('\tmark(%d);\n\t{ %s }\n' % (k, cases[k].drive.replace('@', str(k))) for k in range(g, min(g + group, len(cases))))
        parts.append('static void drv%d(void) {\n%s}\n' % (g, body))
        drv.append('\tdrv%d();\n' % g)
    parts.append('int main(void) {\n%s\tprintf("#end\\n");\n\treturn cnt & 63;\n}\n' % ''.join(drv))
    return ''.join(parts)


# ---------------------------------------------------------------------------
# type classes used in violation keys (group by likely root cause, not by exact type)

def tclass(m, t):
    if t.kind == 'bool':
        return 'bool'
    if t.kind == 'float':
        return t.name
    s = 's' if m.signed(t) else 'u'
    if t is CHAR:
        return 'char(%s)' % ('signed' if m.cs else 'unsigned')
    return s + str(t.bits)


# ---------------------------------------------------------------------------
# S1: binary operators

BINOPS = ('+', '-', '*', '/', '%', '<<', '>>', '<', '>', '<=', '>=', '==', '!=', '&', '|', '^', '&&', '||')
OPNAME = {'+': 'add', '-': 'sub', '*': 'mul', '/': 'div', '%': 'rem', '<<': 'shl', '>>': 'shr', '<': 'lt', '>': 'gt', '<=': 'le',
          '>=': 'ge', '==': 'eq', '!=': 'ne', '&': 'and', '|': 'or', '^': 'xor', '&&': 'land', '||': 'lor'}


def s1_specs(only_char=False):
    for op in BINOPS:
        for t1 in T14:
            for t2 in T14:
                if only_char and CHAR not in (t1, t2):
                    continue
                yield ('S1', op, t1.ab, t2.ab)


def pairs(m, t1, t2, nv, extra):
    v1, v2 = m.values(t1, nv, extra), m.values(t2, nv, extra)
    return [(a, b) for a in v1 for b in v2]


def s1_case(m, spec, nv, extra):
    _, op, a1, a2 = spec
    t1, t2 = BYAB[a1], BYAB[a2]
    try:
        r = m.restype(op, t1, t2)
    except Invalid:
        return None
    good, filt = [], 0
    for a, b in pairs(m, t1, t2, nv, extra):
        try:
            m.binop(op, t1, a, t2, b)
            good.append((a, b))
        except UB:
            filt += 1
    if not good:
        return Case('S1', None, None, '', '', [], filtered=filt)
    fn = '__typeof__((%s)1 %s (%s)1) f@(%s a, %s b) { return a %s b; }\n' % (t1.name, op, t2.name, t1.name, t2.name, op)
    decl = fn + tab(m, t1, 'A@', [a for a, _ in good]) + tab(m, t2, 'B@', [b for _, b in good])
    drive = 'for (int i = 0; i < %d; i++) %s(f@(%s, %s));' % (len(good), outfn(r), arg(t1, 'A@[i]'), arg(t2, 'B@[i]'))
    key = 'S1/%s/%sx%s' % (OPNAME[op], tclass(m, t1), tclass(m, t2))
    return Case('S1', key, fn.replace('@', ''), decl, drive, ['a=%s b=%s' % (show(t1, a), show(t2, b)) for a, b in good],
                filtered=filt, charty=CHAR in (t1, t2))
