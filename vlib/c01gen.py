"""c01gen: a small, boring model of C arithmetic (types, promotions, usual arithmetic conversions, where
behaviour is undefined) and the case generators of check C01 (strata S1..S5).

The model is used ONLY to decide which operand tuples have defined behaviour (so that the generated
programs are UBSan-clean); the expected *values* come from the reference compilers, never from here.

A case is a C function plus data tables plus a driver statement that calls it on every tuple and prints
the results; cases are independent, so a unit (translation unit with a generated main) can hold any
subset of them.  In the texts the character '@' stands for the case's number inside its unit.
"""
import math
import struct


class UB(Exception):
    """the evaluation has undefined behaviour"""


class Invalid(Exception):
    """constraint violation: not a valid C expression (C10's business)"""


class CT:
    __slots__ = ('name', 'ab', 'kind', 'bits', 'sgn', 'rank', 'size')

    def __init__(self, name, ab, kind, bits, sgn, rank):
        self.name, self.ab, self.kind, self.bits, self.sgn, self.rank = name, ab, kind, bits, sgn, rank
        self.size = 1 if kind == 'bool' else bits // 8

    def __repr__(self):
        return self.name


BOOL = CT('_Bool', 'b', 'bool', 1, False, 0)
CHAR = CT('char', 'c', 'int', 8, None, 1)       # signedness from the target
SCHAR = CT('signed char', 'sc', 'int', 8, True, 1)
UCHAR = CT('unsigned char', 'uc', 'int', 8, False, 1)
SHORT = CT('short', 's', 'int', 16, True, 2)
USHORT = CT('unsigned short', 'us', 'int', 16, False, 2)
INT = CT('int', 'i', 'int', 32, True, 3)
UINT = CT('unsigned', 'u', 'int', 32, False, 3)
LONG = CT('long', 'l', 'int', 64, True, 4)
ULONG = CT('unsigned long', 'ul', 'int', 64, False, 4)
LLONG = CT('long long', 'll', 'int', 64, True, 5)
ULLONG = CT('unsigned long long', 'ull', 'int', 64, False, 5)
FLOAT = CT('float', 'f', 'float', 32, True, 10)
DOUBLE = CT('double', 'd', 'float', 64, True, 11)

T14 = (BOOL, CHAR, SCHAR, UCHAR, SHORT, USHORT, INT, UINT, LONG, ULONG, LLONG, ULLONG, FLOAT, DOUBLE)
INTS = T14[:12]
BYAB = {t.ab: t for t in T14}

F32MAX = (2 - 2.0 ** -23) * 2.0 ** 127


def f32(x):
    """round a Python float (double) to the nearest float value"""
    try:
        return struct.unpack('<f', struct.pack('<f', x))[0]
    except OverflowError:
        return math.copysign(math.inf, x)


def int_to_f32(v):
    """exact round-to-nearest-even of an integer to float (no double rounding)"""
    n = abs(v)
    if n < (1 << 24):
        r = float(n)
    else:
        e = n.bit_length() - 24
        q, rem = n >> e, n & ((1 << e) - 1)
        half = 1 << (e - 1)
        if rem > half or (rem == half and (q & 1)):
            q += 1
        r = float(q << e)
    return -r if v < 0 else r


def fbits(t, x):
    """bit pattern of a floating value of type t"""
    if t is FLOAT:
        return struct.unpack('<I', struct.pack('<f', x))[0]
    return struct.unpack('<Q', struct.pack('<d', x))[0]


class Model:
    """C arithmetic for one target convention (cs = plain char is signed)."""

    def __init__(self, cs=True):
        self.cs = cs

    def signed(self, t):
        return self.cs if t.sgn is None else t.sgn

    def tmin(self, t):
        return -(1 << (t.bits - 1)) if t.kind == 'int' and self.signed(t) else 0

    def tmax(self, t):
        if t.kind == 'bool':
            return 1
        return (1 << (t.bits - 1)) - 1 if self.signed(t) else (1 << t.bits) - 1

    def inrange(self, t, v):
        return self.tmin(t) <= v <= self.tmax(t)

    # -- conversions ---------------------------------------------------
    def conv(self, v, t):
        """convert value v (int or float) to type t"""
        isf = isinstance(v, float)
        if t.kind == 'bool':
            return int(v != 0)
        if t.kind == 'int':
            if isf:
                if v != v or v in (math.inf, -math.inf):
                    raise UB('float->int of nan/inf')
                v = int(v)  # truncation toward zero
                if not self.inrange(t, v):
                    raise UB('float->int out of range')
                return v
            if self.signed(t):
                v &= (1 << t.bits) - 1
                return v - (1 << t.bits) if v >> (t.bits - 1) else v
            return v & ((1 << t.bits) - 1)
        if t is FLOAT:
            return f32(v) if isf else int_to_f32(v)
        return v if isf else float(v)

    def promote(self, t):
        if t.kind in ('bool', 'int') and t.rank < INT.rank:
            return INT
        return t

    def uac(self, a, b):
        """usual arithmetic conversions"""
        if a is DOUBLE or b is DOUBLE:
            return DOUBLE
        if a is FLOAT or b is FLOAT:
            return FLOAT
        a, b = self.promote(a), self.promote(b)
        if a is b:
            return a
        sa, sb = self.signed(a), self.signed(b)
        if sa == sb:
            return a if a.rank > b.rank else b
        u, s = (b, a) if sa else (a, b)
        if u.rank >= s.rank:
            return u
        if s.bits > u.bits:
            return s
        return {LONG: ULONG, LLONG: ULLONG, INT: UINT}[s]

    # -- operators ---------------------------------------------------
    def restype(self, op, t1, t2):
        if op in ('<<', '>>', '%', '&', '|', '^') and (t1.kind == 'float' or t2.kind == 'float'):
            raise Invalid(op)
        if op in ('<', '>', '<=', '>=', '==', '!=', '&&', '||'):
            return INT
        if op in ('<<', '>>'):
            return self.promote(t1)
        return self.uac(t1, t2)

    def binop(self, op, t1, v1, t2, v2):
        """(result type, value) of `v1 op v2` with operand types t1, t2; raises UB / Invalid"""
        r = self.restype(op, t1, t2)
        if op == '&&':
            return r, int(bool(v1 != 0) and bool(v2 != 0))
        if op == '||':
            return r, int(bool(v1 != 0) or bool(v2 != 0))
        if op in ('<<', '>>'):
            a, b = self.conv(v1, r), self.conv(v2, self.promote(t2))
            if b < 0 or b >= r.bits:
                raise UB('shift count')
            if op == '>>':
                return r, a >> b   # signed: arithmetic (implementation-defined, all agree)
            if self.signed(r):
                if a < 0:
                    raise UB('negative << ')
                if (a << b) > self.tmax(r):
                    raise UB('<< overflow')
                return r, a << b
            return r, self.conv(a << b, r)
        c = self.uac(t1, t2)
        a, b = self.conv(v1, c), self.conv(v2, c)
        if op in ('<', '>', '<=', '>=', '==', '!='):
            return r, int({'<': a < b, '>': a > b, '<=': a <= b, '>=': a >= b, '==': a == b, '!=': a != b}[op])
        if c.kind == 'float':
            return r, self.conv(self._farith(op, a, b), c)
        if op in ('/', '%'):
            if b == 0:
                raise UB('division by zero')
            if self.signed(c) and a == self.tmin(c) and b == -1:
                raise UB('MIN / -1')
            q = abs(a) // abs(b)
            if (a < 0) != (b < 0):
                q = -q
            v = q if op == '/' else a - q * b
        else:
            v = {'+': a + b, '-': a - b, '*': a * b, '&': a & b, '|': a | b, '^': a ^ b}[op]
        if self.signed(c):
            if not self.inrange(c, v):
                raise UB('signed overflow')
            return r, v
        return r, self.conv(v, c)

    @staticmethod
    def _farith(op, a, b):
        if op == '/':
            if b == 0:
                if a != a or a == 0:
                    return math.nan
                return math.copysign(math.inf, a) * math.copysign(1.0, b)
            try:
                return a / b
            except OverflowError:
                return math.copysign(math.inf, a) * math.copysign(1.0, b)
        try:
            return {'+': a + b, '-': a - b, '*': a * b}[op]
        except OverflowError:
            return math.inf
        # inf - inf etc. give nan in Python as in IEEE

    def unop(self, op, t, v):
        if op == '!':
            return INT, int(v == 0)
        if op == '~' and t.kind == 'float':
            raise Invalid(op)
        r = self.promote(t)
        a = self.conv(v, r)
        if op == '+':
            return r, a
        if op == '-':
            if r.kind == 'float':
                return r, -a
            if self.signed(r):
                if a == self.tmin(r):
                    raise UB('-MIN')
                return r, -a
            return r, self.conv(-a, r)
        return r, self.conv(~a, r)

    def compound(self, op, t1, v1, t2, v2):
        """value stored by `lhs op= rhs` (lhs of type t1)"""
        r, v = self.binop(op, t1, v1, t2, v2)
        return self.conv(v, t1)

    # -- value sets ---------------------------------------------------
    def values(self, t, n=None, extra=False):
        """V(t), simplest first; n = how many (None = all); extra = thorough-tier additions"""
        if t.kind == 'bool':
            return [0, 1]
        if t.kind == 'int':
            w = t.bits
            mx, mn = self.tmax(t), self.tmin(t)
            # the first five are what the quick tier uses: keep MIN (all low bits clear) and 2^(w/2) early
            cand = [0, 1, -1, mx, mn, 1 << (w // 2), 2, mx - 1, mn + 1, ((1 << w) - 1) // 3, w - 1, w]
            if extra:
                cand += [-2, 3, (1 << 62) + (1 << 38) + 1, (1 << 63) + (1 << 39) + 1, (1 << 31), (1 << 24) + 1, -(1 << 31) - 1, 255, 128, -128]
        else:
            cand = [0.0, 1.0, -1.0, 0.5, -1.5, 2.0 ** 24 + 1, 2.0 ** 31, 2.0 ** 32, 2.0 ** 53 + 1, 2.0 ** 63, 2.0 ** 64 - 2.0 ** 11,
                    1e-30, 3.4e38, 4294967295.0, 2.0 ** 63 + 2.0 ** 11, 2.0 ** 31 - 128, 255.0, 128.0, 65535.0, 32768.0, 1.8e19]
            if t is DOUBLE:
                cand.append(1e300)
            if extra:
                cand += [-0.0, -0.5, 255.5, 65535.5, 2147483647.5, -2147483648.5, -2.0 ** 63, 3.0, math.inf, -math.inf, math.nan]
            if t is FLOAT:
                cand = [f32(x) for x in cand]
        out, seen = [], set()
        for v in cand:
            if t.kind == 'int' and not self.inrange(t, v):
                continue
            k = fbits(DOUBLE, v) if t.kind == 'float' else v
            if k in seen:
                continue
            seen.add(k)
            out.append(v)
        return out if n is None else out[:n]


# ---------------------------------------------------------------------------
# C spelling of values and tables

def lit(m, t, v):
    """C constant of type t with value v (for an initializer); floats are given as bit patterns"""
    if t.kind == 'float':
        return ('0x%xu' if t is FLOAT else '0x%xull') % fbits(t, v)
    if t.kind == 'bool':
        return str(v)
    suf = {3: '', 4: 'L', 5: 'LL'}.get(t.rank, '')
    if not m.signed(t):
        return '%d%s' % (v, 'U' + suf if t.rank >= 3 else '')
    if v == m.tmin(t) and t.rank >= 3:
        return '(-%d%s-1)' % (-(v + 1), suf)
    return '%d%s' % (v, suf)


def tab(m, t, name, vals):
    """static table holding vals for parameters of type t"""
    et = t.name if t.kind != 'float' else ('unsigned' if t is FLOAT else 'unsigned long long')
    return 'static %s %s[] = {%s};\n' % (et, name, ','.join(lit(m, t, v) for v in vals))


def arg(t, e):
    """expression reading a table element as a value of type t"""
    if t is FLOAT:
        return 'bf(%s)' % e
    if t is DOUBLE:
        return 'bd(%s)' % e
    return e


def outfn(t):
    return {'float': 'outd' if t is DOUBLE else 'outf'}.get(t.kind, 'out')


def show(t, v):
    if isinstance(v, float):
        return repr(v)
    return str(v)


PRELUDE = r'''int printf(const char *, ...);
int fflush(void *);
void exit(int);
static int cnt;
static void over(void) { printf("#overflow\n"); exit(61); }
static void mark(int k) { printf("#%d\n", k); fflush(0); }
static void out(unsigned long long x) { if (++cnt > 4000000) over(); printf("%llx\n", x); }
static void outf(float x) { union { float f; unsigned u; } v; v.f = x; if ((v.u & 0x7fffffffu) > 0x7f800000u) v.u = 0x7fc00000u; cnt++; printf("f%x\n", v.u); }
static void outd(double x) { union { double f; unsigned long long u; } v; v.f = x; if ((v.u & 0x7fffffffffffffffull) > 0x7ff0000000000000ull) v.u = 0x7ff8000000000000ull; cnt++; printf("d%llx\n", v.u); }
static float bf(unsigned u) { union { float f; unsigned u; } v; v.u = u; return v.f; }
static double bd(unsigned long long u) { union { double f; unsigned long long u; } v; v.u = u; return v.f; }
'''


class Case:
    """one independent test function.  decl/drive use '@' for the case number in its unit.
    inputs: one label per operand tuple; lines_per: output lines printed per tuple (None: free-form output)."""
    __slots__ = ('stratum', 'key', 'desc', 'decl', 'drive', 'inputs', 'lines_per', 'filtered', 'charty')

    def __init__(self, stratum, key, desc, decl, drive, inputs, lines_per=1, filtered=0, charty=False):
        self.stratum, self.key, self.desc, self.decl, self.drive = stratum, key, desc, decl, drive
        self.inputs, self.lines_per, self.filtered, self.charty = inputs, lines_per, filtered, charty


def build_unit(cases, group=6, extra_decl=''):
    """C source of a unit holding the cases (numbered 0..n-1) and a main that runs them in order."""
    parts = [PRELUDE, extra_decl]
    drv = []
    for k, c in enumerate(cases):
        parts.append(c.decl.replace('@', str(k)))
    for g in range(0, len(cases), group):
        body = ''.join('\tif (from <= %d) {\n\t\tmark(%d);\n\t\t{ %s }\n\t}\n' % (k, k, cases[k].drive.replace('@', str(k)))
                       for k in range(g, min(g + group, len(cases))))
        parts.append('static void drv%d(int from) {\n%s}\n' % (g, body))
        drv.append('\tdrv%d(from);\n' % g)
    # the optional argument is the number of the first case to run: after a case has crashed the harness restarts behind it
    parts.append('int main(int argc, char **argv) {\n\tint from = 0;\n'
                 '\tif (argc > 1) for (const char *p = argv[1]; *p; p++) from = from * 10 + (*p - \'0\');\n'
                 '%s\tprintf("#end\\n");\n\treturn cnt & 63;\n}\n' % ''.join(drv))
    return ''.join(parts)


# ---------------------------------------------------------------------------
# type classes used in violation keys (group by likely root cause, not by exact type)

def tclass(m, t):
    if t.kind == 'bool':
        return 'bool'
    if t.kind == 'float':
        return t.name
    s = 's' if m.signed(t) else 'u'
    if t is CHAR:
        return 'char(%s)' % ('signed' if m.cs else 'unsigned')
    return s + str(t.bits)


def ckey(m, prefix, op, t1, t2):
    """key of a binary operation: the type the operation is carried out in (that is what instruction selection looks at);
    for && and || (no common type) the operand classes"""
    if op in ('&&', '||'):
        def tc(t):      # how the operand is tested against zero
            return t.name if t.kind != 'int' else 'int%d' % t.bits
        return '%s/%sx%s' % (prefix, tc(t1), tc(t2))
    c = m.promote(t1) if op in ('<<', '>>') else m.uac(t1, t2)
    return '%s/in-%s' % (prefix, tclass(m, c))


# ---------------------------------------------------------------------------
# S1: binary operators

BINOPS = ('+', '-', '*', '/', '%', '<<', '>>', '<', '>', '<=', '>=', '==', '!=', '&', '|', '^', '&&', '||')
OPNAME = {'+': 'add', '-': 'sub', '*': 'mul', '/': 'div', '%': 'rem', '<<': 'shl', '>>': 'shr', '<': 'lt', '>': 'gt', '<=': 'le',
          '>=': 'ge', '==': 'eq', '!=': 'ne', '&': 'and', '|': 'or', '^': 'xor', '&&': 'land', '||': 'lor'}


def s1_specs(only_char=False):
    for op in BINOPS:
        for t1 in T14:
            for t2 in T14:
                if only_char and CHAR not in (t1, t2):
                    continue
                yield ('S1', op, t1.ab, t2.ab)


def pairs(m, t1, t2, nv, extra):
    v1, v2 = m.values(t1, nv, extra), m.values(t2, nv, extra)
    return [(a, b) for a in v1 for b in v2]


def s1_case(m, spec, nv, extra):
    _, op, a1, a2 = spec
    t1, t2 = BYAB[a1], BYAB[a2]
    try:
        r = m.restype(op, t1, t2)
    except Invalid:
        return None
    good, filt = [], 0
    for a, b in pairs(m, t1, t2, nv, extra):
        try:
            m.binop(op, t1, a, t2, b)
            good.append((a, b))
        except UB:
            filt += 1
    if not good:
        return Case('S1', None, None, '', '', [], filtered=filt)
    fn = '__typeof__((%s)1 %s (%s)1) f@(%s a, %s b) { return a %s b; }\n' % (t1.name, op, t2.name, t1.name, t2.name, op)
    decl = fn + tab(m, t1, 'A@', [a for a, _ in good]) + tab(m, t2, 'B@', [b for _, b in good])
    drive = 'for (int i = 0; i < %d; i++) %s(f@(%s, %s));' % (len(good), outfn(r), arg(t1, 'A@[i]'), arg(t2, 'B@[i]'))
    key = ckey(m, 'S1/' + OPNAME[op], op, t1, t2)
    return Case('S1', key, fn.replace('@', ''), decl, drive, ['a=%s b=%s' % (show(t1, a), show(t2, b)) for a, b in good],
                filtered=filt, charty=CHAR in (t1, t2))


# ---------------------------------------------------------------------------
# S2: unary, ++/--, conversions, assignment, compound assignment, conditional, pointers

UNOPS = ('+', '-', '~', '!')
UNNAME = {'+': 'plus', '-': 'neg', '~': 'not', '!': 'lnot'}
INCDEC = ('preinc', 'postinc', 'predec', 'postdec')
INCDEC_X = {'preinc': '++%s', 'postinc': '%s++', 'predec': '--%s', 'postdec': '%s--'}
CONVKINDS = ('cast', 'assign', 'init', 'arg', 'ret')
CASOPS = ('+', '-', '*', '/', '%', '<<', '>>', '&', '|', '^')
ELEMS = {1: 'char', 2: 'short', 3: 'struct { char c[3]; }', 4: 'int', 8: 'long', 12: 'struct { int c[3]; }', 24: 'struct { long c[3]; }'}
PFORMS = ('p+i', 'i+p', 'p-i', '&p[i]', '&i[p]', 'p+=i', 'p-=i', 'p[i]')
PNULLFORMS = ('p == 0', '0 == p', 'p != 0', '!p', '!!p', 'p && q', 'p || q', 'p ? 1 : 2', '(_Bool)p', 'p == q', 'p != q', '(p ? p : q) == q')
PCMP = ('<', '>', '<=', '>=', '==', '!=')
VMFORMS = ('vla2d-index', 'vla2d-rowaddr', 'ptr-to-vla-add', 'ptr-to-vla-inc', 'ptr-to-vla-index', 'ptr-to-vla-diff', 'vla-param-index',
           'sizeof-vla-row', 'vla1d-index', 'ptr-to-vla-deref')


def s2_specs(only_char=False):
    C = CHAR.ab
    for op in UNOPS:
        for t in T14:
            if not only_char or t is CHAR:
                yield ('S2', 'un', op, t.ab)
    for f in INCDEC:
        for t in T14:
            if not only_char or t is CHAR:
                yield ('S2', 'incdec', f, t.ab)
        if not only_char:
            for sz in (1, 3, 8, 24):
                yield ('S2', 'pincdec', f, sz)
    for k in CONVKINDS:
        for t1 in T14:
            for t2 in T14:
                if not only_char or C in (t1.ab, t2.ab):
                    yield ('S2', 'conv', k, t1.ab, t2.ab)
    # the VALUE of an expression of narrow type (produced by a cast, an assignment, a compound assignment or ++) consumed by a further conversion
    for prod in CONV2PROD:
        for t1 in CONV2MID:
            if prod in ('preinc', 'addassign') and t1 is BOOL:
                continue
            for t0 in CONV2SRC:
                for t2 in CONV2DST:
                    if not only_char or C in (t1.ab,):
                        yield ('S2', 'conv2', prod, t0.ab, t1.ab, t2.ab)
    for op in CASOPS:
        for t1 in T14:
            for t2 in T14:
                if not only_char or C in (t1.ab, t2.ab):
                    yield ('S2', 'cas', op, t1.ab, t2.ab)
    for t1 in T14:
        for t2 in T14:
            if not only_char or C in (t1.ab, t2.ab):
                yield ('S2', 'cond', t1.ab, t2.ab)
    for sz in ELEMS:
        for t in INTS:
            if not only_char or t is CHAR:
                for f in PFORMS:
                    yield ('S2', 'parith', f, sz, t.ab)
    if only_char:
        return
    for op in PCMP:
        yield ('S2', 'pcmp', op)
    for f in PNULLFORMS:
        yield ('S2', 'pnull', f)
    for sz in ELEMS:
        yield ('S2', 'pdiff', sz)
    for f in VMFORMS:
        yield ('S2', 'vm', f)


def s2_case(m, spec, nv, extra):
    kind = spec[1]
    return globals()['_s2_' + kind](m, spec, nv, extra)


def _s2_un(m, spec, nv, extra):
    _, _, op, ab = spec
    t = BYAB[ab]
    good, filt, r = [], 0, None
    for a in m.values(t, None, extra):      # single operand: the whole value set in every tier
        try:
            r, _ = m.unop(op, t, a)
            good.append(a)
        except UB:
            filt += 1
        except Invalid:
            return None
    if not good:
        return Case('S2', None, None, '', '', [], filtered=filt)
    fn = '__typeof__(%s(%s)1) f@(%s a) { return %sa; }\n' % (op, t.name, t.name, op)
    decl = fn + tab(m, t, 'A@', good)
    drive = 'for (int i = 0; i < %d; i++) %s(f@(%s));' % (len(good), outfn(r), arg(t, 'A@[i]'))
    return Case('S2', 'S2/unary-%s/%s' % (UNNAME[op], tclass(m, t)), fn.replace('@', ''), decl, drive,
                ['a=%s' % show(t, a) for a in good], filtered=filt, charty=t is CHAR)


def _s2_incdec(m, spec, nv, extra):
    _, _, form, ab = spec
    t = BYAB[ab]
    op = '+' if 'inc' in form else '-'
    good, filt = [], 0
    for a in m.values(t, None, extra):
        try:
            m.compound(op, t, a, INT, 1)
            good.append(a)
        except UB:
            filt += 1
    fn = '%s f@(%s a, %s *q) { %s r = %s; *q = a; return r; }\n' % (t.name, t.name, t.name, t.name, INCDEC_X[form] % 'a')
    decl = fn + tab(m, t, 'A@', good)
    o = outfn(t)
    drive = 'for (int i = 0; i < %d; i++) { %s q; %s(f@(%s, &q)); %s(q); }' % (len(good), t.name, o, arg(t, 'A@[i]'), o)
    return Case('S2', 'S2/incdec/%s' % tclass(m, t), fn.replace('@', ''), decl, drive, ['a=%s' % show(t, a) for a in good],
                lines_per=2, filtered=filt, charty=t is CHAR)


def _s2_pincdec(m, spec, nv, extra):
    _, _, form, sz = spec
    fn = 'typedef %s E@;\nE@ *f@(E@ *p, E@ **q) { E@ *r = %s; *q = p; return r; }\n' % (ELEMS[sz], INCDEC_X[form] % 'p')
    decl = fn + 'static E@ arr@[5];\n'
    drive = ('for (int i = 1; i < 4; i++) { E@ *q; out((unsigned long)f@(&arr@[i], &q) - (unsigned long)arr@); '
             'out((unsigned long)q - (unsigned long)arr@); }')
    return Case('S2', 'S2/incdec/pointer-to-size-%d' % sz, fn.replace('@', ''), decl, drive, ['p=&arr[%d]' % i for i in (1, 2, 3)], lines_per=2)


def _s2_conv(m, spec, nv, extra):
    _, _, k, a1, a2 = spec
    t1, t2 = BYAB[a1], BYAB[a2]
    good, filt = [], 0
    for a in m.values(t1, None, extra):     # conversions: the whole value set in every tier (boundaries of the target type)
        try:
            m.conv(a, t2)
            good.append(a)
        except UB:
            filt += 1
    if not good:
        return Case('S2', None, None, '', '', [], filtered=filt)
    n1, n2 = t1.name, t2.name
    fn = {
        'cast': '%s f@(%s a) { return (%s)a; }\n' % (n2, n1, n2),
        'assign': '%s f@(%s a) { %s x; x = a; return x; }\n' % (n2, n1, n2),
        'init': '%s f@(%s a) { %s x = a; return x; }\n' % (n2, n1, n2),
        'arg': 'static %s id@(%s x) { return x; }\n%s f@(%s a) { return id@(a); }\n' % (n2, n2, n2, n1),
        'ret': '%s f@(%s a) { return a; }\n' % (n2, n1),
    }[k]
    decl = fn + tab(m, t1, 'A@', good)
    drive = 'for (int i = 0; i < %d; i++) %s(f@(%s));' % (len(good), outfn(t2), arg(t1, 'A@[i]'))
    return Case('S2', 'S2/conv/%s->%s' % (tclass(m, t1), tclass(m, t2)), fn.replace('@', ''), decl, drive,
                ['a=%s' % show(t1, a) for a in good], filtered=filt, charty=CHAR in (t1, t2))


CONV2PROD = ('cast', 'assign', 'addassign', 'preinc')
CONV2MID = (SCHAR, UCHAR, CHAR, SHORT, USHORT, BOOL, FLOAT)
CONV2SRC = (INT, UINT, LONG, ULONG, DOUBLE)
CONV2DST = (INT, UINT, LONG, ULONG, FLOAT, DOUBLE, BOOL)


def _s2_conv2(m, spec, nv, extra):
    _, _, prod, a0, a1, a2 = spec
    t0, t1, t2 = BYAB[a0], BYAB[a1], BYAB[a2]
    good, filt = [], 0
    for a in m.values(t0, None, extra):
        try:
            if prod == 'cast' or prod == 'assign':
                mid = m.conv(a, t1)
            elif prod == 'addassign':
                mid = m.compound('+', t1, m.conv(1, t1), t0, a)
            else:
                mid = m.compound('+', t1, m.conv(a, t1), INT, 1)      # ++ on the object that holds (T1)a
            m.conv(mid, t2)
            if prod == 'preinc':
                m.conv(a, t1)
            good.append(a)
        except UB:
            filt += 1
    if not good:
        return Case('S2', None, None, '', '', [], filtered=filt)
    n0, n1, n2 = t0.name, t1.name, t2.name
    fn = {
        'cast': '%s f@(%s a) { return (%s)a; }\n' % (n2, n0, n1),
        'assign': '%s f@(%s a) { %s x; return x = a; }\n' % (n2, n0, n1),
        'addassign': '%s f@(%s a) { %s x = 1; return x += a; }\n' % (n2, n0, n1),
        'preinc': '%s f@(%s a) { %s x = a; return ++x; }\n' % (n2, n0, n1),
    }[prod]
    decl = fn + tab(m, t0, 'A@', good)
    drive = 'for (int i = 0; i < %d; i++) %s(f@(%s));' % (len(good), outfn(t2), arg(t0, 'A@[i]'))
    return Case('S2', 'S2/conv2-%s/%s->%s->%s' % (prod, tclass(m, t0), tclass(m, t1), tclass(m, t2)), fn.replace('@', ''), decl, drive,
                ['a=%s' % show(t0, a) for a in good], filtered=filt, charty=t1 is CHAR)


def _s2_cas(m, spec, nv, extra):
    _, _, op, a1, a2 = spec
    t1, t2 = BYAB[a1], BYAB[a2]
    try:
        m.restype(op, t1, t2)
    except Invalid:
        return None
    good, filt = [], 0
    for a, b in pairs(m, t1, t2, nv, extra):
        try:
            m.compound(op, t1, a, t2, b)
            good.append((a, b))
        except UB:
            filt += 1
    if not good:
        return Case('S2', None, None, '', '', [], filtered=filt)
    fn = '%s f@(%s a, %s b, %s *q) { %s r = (a %s= b); *q = a; return r; }\n' % (t1.name, t1.name, t2.name, t1.name, t1.name, op)
    decl = fn + tab(m, t1, 'A@', [a for a, _ in good]) + tab(m, t2, 'B@', [b for _, b in good])
    o = outfn(t1)
    drive = 'for (int i = 0; i < %d; i++) { %s q; %s(f@(%s, %s, &q)); %s(q); }' % (len(good), t1.name, o, arg(t1, 'A@[i]'), arg(t2, 'B@[i]'), o)
    return Case('S2', ckey(m, 'S2/compound-%s/lhs-%s' % (OPNAME[op], tclass(m, t1)), op, t1, t2), fn.replace('@', ''), decl, drive,
                ['a=%s b=%s' % (show(t1, a), show(t2, b)) for a, b in good], lines_per=2, filtered=filt, charty=CHAR in (t1, t2))


def _s2_cond(m, spec, nv, extra):
    _, _, a1, a2 = spec
    t1, t2 = BYAB[a1], BYAB[a2]
    r = m.uac(t1, t2)
    good = [(c, a, b) for a, b in pairs(m, t1, t2, nv, extra) for c in (0, 1)]
    R = '__typeof__(1 ? (%s)1 : (%s)1)' % (t1.name, t2.name)
    fn = '%s f@(int c, %s a, %s b, %s *q1, %s *q0) { *q1 = 1 ? a : b; *q0 = 0 ? a : b; return c ? a : b; }\n' % (R, t1.name, t2.name, R, R)
    decl = fn + tab(m, t1, 'A@', [a for _, a, _ in good]) + tab(m, t2, 'B@', [b for _, _, b in good])
    o = outfn(r)
    drive = 'for (int i = 0; i < %d; i++) { %s q1, q0; %s(f@(i & 1, %s, %s, &q1, &q0)); %s(q1); %s(q0); }' % (
        len(good), R, o, arg(t1, 'A@[i]'), arg(t2, 'B@[i]'), o, o)
    good = [(i & 1, a, b) for i, (c, a, b) in enumerate(good)]
    return Case('S2', 'S2/conditional/in-%s' % tclass(m, r), fn.replace('@', ''), decl, drive,
                ['c=%d a=%s b=%s' % (c, show(t1, a), show(t2, b)) for c, a, b in good], lines_per=3, charty=CHAR in (t1, t2))


def _s2_parith(m, spec, nv, extra):
    _, _, form, sz, ab = spec
    t = BYAB[ab]
    if form == 'p[i]' and sz not in (1, 2, 4, 8):
        return None
    idx = [i for i in (0, 1, 2, -1, 4, -4, 3, -2) if m.inrange(t, i)]
    body = {'p+i': 'return p + i;', 'i+p': 'return i + p;', 'p-i': 'return p - i;', '&p[i]': 'return &p[i];', '&i[p]': 'return &i[p];',
            'p+=i': 'p += i; return p;', 'p-=i': 'p -= i; return p;', 'p[i]': 'return p[i];'}[form]
    if form == 'p[i]':
        fn = 'typedef %s E@;\nE@ f@(E@ *p, %s i) { %s }\n' % (ELEMS[sz], t.name, body)
        decl = fn + 'static E@ arr@[9] = {10, 11, 12, 13, 14, 15, 16, 17, 18};\n' + tab(m, t, 'I@', idx)
        drive = 'for (int i = 0; i < %d; i++) out(f@(&arr@[4], I@[i]));' % len(idx)
    else:
        fn = 'typedef %s E@;\nE@ *f@(E@ *p, %s i) { %s }\n' % (ELEMS[sz], t.name, body)
        decl = fn + 'static E@ arr@[9];\n' + tab(m, t, 'I@', idx)
        drive = 'for (int i = 0; i < %d; i++) out((unsigned long)f@(&arr@[4], I@[i]) - (unsigned long)arr@);' % len(idx)
    return Case('S2', 'S2/ptr-arith/%s/index-%s' % (form, tclass(m, t)), fn.replace('@', ''), decl, drive,
                ['p=&arr[4] i=%d' % i for i in idx], charty=t is CHAR)


def _s2_pcmp(m, spec, nv, extra):
    _, _, op = spec
    fn = 'int f@(int *p, int *q) { return p %s q; }\n' % op
    decl = fn + 'static int arr@[4];\n'
    drive = 'for (int i = 0; i < 4; i++) for (int j = 0; j < 4; j++) out(f@(&arr@[i], &arr@[j]));'
    return Case('S2', 'S2/ptr-compare/' + OPNAME[op], fn.replace('@', ''), decl, drive, ['p=&arr[%d] q=&arr[%d]' % (i, j) for i in range(4) for j in range(4)])


def _s2_pnull(m, spec, nv, extra):
    _, _, form = spec
    fn = 'int f@(int *p, int *q) { return %s; }\n' % form
    decl = fn + 'static int x@, y@;\nstatic int *P@[3] = {0, &x@, &y@};\n'
    drive = 'for (int i = 0; i < 3; i++) for (int j = 0; j < 3; j++) out(f@(P@[i], P@[j]));'
    names = ('null', '&x', '&y')
    return Case('S2', 'S2/ptr-null/' + form.replace(' ', ''), fn.replace('@', ''), decl, drive, ['p=%s q=%s' % (a, b) for a in names for b in names])


def _s2_pdiff(m, spec, nv, extra):
    _, _, sz = spec
    fn = 'typedef %s E@;\nlong f@(E@ *p, E@ *q) { return p - q; }\n' % ELEMS[sz]
    decl = fn + 'static E@ arr@[5];\n'
    drive = 'for (int i = 0; i < 5; i++) for (int j = 0; j < 5; j++) out(f@(&arr@[i], &arr@[j]));'
    return Case('S2', 'S2/ptr-diff/elem%d' % sz, fn.replace('@', ''), decl, drive, ['p=&arr[%d] q=&arr[%d]' % (i, j) for i in range(5) for j in range(5)])


def _s2_vm(m, spec, nv, extra):
    """pointer arithmetic whose element type is variably modified; n = 1..3, indices inside the object"""
    _, _, form = spec
    UL = '(unsigned long)'
    F = {
        'vla2d-index': ('unsigned long f@(int n, int i, int j) { long v[n][n + 1]; return %s&v[i][j] - %sv; }' % (UL, UL), 3),
        'vla2d-rowaddr': ('unsigned long f@(int n, int i, int j) { int v[n + j][n]; return %s&v[i] - %sv; }' % (UL, UL), 3),
        'ptr-to-vla-add': ('unsigned long f@(int n, int i, int j) { int a[4][n]; int (*p)[n] = a; return %s(p + i) - %sa + j; }' % (UL, UL), 3),
        'ptr-to-vla-inc': ('unsigned long f@(int n, int i, int j) { int a[4][n]; int (*p)[n] = a; if (i) p++; if (j) ++p; return %sp - %sa; }' % (UL, UL), 3),
        'ptr-to-vla-index': ('unsigned long f@(int n, int i, int j) { int a[4][n]; int (*p)[n] = a; return %s&p[i][j %% n] - %sa; }' % (UL, UL), 3),
        'ptr-to-vla-diff': ('long f@(int n, int i, int j) { int a[4][n]; int (*p)[n] = a; return (p + i) - (p + j); }', 3),
        'vla-param-index': ('static long g@(int n, int k, long v[n][k], int i, int j) { return v[i][j]; }\n'
                            'long f@(int n, int i, int j) { long v[3][n + 1]; for (int x = 0; x < 3; x++) for (int y = 0; y <= n; y++) v[x][y] = 100 * x + y; '
                            'return g@(3, n + 1, v, i, j % (n + 1)); }', 3),
        'sizeof-vla-row': ('unsigned long f@(int n, int i, int j) { long v[n + i][n + j]; long (*p)[n + j] = v; '
                           'return sizeof v[0] * 10000 + sizeof *p * 100 + sizeof v / sizeof v[0]; }', 3),
        'vla1d-index': ('unsigned long f@(int n, int i, int j) { long v[n + 3]; return %s&v[i] - %sv + j; }' % (UL, UL), 3),
        'ptr-to-vla-deref': ('long f@(int n, int i, int j) { long a[3][n]; long (*p)[n] = a; for (int x = 0; x < 3; x++) for (int y = 0; y < n; y++) a[x][y] = 100 * x + y; '
                             'return (*(p + i))[j % n] + (*p)[0]; }', 3),
    }
    fn, imax = F[form]
    fn += '\n'
    tup = [(n, i, j) for n in (1, 2, 3) for i in range(imax) for j in range(imax) if not (form.startswith('vla2d-index') and (i >= n or j > n))
           and not (form == 'vla2d-rowaddr' and i >= n + j)]
    decl = fn + 'static int N@[] = {%s};\nstatic int I@[] = {%s};\nstatic int J@[] = {%s};\n' % (
        ','.join(str(t[0]) for t in tup), ','.join(str(t[1]) for t in tup), ','.join(str(t[2]) for t in tup))
    drive = 'for (int i = 0; i < %d; i++) out(f@(N@[i], I@[i], J@[i]));' % len(tup)
    key = 'S2/variably-modified/' + form if form in ('sizeof-vla-row', 'vla1d-index') else 'S2/ptr-arith/variably-modified-element-type'
    return Case('S2', key, fn.replace('@', ''), decl, drive, ['n=%d i=%d j=%d' % t for t in tup])


# ---------------------------------------------------------------------------
# S3: bit-fields

BFBASES = (SCHAR, UCHAR, CHAR, SHORT, USHORT, INT, UINT, LONG, ULONG)
BFWIDTHS = (1, 7, 8, 15, 16, 31, 32, 33, 63, 64)
BFFILL = (0, 3, 5, 13)
BFOPS = ('write', 'read', 'arith', 'preinc', 'postinc', 'predec', 'postdec') + tuple('cas' + o for o in CASOPS)


def s3_specs(only_char=False):
    for t in BFBASES + (BOOL,):
        if only_char and t is not CHAR:
            continue
        for w in BFWIDTHS:
            if w > (1 if t is BOOL else t.bits):
                continue
            bits_ = 8 if t is BOOL else t.bits
            # the listed fills plus the one that puts the field at the very top of its storage unit (nothing after it)
            for fill in BFFILL + ((bits_ - w,) if 0 < bits_ - w and bits_ - w not in BFFILL else ()):
                if fill >= bits_:
                    continue
                for op in BFOPS:
                    if t is BOOL and op not in ('write', 'read', 'arith', 'cas|', 'cas&', 'cas^', 'cas+'):
                        continue
                    yield ('S3', t.ab, w, fill, op)


def _bf_vals(m, t, w, n, extra):
    """values of a w-bit field with the signedness of t: a small integer type of its own"""
    sg = m.signed(t) and t is not BOOL
    ft = CT('bf', 'bf', 'int', w, sg, 0)
    if w == 1:
        return [0, -1] if sg else [0, 1]
    return m.values(ft, n, extra)


def s3_case(m, spec, nv, extra):
    _, ab, w, fill, op = spec
    t = BYAB[ab]
    sg = m.signed(t) and t is not BOOL
    ft = CT('bf', 'bf', 'int', w, sg, 0)          # the field as an integer type
    # promoted type of the field: gcc and clang agree for widths <= 32 (int, or unsigned for an unsigned 32-bit field, whatever the
    # declared base type); for wider fields of long type clang computes in long, gcc in a type of the field's width: see fits_gcc
    if w < 32 or (w == 32 and sg):
        pt = INT
    elif w == 32:
        pt = UINT
    else:
        pt = t
    fvals = _bf_vals(m, t, w, nv, extra)
    bvals = m.values(t, nv, extra)
    tup, filt = [], 0        # (background, initial field value, operand)

    def fits_gcc(v):
        # gcc computes long-based fields wider than int in a type of the field's width: keep intermediate results inside it
        return w <= 32 or (m.tmin(ft) <= v <= m.tmax(ft))

    if op == 'write':
        ex = 'p->f = v'
        for bg in (0, -1):
            for v in dict.fromkeys(bvals + fvals):
                tup.append((bg, 0 if bg else (-1 if sg else m.tmax(ft)), v))
    elif op == 'read':
        ex = 'p->f'
        for bg in (0, -1):
            for i in fvals:
                tup.append((bg, i, 0))
    elif op == 'arith':
        if 32 < w < 64:
            return None          # type of a long bit-field wider than int in arithmetic: gcc uses the field width, clang long
        ex = '(p->f - 1) / 2 + (p->f < v)'
        for i in fvals:
            for v in bvals[:3]:
                try:
                    _, x = m.binop('-', pt, i, INT, 1)
                    m.binop('/', pt, x, INT, 2)
                    tup.append((0, i, v))
                except UB:
                    filt += 1
    elif op in INCDEC:
        ex = INCDEC_X[op] % 'p->f'
        for bg in (0, -1):
            for i in fvals:
                try:
                    _, x = m.binop('+' if 'inc' in op else '-', pt, i, INT, 1)
                    if not fits_gcc(x) and sg:
                        raise UB('gcc field-width type')
                    tup.append((bg, i, 0))
                except UB:
                    filt += 1
    else:
        o = op[3:]
        ex = 'p->f %s= v' % o
        rv = [v for v in dict.fromkeys(bvals[:4] + [3, w - 1, w]) if m.inrange(t, v)]
        for bg in (0, -1):
            for i in fvals:
                for v in rv:
                    try:
                        _, x = m.binop(o, pt, i, t, v)
                        if o in ('<<', '>>') and w > 32 and v >= w:
                            raise UB('gcc field-width type shift')
                        if sg and o in ('<<', '+', '-', '*') and not fits_gcc(x):
                            raise UB('gcc field-width type')
                        tup.append((bg, i, v))
                    except UB:
                        filt += 1
    if not tup:
        return Case('S3', None, None, '', '', [], filtered=filt)
    mem = ('%s pad : %d; ' % ('unsigned char' if t is BOOL else t.name, fill) if fill else '') + '%s f : %d; %s g : %d;' % (t.name, w, t.name, 1 if t is BOOL else 3)
    fn = 'struct s@ { %s };\nlong long f@(struct s@ *p, %s v) { return %s; }\n' % (mem, t.name, ex)
    decl = fn + 'static int G@[] = {%s};\n' % ','.join(str(b) for b, _, _ in tup) + tab(m, t, 'I@', [m.conv(i, t) for _, i, _ in tup]) + tab(m, t, 'V@', [v for _, _, v in tup])
    pad = 's.pad = G@[i]; ' if fill else ''
    padout = 'out(s.pad); ' if fill else ''
    drive = ('for (int i = 0; i < %d; i++) { struct s@ s; %ss.g = G@[i]; s.f = I@[i]; out(f@(&s, V@[i])); %sout(s.f); out(s.g); }' % (len(tup), pad, padout))
    kop = 'compound-' + OPNAME[op[3:]] if op.startswith('cas') else 'incdec' if op in INCDEC else 'read' if op == 'arith' else op
    key = 'S3/%s/%s%s' % (kop, tclass(m, t), '/full-width' if w == t.bits else '')
    return Case('S3', key, fn.replace('@', ''), decl, drive, ['fill=%d background=%d f=%s v=%s' % (fill, b, i, v) for b, i, v in tup],
                lines_per=4 if fill else 3, filtered=filt, charty=t is CHAR)


# ---------------------------------------------------------------------------
# S4: control-flow statement trees
#
# S ::= out(k) | break | continue | return | goto end
#     | if(c) S | while(n--) S | do S while(--n) | for(i<2) S | {int t=k; S out(t);} | switch(v){case 1: S} | switch(v){default: S}
#     | if(c) S else S | {S S} | switch(v){case 1: S case 2: S} | switch(v){case 1: S default: S} | switch(v){default: S case 1: S}
# c in {0, 1, a};  a in {0,1} and v in {0,1,2,3} are the function's parameters.  break needs an enclosing loop or switch,
# continue an enclosing loop.  Every loop has its own counter, so every program terminates.

LEAVES = ('o', 'b', 'c', 'r', 'g')
UNARY = ('if0', 'if1', 'ifa', 'wh', 'do', 'for', 'blk', 'sw1', 'swd')
BINARY = ('ife0', 'ife1', 'ifea', 'seq', 'sw12', 'sw1d', 'swd1')


def trees(n, inloop=False, insw=False):
    """all statement trees with exactly n nodes, as nested tuples"""
    if n == 1:
        yield ('o',)
        if inloop or insw:
            yield ('b',)
        if inloop:
            yield ('c',)
        yield ('r',)
        yield ('g',)
        return
    for k in UNARY:
        loop = k in ('wh', 'do', 'for')
        for s in trees(n - 1, inloop or loop, insw or k in ('sw1', 'swd')):
            yield (k, s)
    for k in BINARY:
        sw = insw or k.startswith('sw')
        for i in range(1, n - 1):
            for s1 in trees(i, inloop, sw):
                for s2 in trees(n - 1 - i, inloop, sw):
                    yield (k, s1, s2)


class _Render:
    def __init__(self):
        self.k = 0
        self.uses_a = self.uses_v = False

    def nxt(self):
        self.k += 1
        return self.k

    def r(self, t):
        k = t[0]
        if k == 'o':
            return 'out(%d);' % self.nxt()
        if k == 'b':
            return 'break;'
        if k == 'c':
            return 'continue;'
        if k == 'r':
            return 'return;'
        if k == 'g':
            return 'goto end;'
        if k in ('if0', 'if1', 'ifa', 'ife0', 'ife1', 'ifea'):
            c = k[-1]
            if c == 'a':
                self.uses_a = True
            s = 'if (%s) %s' % (c, self.r(t[1]))
            if len(t) == 3:
                s += ' else %s' % self.r(t[2])
            return s
        if k == 'wh':
            n = self.nxt()
            return '{ int n%d = 2; while (n%d--) %s }' % (n, n, self.r(t[1]))
        if k == 'do':
            n = self.nxt()
            return '{ int n%d = 2; do %s while (--n%d); }' % (n, self.r(t[1]), n)
        if k == 'for':
            n = self.nxt()
            return 'for (int i%d = 0; i%d < 2; i%d++) %s' % (n, n, n, self.r(t[1]))
        if k == 'blk':
            n = self.nxt()
            return '{ int t%d = %d; %s out(t%d); }' % (n, n, self.r(t[1]), n)
        if k == 'seq':
            return '{ %s %s }' % (self.r(t[1]), self.r(t[2]))
        self.uses_v = True
        lab = {'sw1': ('case 1:',), 'swd': ('default:',), 'sw12': ('case 1:', 'case 2:'), 'sw1d': ('case 1:', 'default:'), 'swd1': ('default:', 'case 1:')}[k]
        return 'switch (v) { %s }' % ' '.join('%s %s' % (l, self.r(s)) for l, s in zip(lab, t[1:]))


def s4_case(tree):
    rd = _Render()
    body = rd.r(tree)
    fn = 'void f@(int a, int v) { %s end: out(%d); }\n' % (body, rd.nxt())
    avals = (0, 1) if rd.uses_a else (0,)
    vvals = (0, 1, 2, 3) if rd.uses_v else (0,)
    tup = [(a, v) for a in avals for v in vvals]
    drive = ' '.join('f@(%d, %d); out(1000);' % t for t in tup)
    return Case('S4', 'S4/' + jumps(tree), fn.replace('@', ''), fn, drive, ['a=%d v=%d' % t for t in tup], lines_per=None)


def jumps(tree, encl=()):
    """coarse key of a tree: the set of (jump leaf, nearest enclosing loop/switch) pairs; without jumps the set of constructs"""
    pairs, kinds = set(), set()

    def walk(t, loop, brk):
        k = t[0]
        if k == 'b':
            pairs.add('break-in-' + brk)
        elif k == 'c':
            pairs.add('continue-in-' + loop)
        elif k == 'r':
            pairs.add('return-in-' + (brk or 'function'))
        elif k == 'g':
            pairs.add('goto-out-of-' + (brk or 'function'))
        elif k != 'o':
            kinds.add(k[:2] if k.startswith(('if', 'sw')) else k)
        for s in t[1:]:
            if k in ('wh', 'do', 'for'):
                walk(s, k, k)
            elif k.startswith('sw'):
                walk(s, loop, 'switch')
            else:
                walk(s, loop, brk)
    walk(tree, '', '')
    return '+'.join(sorted(pairs)) if pairs else 'plain-' + '+'.join(sorted(kinds))


def shape(tree):
    """stable, coarse description of a tree for keys: the multiset-free preorder of node kinds"""
    return tree[0] if len(tree) == 1 else '%s(%s)' % (tree[0], ','.join(shape(s) for s in tree[1:]))


# ---------------------------------------------------------------------------
# S5: aggregates: every (size, alignment) with alignment | size, size 1..64

S5BASE = {1: 'char', 2: 'short', 4: 'int', 8: 'long'}
S5OPS = ('assign', 'init', 'pass', 'ret', 'cmp', 'cond', 'chain', 'member', 'arrelem')
S5VARIANTS = ('arr', 'mix', 'uni')
S5_EXTRA = r'''static void dump(const void *p, int n) { const unsigned char *c = p; for (int i = 0; i < n; i += 8) { unsigned long long w = 0; for (int j = 0; j < 8 && i + j < n; j++) w = w << 8 | c[i + j]; out(w); } }
static void fill(void *p, int n, int seed) { unsigned char *c = p; for (int i = 0; i < n; i++) c[i] = (unsigned char)(i * 7 + seed); }
'''


def s5_specs():
    for al in (1, 2, 4, 8):
        for size in range(al, 65, al):
            for var in S5VARIANTS:
                if var == 'mix' and size == al:
                    continue
                for op in S5OPS:
                    if var != 'arr' and op in ('cmp', 'cond', 'chain', 'init', 'arrelem'):
                        continue
                    yield ('S5', size, al, var, op)


def s5_case(spec):
    _, size, al, var, op = spec
    B, n = S5BASE[al], size // al
    if var == 'arr':
        ty = 'struct s@ { %s m[%d]; }' % (B, n)
    elif var == 'mix':
        ty = 'struct s@ { %s h; struct { char x[%d]; } t; }' % (B, size - al)
    else:
        ty = 'union s@ { %s m[%d]; char c[%d]; }' % (B, n, size)
    S = ty.split(' {')[0]
    guard = 'struct w@ { unsigned char g0[8]; %s d; unsigned char g1[8]; };\n' % S
    pre = 'struct w@ w; %s src, src2; fill(&w, sizeof w, 0xa0); fill(&src, sizeof src, 3); fill(&src2, sizeof src2, 101);' % S
    post = 'dump(&w, sizeof w);'
    if op == 'assign':
        fn = 'void f@(%s *d, %s *s) { *d = *s; }' % (S, S)
        call = 'f@(&w.d, &src);'
    elif op == 'init':
        fn = 'void f@(%s *d, %s *s) { %s x = *s; %s y = x; *d = y; }' % (S, S, S, S)
        call = 'f@(&w.d, &src);'
    elif op == 'pass':
        fn = 'void f@(%s x, %s *d, int k, %s y) { if (k) *d = y; else *d = x; }' % (S, S, S)
        call = 'f@(src, &w.d, 0, src2); dump(&w, sizeof w); f@(src, &w.d, 1, src2);'
    elif op == 'ret':
        fn = '%s f@(%s *s) { return *s; }' % (S, S)
        call = 'w.d = f@(&src);'
    elif op == 'cmp':
        fn = 'int f@(%s a, %s b) { for (int i = 0; i < %d; i++) if (a.m[i] != b.m[i]) return i + 1; return 0; }' % (S, S, n)
        call = ('out(f@(src, src)); out(f@(src, src2)); w.d = src; w.d.m[%d] ^= 1; out(f@(src, w.d)); out(f@(w.d, src));' % (n - 1))
    elif op == 'cond':
        fn = '%s f@(int c, %s *a, %s *b) { return c ? *a : *b; }' % (S, S, S)
        call = 'w.d = f@(1, &src, &src2); dump(&w, sizeof w); w.d = f@(0, &src, &src2);'
    elif op == 'chain':
        fn = 'void f@(%s *d, %s *e, %s *s) { *d = *e = *s; }' % (S, S, S)
        call = 'f@(&w.d, &src2, &src); dump(&src2, sizeof src2);'
    elif op == 'member':
        # aggregate as a member of a larger struct and copied through member access
        fn = 'struct o@ { char c; %s in; };\nvoid f@(struct o@ *o, %s *s, %s *d) { o->in = *s; *d = o->in; }' % (S, S, S)
        call = 'struct o@ o; f@(&o, &src, &w.d);'
    else:
        fn = 'void f@(%s *a, int i, int j) { a[i] = a[j]; }' % S
        call = ('%s a[3]; fill(a, sizeof a, 9); f@(a, 0, 2); f@(a, 1, 0); dump(a, sizeof a);' % S)
    fn = ty + ';\n' + guard + fn + '\n'
    drive = '%s %s %s' % (pre, call, post)
    return Case('S5', 'S5/%s/align%d' % (op, al), fn.replace('@', ''), fn, drive, ['size=%d align=%d variant=%s' % (size, al, var)], lines_per=None)
