"""Generator of the interop units for test_il2c.py.

A unit is one C source ("side") that is compiled twice, once with -DME=a -DOTHER=b and once
with -DME=b -DOTHER=a, plus a main that calls a_run() and b_run().  Each side DEFINES, for every
aggregate type S of the unit,

    S    ME_mk_S(int k)                      returns S by value
    S    ME_inc_S(S s, int k)                takes and returns S by value
    long ME_chk_S(int a, S s, double d, S t, long b)   S between scalars of both register files
    S    ME_stk_S(long x6, double x8, S s, int tail, S t)  all argument registers used up: stack
    S    ME_g_S                              an initialised global (data layout across compilers)

and its test function CALLS the OTHER side's versions (directly and through a function pointer)
and prints every field of everything it gets back.  Building side a with cproc->il2c and side b
with gcc (and vice versa) therefore exercises by-value passing and returning in both directions;
the all-gcc build is the reference output.
"""

HEADER = r'''
int printf(const char *, ...);
#define CAT_(a, b) a##_##b
#define CAT(a, b) CAT_(a, b)
#define MINE(n) CAT(ME, n)
#define THEIRS(n) CAT(OTHER, n)
#define STR_(x) #x
#define STR(x) STR_(x)
typedef __builtin_va_list va_list;
'''


class Leaf:
    def __init__(self, path, kind, bits=None):
        self.path, self.kind, self.bits = path, kind, bits   # kind: c(har) i(nt) l(ong) f d b(itfield)


def arr(name, n, kind):
    return [Leaf('%s[%d]' % (name, i), kind) for i in range(n)]


def L(*specs):
    out = []
    for s in specs:
        if isinstance(s, list):
            out += s
        else:
            path, kind = s[0], s[1]
            out.append(Leaf(path, kind, s[2] if len(s) > 2 else None))
    return out


# (name, C body of the struct/union, keyword, leaves, global initialiser allowed)
INT_TYPES = [
    ('c1', 'char a;', 'struct', L(('a', 'c'))),
    ('c2', 'char a[2];', 'struct', L(arr('a', 2, 'c'))),
    ('h2', 'short a;', 'struct', L(('a', 'i'))),
    ('c3', 'char a[3];', 'struct', L(arr('a', 3, 'c'))),
    ('i4', 'int a;', 'struct', L(('a', 'i'))),
    ('hc4', 'short a; char b;', 'struct', L(('a', 'i'), ('b', 'c'))),
    ('c7', 'char a[7];', 'struct', L(arr('a', 7, 'c'))),
    ('i8', 'int a, b;', 'struct', L(('a', 'i'), ('b', 'i'))),
    ('l8', 'long a;', 'struct', L(('a', 'l'))),
    ('chi8', 'char a; short b; int c;', 'struct', L(('a', 'c'), ('b', 'i'), ('c', 'i'))),
    ('c9', 'char a[9];', 'struct', L(arr('a', 9, 'c'))),
    ('i12', 'int a[3];', 'struct', L(arr('a', 3, 'i'))),
    ('cic12', 'char a; int b; char c;', 'struct', L(('a', 'c'), ('b', 'i'), ('c', 'c'))),
    ('l16', 'long a, b;', 'struct', L(('a', 'l'), ('b', 'l'))),
    ('i16', 'int a[4];', 'struct', L(arr('a', 4, 'i'))),
    ('il16', 'int a; long b;', 'struct', L(('a', 'i'), ('b', 'l'))),
    ('p16', 'const char *s; long n;', 'struct', L(('s', 'p'), ('n', 'l'))),
    ('c17', 'char a[17];', 'struct', L(arr('a', 17, 'c'))),
    ('l24', 'long a[3];', 'struct', L(arr('a', 3, 'l'))),
    ('l32', 'long a[4];', 'struct', L(arr('a', 4, 'l'))),
    ('i40', 'int a[10];', 'struct', L(arr('a', 10, 'i'))),
]

FLT_TYPES = [
    ('f4', 'float a;', 'struct', L(('a', 'f'))),
    ('f8', 'float a, b;', 'struct', L(('a', 'f'), ('b', 'f'))),
    ('d8', 'double a;', 'struct', L(('a', 'd'))),
    ('f12', 'float a[3];', 'struct', L(arr('a', 3, 'f'))),
    ('f16', 'float a[4];', 'struct', L(arr('a', 4, 'f'))),
    ('d16', 'double a, b;', 'struct', L(('a', 'd'), ('b', 'd'))),
    ('f20', 'float a[5];', 'struct', L(arr('a', 5, 'f'))),
    ('d24', 'double a[3];', 'struct', L(arr('a', 3, 'd'))),
    ('d32', 'double a[4];', 'struct', L(arr('a', 4, 'd'))),
    ('d40', 'double a[5];', 'struct', L(arr('a', 5, 'd'))),
    ('if8', 'int a; float b;', 'struct', L(('a', 'i'), ('b', 'f'))),
    ('fi8', 'float a; int b;', 'struct', L(('a', 'f'), ('b', 'i'))),
    ('cf8', 'char a; float b;', 'struct', L(('a', 'c'), ('b', 'f'))),
    ('fc8', 'float a; char b;', 'struct', L(('a', 'f'), ('b', 'c'))),
    ('iff12', 'int a; float b, c;', 'struct', L(('a', 'i'), ('b', 'f'), ('c', 'f'))),
    ('fif12', 'float a; int b; float c;', 'struct', L(('a', 'f'), ('b', 'i'), ('c', 'f'))),
    ('ffi12', 'float a, b; int c;', 'struct', L(('a', 'f'), ('b', 'f'), ('c', 'i'))),
    ('id16', 'int a; double b;', 'struct', L(('a', 'i'), ('b', 'd'))),
    ('di16', 'double a; int b;', 'struct', L(('a', 'd'), ('b', 'i'))),
    ('ld16', 'long a; double b;', 'struct', L(('a', 'l'), ('b', 'd'))),
    ('dl16', 'double a; long b;', 'struct', L(('a', 'd'), ('b', 'l'))),
    ('fd16', 'float a; double b;', 'struct', L(('a', 'f'), ('b', 'd'))),
    ('ffd16', 'float a, b; double c;', 'struct', L(('a', 'f'), ('b', 'f'), ('c', 'd'))),
    ('dff16', 'double a; float b, c;', 'struct', L(('a', 'd'), ('b', 'f'), ('c', 'f'))),
    ('ffii16', 'float a, b; int c, d;', 'struct', L(('a', 'f'), ('b', 'f'), ('c', 'i'), ('d', 'i'))),
    ('fifi16', 'float a; int b; float c; int d;', 'struct', L(('a', 'f'), ('b', 'i'), ('c', 'f'), ('d', 'i'))),
    ('dc16', 'double a; char b;', 'struct', L(('a', 'd'), ('b', 'c'))),
    ('cd16', 'char a; double b;', 'struct', L(('a', 'c'), ('b', 'd'))),
    ('ddc24', 'double a, b; char c;', 'struct', L(('a', 'd'), ('b', 'd'), ('c', 'c'))),
    ('ldi24', 'long a; double b; int c;', 'struct', L(('a', 'l'), ('b', 'd'), ('c', 'i'))),
    ('m32', 'double a; long b; float c; int d; char e[8];', 'struct', L(('a', 'd'), ('b', 'l'), ('c', 'f'), ('d', 'i'), arr('e', 8, 'c'))),
    ('m40', 'long a; double b[2]; int c[4];', 'struct', L(('a', 'l'), arr('b', 2, 'd'), arr('c', 4, 'i'))),
]

SPECIAL_TYPES = [
    ('n12', 'struct { float x, y; } p; int z;', 'struct', L(('p.x', 'f'), ('p.y', 'f'), ('z', 'i'))),
    ('n16', 'struct { char c; } a; struct { double d; } b;', 'struct', L(('a.c', 'c'), ('b.d', 'd'))),
    ('na16', 'struct { int a; float b; } in[2];', 'struct', L(('in[0].a', 'i'), ('in[0].b', 'f'), ('in[1].a', 'i'), ('in[1].b', 'f'))),
    ('nn24', 'struct { struct { short s; } i; double d; } o; float f;', 'struct', L(('o.i.s', 'i'), ('o.d', 'd'), ('f', 'f'))),
    ('u4', 'int i; float f;', 'union', L(('i', 'i'))),
    ('u8', 'double d; long l;', 'union', L(('l', 'l'))),
    ('uf16', 'float f[4]; double d[2];', 'union', L(arr('f', 4, 'f'))),
    ('uc16', 'char c[9]; long l;', 'union', L(arr('c', 9, 'c'))),
    ('su16', 'int tag; union { float f; int i; } u; double d;', 'struct', L(('tag', 'i'), ('u.f', 'f'), ('d', 'd'))),
    ('us8', 'struct { float a, b; } s; double d;', 'union', L(('s.a', 'f'), ('s.b', 'f'))),
    ('b4', 'unsigned a : 3; int b : 5; unsigned c : 24;', 'struct', L(('a', 'b', 3), ('b', 'b', 4), ('c', 'b', 24))),
    ('b16', 'long a : 40; unsigned b : 20; int c : 4; char d;', 'struct', L(('a', 'b', 39), ('b', 'b', 20), ('c', 'b', 3), ('d', 'c'))),
    ('bf8', 'float f; unsigned a : 9; unsigned b : 23;', 'struct', L(('f', 'f'), ('a', 'b', 9), ('b', 'b', 23))),
    ('bd16', 'unsigned a : 1; double d;', 'struct', L(('a', 'b', 1), ('d', 'd'))),
]

NO_GLOBAL = {'u8'}   # initialiser would not follow the leaf order


def setv(leaf, j, k='k'):
    p = 's.' + leaf.path
    if leaf.kind == 'p':
        return '%s = "xyz" + (%s & 1);' % (p, k)
    if leaf.kind == 'c':
        return '%s = (char)((%s * 5 + %d) & 63);' % (p, k, j)
    if leaf.kind == 'i':
        return '%s = %s * %d - %d;' % (p, k, j + 3, j * 7)
    if leaf.kind == 'l':
        return '%s = (long)%s * %d000000007L + %d;' % (p, k, j + 1, j)
    if leaf.kind == 'f':
        return '%s = %s * 0.5f + %d.25f;' % (p, k, j)
    if leaf.kind == 'd':
        return '%s = %s / 7.0 + %d.125;' % (p, k, j)
    return '%s = (%s * 3 + %d) & %d;' % (p, k, j, (1 << min(leaf.bits, 30)) - 1)


def constv(leaf, j):
    if leaf.kind == 'p':
        return '"global" + 2'
    if leaf.kind == 'c':
        return "'%c'" % chr(ord('a') + j % 26)
    if leaf.kind == 'i':
        return str(1000 * (j + 1) * (-1 if j & 1 else 1))
    if leaf.kind == 'l':
        return '%dL' % (123456789012 * (j + 1) * (-1 if j & 1 else 1))
    if leaf.kind == 'f':
        return '%d.75f' % (j + 1)
    if leaf.kind == 'd':
        return '-%d.0625' % (j + 2)
    return str((5 + j) & ((1 << min(leaf.bits, 30)) - 1))


def incv(leaf):
    p = 's.' + leaf.path
    if leaf.kind == 'p':
        return '%s += k & 1;' % p
    if leaf.kind == 'c':
        return '%s = (char)((%s + k) & 63);' % (p, p)
    if leaf.kind in 'il':
        return '%s += k;' % p
    if leaf.kind == 'f':
        return '%s += k * 0.5f;' % p
    if leaf.kind == 'd':
        return '%s -= k * 0.25;' % p
    return '%s = (%s + 1) & %d;' % (p, p, (1 << min(leaf.bits, 30)) - 1)


def showv(leaf, var='s'):
    p = '%s.%s' % (var, leaf.path)
    if leaf.kind == 'p':
        return 'printf(" %%s", %s);' % p
    if leaf.kind in 'cib':
        return 'printf(" %%d", (int)%s);' % p
    if leaf.kind == 'l':
        return 'printf(" %%ld", (long)%s);' % p
    if leaf.kind == 'f':
        return 'printf(" %%.9g", %s);' % p
    return 'printf(" %%.17g", %s);' % p


def sumv(leaf, var):
    p = '%s.%s' % (var, leaf.path)
    if leaf.kind == 'p':
        return '(long)%s[0]' % p
    return '(long)(%s * 4)' % p if leaf.kind in 'fd' else '(long)%s' % p


def one_type(name, body, kw, leaves):
    T = '%s %s' % (kw, name)
    o = []
    o.append('%s { %s };' % (T, body))
    # other side
    o.append('%s THEIRS(mk_%s)(int);' % (T, name))
    o.append('%s THEIRS(inc_%s)(%s, int);' % (T, name, T))
    o.append('long THEIRS(chk_%s)(int, %s, double, %s, long);' % (name, T, T))
    o.append('%s THEIRS(stk_%s)(long, long, long, long, long, long, double, double, double, double, double, double, double, double, %s, int, %s);' % (T, name, T, T))
    if name not in NO_GLOBAL:
        o.append('extern %s THEIRS(g_%s);' % (T, name))
        o.append('%s MINE(g_%s) = { %s };' % (T, name, ', '.join(constv(l, j) for j, l in enumerate(leaves))))
    o.append('static void show_%s(const char *tag, %s s) { printf("%%s %%s %s:", STR(ME), tag); %s printf("\\n"); }' % (
        name, T, name, ' '.join(showv(l) for l in leaves)))
    o.append('%s MINE(mk_%s)(int k) { %s s; %s return s; }' % (T, name, T, ' '.join(setv(l, j) for j, l in enumerate(leaves))))
    o.append('%s MINE(inc_%s)(%s s, int k) { %s return s; }' % (T, name, T, ' '.join(incv(l) for l in leaves)))
    o.append('long MINE(chk_%s)(int a, %s s, double d, %s t, long b) { printf("%%s chk %s %%d %%g %%ld\\n", STR(ME), a, d, b); show_%s("s", s); show_%s("t", t); return a + b + (long)(d * 8) + %s; }' % (
        name, T, T, name, name, name, ' + '.join([sumv(l, 's') for l in leaves] + [sumv(l, 't') + ' * 3' for l in leaves])))
    o.append('%s MINE(stk_%s)(long a1, long a2, long a3, long a4, long a5, long a6, double d1, double d2, double d3, double d4, double d5, double d6, double d7, double d8, %s s, int tail, %s t)'
             ' { printf("%%s stk %s %%ld %%g %%d\\n", STR(ME), a1 + 2 * a2 + 3 * a3 + 4 * a4 + 5 * a5 + 6 * a6, d1 + 2 * d2 + 3 * d3 + 4 * d4 + 5 * d5 + 6 * d6 + 7 * d7 + 8 * d8, tail); show_%s("s", s); show_%s("t", t); return tail & 1 ? s : t; }' % (
                 T, name, T, T, name, name, name))
    o.append('static void test_%s(void) {' % name)
    o.append('\t%s a, b, c, e; %s (*fp)(%s, int) = THEIRS(inc_%s); long r;' % (T, T, T, name))
    o.append('\ta = THEIRS(mk_%s)(3); show_%s("mk", a);' % (name, name))
    o.append('\tb = THEIRS(inc_%s)(a, 5); show_%s("inc", b); show_%s("arg-intact", a);' % (name, name, name))
    o.append('\tr = THEIRS(chk_%s)(-1, a, 2.5, b, 7); printf("%%s chk -> %%ld\\n", STR(ME), r);' % name)
    o.append('\tc = THEIRS(stk_%s)(1, 2, 3, 4, 5, 6, .5, 1.5, 2.5, 3.5, 4.5, 5.5, 6.5, 7.5, a, 1, b); show_%s("stk1", c);' % (name, name))
    o.append('\tc = THEIRS(stk_%s)(6, 5, 4, 3, 2, 1, 8., 7., 6., 5., 4., 3., 2., 1., a, 2, b); show_%s("stk2", c);' % (name, name))
    o.append('\te = fp(THEIRS(mk_%s)(-4), 2); show_%s("fp", e);' % (name, name))
    o.append('\tshow_%s("nested", THEIRS(inc_%s)(THEIRS(inc_%s)(MINE(mk_%s)(9), 1), 2));' % (name, name, name, name))
    if name not in NO_GLOBAL:
        o.append('\tshow_%s("global", THEIRS(g_%s)); THEIRS(g_%s) = b; show_%s("global2", THEIRS(inc_%s)(THEIRS(g_%s), 1));' % (name, name, name, name, name, name))
    o.append('}')
    return '\n'.join(o)


EXTRA = r'''
/* variadic functions and callbacks across the boundary */
long MINE(vsum)(int n, ...) { va_list ap; long s = 0; __builtin_va_start(ap, n); while (n-- > 0) s = s * 3 + __builtin_va_arg(ap, int); __builtin_va_end(ap); return s; }
double MINE(vmix)(const char *f, ...) { va_list ap; double s = 0; __builtin_va_start(ap, f);
	for (; *f; f++) { if (*f == 'i') s += __builtin_va_arg(ap, int); else if (*f == 'l') s += (double)__builtin_va_arg(ap, long); else if (*f == 'd') s += __builtin_va_arg(ap, double); else s += *__builtin_va_arg(ap, const char *); s *= 1.5; }
	__builtin_va_end(ap); return s; }
int MINE(vlist)(int n, va_list ap) { int s = 0; while (n-- > 0) s += __builtin_va_arg(ap, int); return s; }
int MINE(apply)(int (*f)(int, int), int a, int b) { return f(a, b) * 2; }
signed char MINE(narrow)(signed char a, unsigned char b, short c, unsigned short d, _Bool e) { return (signed char)(a + b + c + d + e); }
float MINE(fl)(float a, double b, float c) { return a * (float)b + c; }
long THEIRS(vsum)(int, ...);
double THEIRS(vmix)(const char *, ...);
int THEIRS(vlist)(int, va_list);
int THEIRS(apply)(int (*)(int, int), int, int);
signed char THEIRS(narrow)(signed char, unsigned char, short, unsigned short, _Bool);
float THEIRS(fl)(float, double, float);
static int mul(int a, int b) { return a * b; }
static int viaother(int n, ...) { va_list ap; int r; __builtin_va_start(ap, n); r = THEIRS(vlist)(n, ap); __builtin_va_end(ap); return r; }
static void test_extra(void) {
	printf("%s vsum %ld %ld\n", STR(ME), THEIRS(vsum)(0), THEIRS(vsum)(9, 1, 2, 3, 4, 5, 6, 7, 8, 9));
	printf("%s vmix %.10g\n", STR(ME), THEIRS(vmix)("idlsdddddddddiiiiiil", 1, 2.5, 3L, "A", .1, .2, .3, .4, .5, .6, .7, .8, .9, 4, 5, 6, 7, 8, 9, 1L << 40));
	printf("%s vlist %d\n", STR(ME), viaother(8, 1, 2, 3, 4, 5, 6, 7, 8));
	printf("%s apply %d\n", STR(ME), THEIRS(apply)(mul, 6, 7));
	printf("%s narrow %d %d\n", STR(ME), THEIRS(narrow)(-100, 200, -300, 60000, 1), THEIRS(narrow)(1, 2, 3, 4, 0));
	printf("%s fl %.9g\n", STR(ME), THEIRS(fl)(1.5f, 2.25, -0.125f));
}
'''


def unit(name, types, extra=False):
    side = [HEADER]
    for t in types:
        side.append(one_type(*t))
    if extra:
        side.append(EXTRA)
    side.append('void MINE(run)(void) {')
    for t in types:
        side.append('\ttest_%s();' % t[0])
    if extra:
        side.append('\ttest_extra();')
    side.append('}')
    main = 'void a_run(void); void b_run(void);\nint main(void) { a_run(); b_run(); return 0; }\n'
    return name, '\n'.join(side) + '\n', main


def generate():
    return [unit('ints', INT_TYPES), unit('floats', FLT_TYPES), unit('special', SPECIAL_TYPES, extra=True)]


if __name__ == '__main__':
    for n, s, m in generate():
        print('/* ==== %s ==== */' % n)
        print(s)
