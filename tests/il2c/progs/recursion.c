/* recursion: direct, mutual, deep, with struct results, on the stack with arrays */
int printf(const char *, ...);
static unsigned long fact(unsigned n) { return n < 2 ? 1 : n * fact(n - 1); }
static int fib(int n) { return n < 2 ? n : fib(n - 1) + fib(n - 2); }
static int ack(int m, int n) { return m == 0 ? n + 1 : n == 0 ? ack(m - 1, 1) : ack(m - 1, ack(m, n - 1)); }
static int is_odd(unsigned n);
static int is_even(unsigned n) { return n == 0 ? 1 : is_odd(n - 1); }
static int is_odd(unsigned n) { return n == 0 ? 0 : is_even(n - 1); }
static int depth(int n) { char pad[100]; pad[0] = (char)n; pad[99] = (char)(n >> 1); return n == 0 ? 0 : 1 + depth(n - 1) + (pad[0] != (char)n) + (pad[99] != (char)(n >> 1)); }
static void hanoi(int n, int a, int b, int c, int *moves) { if (n == 0) return; hanoi(n - 1, a, c, b, moves); ++*moves; hanoi(n - 1, c, b, a, moves); }
struct pair { long lo, hi; };
static struct pair fibp(int n) { struct pair p, q; if (n == 0) { p.lo = 0; p.hi = 1; return p; } q = fibp(n - 1); p.lo = q.hi; p.hi = q.lo + q.hi; return p; }
static void qs(int *a, int lo, int hi) { int i = lo, j = hi, p = a[(lo + hi) / 2], t; while (i <= j) { while (a[i] < p) i++; while (a[j] > p) j--; if (i <= j) { t = a[i]; a[i] = a[j]; a[j] = t; i++; j--; } } if (lo < j) qs(a, lo, j); if (i < hi) qs(a, i, hi); }
static int perm(int *a, int n, int k, int *count) { int i, t, s = 0; if (k == n) { ++*count; for (i = 0; i < n; i++) s = s * 10 + a[i]; return s % 1000; }
	for (i = k; i < n; i++) { t = a[k]; a[k] = a[i]; a[i] = t; s += perm(a, n, k + 1, count); t = a[k]; a[k] = a[i]; a[i] = t; } return s; }
static double power(double x, int n) { double h; if (n == 0) return 1; if (n < 0) return 1 / power(x, -n); h = power(x, n / 2); return n & 1 ? h * h * x : h * h; }
int main(void)
{
	int a[50], i, moves = 0, count = 0, p[5] = {1, 2, 3, 4, 5};
	unsigned seed = 12345;
	printf("%lu %lu %d %d %d\n", fact(20), fact(0), fib(20), ack(2, 3), ack(3, 3));
	printf("%d %d %d\n", is_even(1000), is_odd(777), depth(5000));
	hanoi(10, 0, 1, 2, &moves);
	printf("%d %ld %ld\n", moves, fibp(80).lo, fibp(90).hi);
	for (i = 0; i < 50; i++) { seed = seed * 1103515245u + 12345u; a[i] = (int)(seed >> 16 & 0x3ff) - 512; }
	qs(a, 0, 49);
	for (i = 0; i < 50; i++) printf("%d ", a[i]);
	i = perm(p, 5, 0, &count);
	printf("\n%d %d\n", i, count);
	printf("%.17g %.17g %.17g\n", power(2, 10), power(1.5, -3), power(-3, 5));
	return fib(10);
}
