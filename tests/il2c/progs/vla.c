/* variable length arrays: 1-D, 2-D, sizeof, in loops, as parameters, with other locals around them */
int printf(const char *, ...);
/* (cproc miscompiles subscripting of pointers to VLA types -- element size 0 -- so the 2-D array is indexed by hand) */
static long fill(int n, int m, long *a) { long s = 0; int i, j; for (i = 0; i < n; i++) for (j = 0; j < m; j++) { a[i * m + j] = (long)i * m + j; s += a[i * m + j]; } return s; }
static int sizes(int n) { char a[n]; short b[n * 2]; double c[n + 1]; a[n - 1] = 1; b[2 * n - 1] = 2; c[n] = 3; return (int)(sizeof a + sizeof b + sizeof c) + a[n - 1] + b[2 * n - 1] + (int)c[n]; }
static int rec(int n) { int v[n + 1], i, s = 0; for (i = 0; i <= n; i++) v[i] = i * n; if (n > 0) s = rec(n - 1); for (i = 0; i <= n; i++) s += v[i]; return s; }
static double dot(int n, const double x[n], const double y[n]) { double s = 0; int i; for (i = 0; i < n; i++) s += x[i] * y[i]; return s; }
int main(void)
{
	int n, total = 0, guard1 = 0x1111;
	for (n = 1; n < 40; n += 3) {
		int a[n], i, guard2 = 0x2222;
		long m2[n * (n + 1)];
		for (i = 0; i < n; i++) a[i] = i * i - n;
		for (i = 0; i < n; i++) total += a[i];
		printf("%d: %d %d %ld %d %d\n", n, (int)sizeof a, (int)sizeof m2, fill(n, n + 1, m2), total, guard1 + guard2);
		printf("   %ld %ld\n", m2[(n - 1) * (n + 1) + n], m2[n / 2 * (n + 1) + n / 3]);
	}
	printf("%d %d %d\n", sizes(1), sizes(7), sizes(100));
	printf("%d %d\n", rec(5), rec(30));
	{
		int k = 6;
		double x[k], y[k];
		typedef int row[k];
		row tab;
		for (n = 0; n < k; n++) { x[n] = n + 0.5; y[n] = 2 - n; }
		for (n = 0; n < k; n++) tab[n] = n * n;
		k = 100; /* must not change the array types */
		printf("%g %d %d %d\n", dot(6, x, y), (int)sizeof(row), (int)sizeof tab, tab[5]);
	}
	return total & 0x7f;
}
