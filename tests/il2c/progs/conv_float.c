/* float <-> double <-> every integer type; values above 2^31 and 2^63; rounding of int -> float */
int printf(const char *, ...);
static unsigned fb(float f) { union { float f; unsigned u; } x; x.f = f; return x.u; }
static unsigned long db(double f) { union { double f; unsigned long u; } x; x.f = f; return x.u; }
static const long iv[] = {0, 1, -1, 100, -100, 16777215, 16777216, 16777217, 16777219, -16777217, 2147483647L, 2147483648L, -2147483648L, 4294967295L,
	4294967296L, 9007199254740991L, 9007199254740992L, 9007199254740993L, 9007199254740995L, -9007199254740993L, 0x7fffffbfffffffffL, 0x7fffffc000000000L,
	0x7fffffffffffffffL, -0x7fffffffffffffffL - 1, 0x4000000000000001L, 123456789012345678L};
static const unsigned long uv[] = {0, 1, 16777217, 4294967295ul, 4294967296ul, 0x7ffffffffffffffful, 0x8000000000000000ul, 0x8000000000000001ul,
	0x8000008000000000ul, 0x8000008000000001ul, 0x80000080ffffffffUL, 0xfffffffffffff7fful, 0xfffffffffffff800ul, 0xfffffffffffffffful, 0xffffff7ffffffffful, 0xffffff8000000000ul,
	0x8000000000000400ul, 0x8000000000000401ul, 0x8000000000000c00ul, 18446744073709551615ul};
static const double dv[] = {0.0, 0.5, -0.5, 0.99, -0.99, 1.0, 1.5, -1.5, 2.5, 127.9, 128.0, -128.9, 255.9, 256.0, 32767.9, -32768.9, 65535.9,
	2147483647.0, 2147483647.9, -2147483648.0, -2147483648.9, 2147483648.0, 4294967295.0, 4294967295.9, 4294967296.0, 1e15, -1e15, 9223372036854774784.0,
	-9223372036854775808.0, 1e-30, 3.999999999};
int main(void)
{
	int i;
	unsigned long h = 0;
	for (i = 0; i < (int)(sizeof iv / sizeof iv[0]); i++) {
		long l = iv[i];
		float f = (float)l; double d = (double)l;
		printf("l=%ld f=%08x d=%016lx", l, fb(f), db(d));
		if (l >= -2147483648L && l <= 2147483647L) { int in = (int)l; printf(" i->f=%08x i->d=%016lx", fb((float)in), db((double)in)); }
		if (l >= 0 && l <= 4294967295L) { unsigned u = (unsigned)l; printf(" u->f=%08x u->d=%016lx", fb((float)u), db((double)u)); }
		if (l >= -32768 && l <= 32767) { short s = (short)l; signed char c = (signed char)l; printf(" s->f=%08x c->d=%016lx", fb((float)s), db((double)c)); }
		printf("\n");
		h = h * 31 + fb(f) + db(d);
	}
	for (i = 0; i < (int)(sizeof uv / sizeof uv[0]); i++) {
		unsigned long u = uv[i];
		float f = (float)u; double d = (double)u;
		printf("ul=%lu f=%08x d=%016lx\n", u, fb(f), db(d));
		h = h * 31 + fb(f) + db(d);
	}
	for (i = 0; i < (int)(sizeof dv / sizeof dv[0]); i++) {
		double d = dv[i];
		float f = (float)d;
		printf("d=%.17g f=%08x back=%016lx", d, fb(f), db((double)f));
		if (d > -129.0 && d < 128.0) printf(" sc=%d", (signed char)d);
		if (d > -1.0 && d < 256.0) printf(" uc=%d", (unsigned char)d);
		if (d > -32769.0 && d < 32768.0) printf(" s=%d", (short)d);
		if (d > -1.0 && d < 65536.0) printf(" us=%d", (unsigned short)d);
		if (d > -2147483649.0 && d < 2147483648.0) printf(" i=%d", (int)d);
		if (f > -2147483904.0f && f < 2147483648.0f) printf(" fi=%d", (int)f);
		if (d > -1.0 && d < 4294967296.0) printf(" u=%u", (unsigned)d);
		if (d >= -9223372036854775808.0 && d < 9223372036854775808.0) printf(" l=%ld", (long)d);
		if (d > -1.0 && d < 18446744073709551616.0) printf(" ul=%lu", (unsigned long)d);
		if (f > -1.0f && f < 18446744073709551616.0f) printf(" ful=%lu", (unsigned long)f);
		if (f >= -9223372036854775808.0f && f < 9223372036854775808.0f) printf(" fl=%ld", (long)f);
		printf(" b=%d\n", (_Bool)d);
		h = h * 31 + fb(f);
	}
	{
		/* unsigned long above 2^63 through double and float */
		double big = 9223372036854775808.0, bigger = 18446744073709549568.0;
		float fbig = 9223372036854775808.0f, fbigger = 18446742974197923840.0f;
		printf("big %lu %lu %lu %lu\n", (unsigned long)big, (unsigned long)bigger, (unsigned long)fbig, (unsigned long)fbigger);
		printf("mix %016lx %08x %016lx\n", db(1 + 0.5), fb(2 * 1.5f), db(1.5f + 2.25));
		float fa = 1.0f; double da = fa; fa = da * 3; int k = 7; k *= 1.5; k += 2.9; 
		printf("impl %08x %d\n", fb(fa), k);
		unsigned char uc = 100; uc *= 1.5f; short sh = -5; sh /= 2.0;
		printf("impl2 %d %d\n", uc, sh);
	}
	printf("h=%lu\n", h);
	return (int)(h % 89);
}
