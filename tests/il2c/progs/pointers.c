/* pointers: arithmetic, differences, comparisons, pointers to pointers, to struct members, void*, char* aliasing */
int printf(const char *, ...);
struct node { int v; struct node *next; };
struct pt { short x; char tag; long y; double z; };
static void swap(int *a, int *b) { int t = *a; *a = *b; *b = t; }
static void rev(char *s, int n) { char *e = s + n - 1; while (s < e) { char t = *s; *s++ = *e; *e-- = t; } }
static int len(const char *s) { const char *p = s; while (*p) p++; return (int)(p - s); }
static struct node *push(struct node *head, struct node *n, int v) { n->v = v; n->next = head; return n; }
static void setp(int **pp, int *to) { *pp = to; }
int main(void)
{
	int a[10], i, *p, *q, **pp;
	char buf[16] = "abcdefghij";
	struct node pool[5], *head = 0, *n;
	struct pt pts[3] = {{1, 'a', 2, 3.5}, {4, 'b', 5, 6.5}, {7, 'c', 8, 9.5}}, *sp = pts;
	long *lp; double *dp; void *vp; unsigned char *bp;
	unsigned u = 0x11223344;
	for (i = 0; i < 10; i++) a[i] = i * i;
	p = a + 2; q = &a[9];
	printf("%d %d %ld %ld %d %d\n", *p, *q, (long)(q - p), (long)(p - q), p < q, p + 7 == q);
	p += 3; q -= 2; p++; --q;
	printf("%d %d %d %d %d\n", *p, *q, p == q, p[-1], *(q + 1));
	i = *p++; printf("%d ", i); i = *++p; printf("%d ", i); i = *--q; printf("%d ", i); i = *q--; printf("%d %d\n", i, *q);
	swap(&a[0], &a[9]); swap(a + 1, a + 8);
	printf("%d %d %d %d\n", a[0], a[1], a[8], a[9]);
	pp = &p; setp(pp, &a[4]); printf("%d %d\n", *p, **pp); **pp = 77; printf("%d\n", a[4]);
	rev(buf, len(buf)); printf("%s %d\n", buf, len(buf));
	for (i = 0; i < 5; i++) head = push(head, &pool[i], i * 3);
	for (n = head; n; n = n->next) printf("%d ", n->v);
	printf("\n");
	printf("%d %c %ld %g | %ld %ld\n", sp[1].x, (sp + 2)->tag, (*(sp + 1)).y, sp->z, (long)(&pts[2] - sp), (long)((char *)&pts[1] - (char *)pts));
	lp = &sp[1].y; dp = &pts[2].z; *lp += 100; *dp *= 2;
	printf("%ld %g %ld\n", pts[1].y, pts[2].z, (long)((char *)lp - (char *)&pts[1]));
	vp = &pts[1]; sp = vp; printf("%d\n", sp->x);
	bp = (unsigned char *)&u; printf("%x %x %x %x\n", bp[0], bp[1], bp[2], bp[3]);
	bp[1] = 0xff; printf("%x\n", u);
	p = 0; printf("%d %d %d\n", p == 0, !p, p ? 1 : 2);
	{
		const char *strs[] = {"one", "two", "three", 0};
		const char **s;
		for (s = strs; *s; s++) printf("%s:%d ", *s, len(*s));
		printf("%c %c\n", *(*(strs + 2) + 1), strs[1][2]);
		int (*fp)(const char *) = len;
		unsigned long d = (unsigned long)&a[5] - (unsigned long)&a[1];
		printf("%d %lu\n", fp("four"), d);
	}
	return a[3];
}
